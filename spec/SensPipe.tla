------------------------------ MODULE SensPipe ------------------------------
(* The sensitivity machinery of Simulation (simulations.py: gradient,       *)
(* _bcompute, _get_rfield, jvec, jtvec) as far as it is discrete:           *)
(*  - which data enter the adjoint sources (finite residuals only),         *)
(*  - how the three directional gradients (edges along x, y, z) are         *)
(*    collected into the rows of the model's anisotropy case,               *)
(*  - where the chain rule of the property mapping is applied,              *)
(*  - how jvec expands the rows of its vector to the three directions,      *)
(*  - the shape of the results,                                             *)
(*  - jtvec = the gradient machinery with the residual replaced.            *)
(* One action per code step of `gradient`:                                  *)
(*   Inject(p, r)   adjoint source of receiver r added to the residual      *)
(*                  field of source-frequency pair p (_get_rfield)          *)
(*   BackSolve(p)   back-propagation (tol_gradient)                         *)
(*   Accumulate(p)  edge products averaged to cells: one contribution per   *)
(*                  direction into the raw rows 1..3 (directly or through   *)
(*                  the adjoint of the volume averaging)                    *)
(*   Fold(d)        raw row d added to row 1 if the case has no own         *)
(*                  parameter for direction d                               *)
(*   Chain(d)       derivative chain of the mapping on row d                *)
(*   Select         rows of the case are returned                           *)
(* Numbers (field products, weights, solves) are the environment.           *)
(*                                                                          *)
(* Properties (discrete clauses of C07 / C08):                              *)
(*  AdjointSourcesExact  a receiver is injected iff its datum is finite     *)
(*  CollectPartition     every contribution <<pair, direction>> ends up,    *)
(*                       exactly once, in the row of the parameter that     *)
(*                       governs that direction                             *)
(*  ChainOnce            each returned row got the chain rule of its own    *)
(*                       parameter exactly once, after everything was       *)
(*                       folded into it; rows folded away got none          *)
(*  ShapeRule            1 / 2 / 2 / 3 rows                                 *)
(*  ExpansionIsTranspose jvec's expansion of vector rows to directions is   *)
(*                       the transpose of the gradient's collection         *)
EXTENDS Naturals, Integers, Sequences, FiniteSets, TLC

CONSTANTS NP, NR, Deviations
Pairs == 1..NP
Recs == 1..NR
Dirs == 1..3                         \* x, y, z
Cases == {"isotropic", "VTI", "HTI", "triaxial"}

(* the row (1-based, within the returned gradient / the jvec vector) of the *)
(* parameter that governs direction d: reference definition                 *)
HasOwn(c, d) == d = 1 \/ (d = 2 /\ c \in {"HTI", "triaxial"})
                      \/ (d = 3 /\ c \in {"VTI", "triaxial"})
RowsOf(c) == {d \in Dirs : HasOwn(c, d)}
Gov(c, d) == IF HasOwn(c, d) THEN d ELSE 1           \* governing raw row
(* position of raw row d among the returned rows *)
Pos(c, d) == Cardinality({e \in RowsOf(c) : e <= d})

VARIABLES
  cf,       \* [case, fin : Pairs x Recs -> BOOLEAN (finite data), same : BOOLEAN]
  pc,       \* "start" | "inject" | "acc" | "fold" | "chain" | "done"
  inj,      \* set of <<p, r>> injected
  solved,   \* pairs back-propagated
  raw,      \* raw rows: Dirs -> set of contributions <<p, d>> (a set suffices:
            \* a duplicate is recorded in dup)
  dup,      \* a contribution was added twice
  folded,   \* raw rows that were added to row 1
  chained,  \* sequence of rows the chain rule was applied to (order matters)
  lateAdd,  \* something was folded into a row after its chain rule
  out       \* rows returned
vars == <<cf, pc, inj, solved, raw, dup, folded, chained, lateAdd, out>>

Init ==
  /\ cf \in [case : Cases, fin : [Pairs \X Recs -> BOOLEAN], same : BOOLEAN]
  /\ pc = "start" /\ inj = {} /\ solved = {} /\ raw = [d \in Dirs |-> {}]
  /\ dup = FALSE /\ folded = {} /\ chained = <<>> /\ lateAdd = FALSE /\ out = <<>>

(* _bcompute: residual fields; receivers without a datum are skipped *)
Inject(p, r) ==
  /\ pc \in {"start", "inject"} /\ <<p, r>> \notin inj
  /\ cf.fin[<<p, r>>] \/ "InjectNaN" \in Deviations
  /\ inj' = inj \cup {<<p, r>>} /\ pc' = "inject"
  /\ UNCHANGED <<cf, solved, raw, dup, folded, chained, lateAdd, out>>
AllInjected == \A p \in Pairs, r \in Recs : cf.fin[<<p, r>>] => <<p, r>> \in inj
BackSolve(p) ==
  /\ pc \in {"start", "inject"} /\ AllInjected /\ p \notin solved
  /\ solved' = solved \cup {p}
  /\ pc' = IF solved' = Pairs THEN "acc" ELSE pc
  /\ UNCHANGED <<cf, inj, raw, dup, folded, chained, lateAdd, out>>
Accumulate(p) ==
  /\ pc = "acc" /\ \A d \in Dirs : <<p, d>> \notin raw[d]
  /\ raw' = [d \in Dirs |-> raw[d] \cup {<<p, d>>}]
  /\ pc' = IF \A q \in Pairs : \A d \in Dirs : <<q, d>> \in raw'[d] THEN "fold" ELSE "acc"
  /\ UNCHANGED <<cf, inj, solved, dup, folded, chained, lateAdd, out>>
(* the code walks the directions 2, 3 (fold or chain each), then chains 1 *)
NextDir == IF 2 \notin folded /\ ~\E k \in 1..Len(chained) : chained[k] = 2 THEN 2
           ELSE IF 3 \notin folded /\ ~\E k \in 1..Len(chained) : chained[k] = 3 THEN 3
           ELSE 1
Fold(d) ==
  /\ pc = "fold" /\ d = NextDir /\ d # 1 /\ ~HasOwn(cf.case, d)
  /\ raw' = [raw EXCEPT ![1] = raw[1] \cup raw[d]]
  /\ dup' = (dup \/ raw[1] \cap raw[d] # {})
  /\ folded' = folded \cup {d}
  /\ lateAdd' = (lateAdd \/ \E k \in 1..Len(chained) : chained[k] = 1)
  /\ UNCHANGED <<cf, pc, inj, solved, chained, out>>
Chain(d) ==
  /\ pc = "fold" /\ d = NextDir /\ (d = 1 \/ HasOwn(cf.case, d))
  /\ chained' = Append(chained, d)
  /\ pc' = IF d = 1 THEN "chain" ELSE "fold"
  /\ UNCHANGED <<cf, inj, solved, raw, dup, folded, lateAdd, out>>
Select ==
  /\ pc = "chain"
  /\ out' = [k \in 1..Cardinality(RowsOf(cf.case)) |->
               raw[CHOOSE d \in RowsOf(cf.case) : Pos(cf.case, d) = k]]
  /\ pc' = "done"
  /\ UNCHANGED <<cf, inj, solved, raw, dup, folded, chained, lateAdd>>

Next == \/ \E p \in Pairs, r \in Recs : Inject(p, r)
        \/ \E p \in Pairs : BackSolve(p) \/ Accumulate(p)
        \/ \E d \in Dirs : Fold(d) \/ Chain(d)
        \/ Select
Spec == Init /\ [][Next]_vars /\ WF_vars(Next)

(* ------------------------------ properties ------------------------------ *)
AdjointSourcesExact ==
  pc \in {"acc", "fold", "chain", "done"} =>
     inj = {t \in Pairs \X Recs : cf.fin[t]}
CollectPartition ==
  pc = "done" =>
     /\ ~dup
     /\ \A p \in Pairs, d \in Dirs :
          \A k \in 1..Len(out) :
             (<<p, d>> \in out[k]) = (k = Pos(cf.case, Gov(cf.case, d)))
ChainOnce ==
  pc = "done" =>
     /\ ~lateAdd
     /\ \A d \in Dirs :
          Cardinality({k \in 1..Len(chained) : chained[k] = d})
             = (IF d \in RowsOf(cf.case) THEN 1 ELSE 0)
ShapeRule ==
  pc = "done" => Len(out) = (CASE cf.case = "isotropic" -> 1 [] cf.case = "triaxial" -> 3
                               [] OTHER -> 2)
(* jvec: vector row used for direction d (cvector composition in jvec) *)
JvecRow(c, d) == CASE c = "isotropic" -> 1
                   [] c = "HTI" -> (IF d = 2 THEN 2 ELSE 1)
                   [] c = "VTI" -> (IF d = 3 THEN 2 ELSE 1)
                   [] c = "triaxial" -> d
ExpansionIsTranspose ==
  \A c \in Cases, d \in Dirs : JvecRow(c, d) = Pos(c, Gov(c, d))
Terminates == <>(pc = "done")
=============================================================================
