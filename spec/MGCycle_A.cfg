SPECIFICATION Spec
CONSTANTS
  Shapes <- A_Shapes
  Cycles <- A_Cycles
  ScPats <- A_ScPats
  LrPats <- A_LrPats
  CLevels <- A_CLevels
  MaxIts <- A_MaxIts
  NuSets <- A_NuSets
  MaxCalls = 1
INVARIANT TypeOK
INVARIANT AtLeastTwo
INVARIANT StackShape
INVARIANT HalveOnlyEvenGT2
INVARIANT Progress
INVARIANT NoLRAlongTwoCells
INVARIANT DepthBound
INVARIANT BottomExact
INVARIANT NotBottomCanCoarsen
INVARIANT HeaderShape
INVARIANT CycmaxRule
INVARIANT DocOrder
INVARIANT DocDepth
INVARIANT QCIsFirstCycle
INVARIANT ItBound
PROPERTY AdvanceOncePerCycle
CHECK_DEADLOCK FALSE
