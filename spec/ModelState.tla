------------------------------ MODULE ModelState ------------------------------
(* emg3d.models.Model as a state machine (models.py 106-141, 547-591 and the *)
(* property setters): which of the five parameter arrays exist, the          *)
(* anisotropy case, and the validation of values on construction and on      *)
(* assignment.  Decides the rejection clause of C14 (harness/c14.py); it     *)
(* covers the discrete clause of C14: non-positive or non-finite             *)
(* conductivities, permeabilities and permittivities are rejected at         *)
(* construction and on assignment, and a rejected assignment changes         *)
(* nothing.                                                                  *)
(* A value array is abstracted to the class of its "worst" entry as given by *)
(* the user in the model's own parametrisation.                              *)
EXTENDS Naturals, Sequences, FiniteSets, TLC

Mappings == {"Conductivity", "Resistivity", "LgConductivity", "LgResistivity",
             "LnConductivity", "LnResistivity"}
Classes == {"pos", "zero", "neg", "nan", "inf", "ninf"}
Props == {"property_x", "property_y", "property_z", "mu_r", "epsilon_r"}
IsLog(m) == m \in {"LgConductivity", "LgResistivity", "LnConductivity", "LnResistivity"}
IsRes(m) == m \in {"Resistivity", "LgResistivity", "LnResistivity"}

(* class of the conductivity (map.backward) for a user value of class c *)
CondClass(m, c) ==
  CASE c = "nan" -> "nan"
    [] ~IsLog(m) /\ ~IsRes(m) -> c                       \* identity
    [] ~IsLog(m) /\ IsRes(m) ->                          \* 1 / rho
         (CASE c = "pos" -> "pos" [] c = "zero" -> "inf" [] c = "neg" -> "neg"
            [] c = "inf" -> "zero" [] c = "ninf" -> "zero")
    [] IsLog(m) ->                                       \* base ** (+-x)
         (CASE c \in {"pos", "zero", "neg"} -> "pos"
            [] c = "inf" -> (IF IsRes(m) THEN "zero" ELSE "inf")
            [] c = "ninf" -> (IF IsRes(m) THEN "inf" ELSE "zero"))
(* accepted iff the checked quantity is positive and finite *)
Valid(m, p, c) ==
  LET q == IF p \in {"mu_r", "epsilon_r"} THEN c ELSE CondClass(m, c)
  IN q = "pos"

VARIABLES mapping, has, last
vars == <<mapping, has, last>>
Case == IF ~has["property_y"] /\ ~has["property_z"] THEN "isotropic"
        ELSE IF ~has["property_z"] THEN "HTI"
        ELSE IF ~has["property_y"] THEN "VTI" ELSE "triaxial"

Init == mapping \in Mappings /\ has = [p \in Props |-> FALSE]
        /\ last = [op |-> "none", ok |-> TRUE]
(* Model(grid, property_x=.., property_y=.., ...): given = set of parameters *)
(* provided, cls = class of each                                             *)
Construct(m, given, cls) ==
  /\ last.op = "none"
  /\ "property_x" \in given
  /\ mapping' = m
  /\ LET ok == \A p \in given : Valid(m, p, cls[p])
     IN /\ last' = [op |-> "construct", ok |-> ok]
        /\ has' = IF ok THEN [p \in Props |-> p \in given] ELSE has
Assign(p, c) ==
  /\ last.op # "none" /\ (last.op = "construct" => last.ok)
  /\ LET ok == has[p] /\ Valid(mapping, p, c)
     IN last' = [op |-> "assign", ok |-> ok]
  /\ UNCHANGED <<mapping, has>>
Next == (\E m \in Mappings, g \in SUBSET Props, cls \in [Props -> Classes] : Construct(m, g, cls))
        \/ (\E p \in Props, c \in Classes : Assign(p, c))
Spec == Init /\ [][Next]_vars

(* the property, stated on conductivities directly *)
RejectsBadValues ==
  \A m \in Mappings, p \in Props, c \in Classes :
     Valid(m, p, c) =>
        /\ c # "nan"
        /\ p \in {"mu_r", "epsilon_r"} => c = "pos"
        /\ (p \notin {"mu_r", "epsilon_r"} /\ ~IsLog(m)) => c = "pos"
        /\ (p \notin {"mu_r", "epsilon_r"} /\ IsLog(m)) => c \in {"pos", "zero", "neg"}
=============================================================================
