------------------------------- MODULE Mapping -------------------------------
(* The six property mappings of emg3d.maps (Map*: forward, backward,        *)
(* derivative_chain) on the lattice sigma = 10^k, k in -KMax..KMax (twelve   *)
(* decades for KMax = 6), in exact "exponent algebra":                      *)
(*   a mapped value is <<kind, n>>:  "p10": 10^n   "int": n   "ln": n ln 10 *)
(*   a derivative is a monomial <<s, a, b>>:  s sigma^a (ln 10)^b           *)
(* Reference (first principles): the definition x = g(sigma) of each map    *)
(* and the elementary derivatives d(1/s)/ds, d(log10 s)/ds, d(ln s)/ds; the *)
(* chain-rule factor is the derivative of the inverse function,             *)
(* d sigma / d x = 1 / g'(sigma).                                           *)
(* TLC checks the laws of C14 on the reference for every k and mapping and  *)
(* (MappingCode) the values the real Map classes return on the lattice.     *)
EXTENDS Naturals, Integers, Sequences, FiniteSets, TLC

CONSTANT KMax
K == (0 - KMax)..KMax
Mappings == {"Conductivity", "Resistivity", "LgConductivity", "LgResistivity",
             "LnConductivity", "LnResistivity"}
IsRes(m) == m \in {"Resistivity", "LgResistivity", "LnResistivity"}
Kind(m) == CASE m \in {"Conductivity", "Resistivity"} -> "p10"
             [] m \in {"LgConductivity", "LgResistivity"} -> "int"
             [] OTHER -> "ln"
(* x = g(sigma) *)
Fwd(m, k) == <<Kind(m), IF IsRes(m) THEN 0 - k ELSE k>>
(* sigma = g^-1(x): exponent of sigma; defined for values of the map's kind *)
Bwd(m, v) == IF IsRes(m) THEN 0 - v[2] ELSE v[2]
(* g'(sigma) as monomial *)
Prim(m) == CASE m = "Conductivity"   -> <<1, 0, 0>>          \* x = s
             [] m = "Resistivity"    -> <<0 - 1, 0 - 2, 0>>  \* x = 1/s
             [] m = "LgConductivity" -> <<1, 0 - 1, 0 - 1>>  \* x = ln s / ln 10
             [] m = "LgResistivity"  -> <<0 - 1, 0 - 1, 0 - 1>>
             [] m = "LnConductivity" -> <<1, 0 - 1, 0>>
             [] m = "LnResistivity"  -> <<0 - 1, 0 - 1, 0>>
Inv(q) == <<q[1], 0 - q[2], 0 - q[3]>>                    \* 1 / (s sigma^a L^b)
Chain(m) == Inv(Prim(m))        \* d sigma / d x

VARIABLE st
Init == st \in Mappings \X K
Spec == Init /\ [][UNCHANGED st]_st
(* mapping back and forth is the identity *)
RoundTrip == Bwd(st[1], Fwd(st[1], st[2])) = st[2]
(* the same conductivity in every parametrisation gives the same sigma *)
SameSigma == \A m \in Mappings : Bwd(m, Fwd(m, st[2])) = Bwd(st[1], Fwd(st[1], st[2]))
(* a resistivity-type map is the conductivity-type map of 1/sigma *)
Reciprocal ==
  LET c == CASE st[1] = "Resistivity" -> "Conductivity"
             [] st[1] = "LgResistivity" -> "LgConductivity"
             [] st[1] = "LnResistivity" -> "LnConductivity" [] OTHER -> st[1]
  IN IsRes(st[1]) => Fwd(st[1], st[2]) = Fwd(c, 0 - st[2])
(* the chain-rule factors of the documentation (what the code implements) *)
DocChain(m) == CASE m = "Conductivity"   -> <<1, 0, 0>>
                 [] m = "Resistivity"    -> <<0 - 1, 2, 0>>    \* -sigma^2
                 [] m = "LgConductivity" -> <<1, 1, 1>>        \* sigma ln 10
                 [] m = "LgResistivity"  -> <<0 - 1, 1, 1>>
                 [] m = "LnConductivity" -> <<1, 1, 0>>
                 [] m = "LnResistivity"  -> <<0 - 1, 1, 0>>
ChainIsDerivative == DocChain(st[1]) = Chain(st[1])
(* sign: conductivity-type maps increase with sigma, resistivity-type decrease *)
ChainSign == Chain(st[1])[1] = (IF IsRes(st[1]) THEN 0 - 1 ELSE 1)
=============================================================================
