------------------------------ MODULE SimCache ------------------------------
(* Caches and scratch data of emg3d.simulations.Simulation and every public  *)
(* operation of the C12 alphabet, for up to two simulation objects (an       *)
(* original and a copy / reloaded one) that may share a file_dir.            *)
(*                                                                           *)
(* Every cached quantity carries its PROVENANCE: the id of the model it was  *)
(* computed for (and, for gradient-like quantities, what drove the back-     *)
(* propagation).  The C12 properties say that whatever is reported carries   *)
(* the provenance a freshly created simulation would produce.                *)
(*                                                                           *)
(* Code anchors (emg3d/simulations.py): __init__ 259-300, clean 354-412,     *)
(* copy/to_dict/from_dict 414-545, to_file/from_file 547-616, get_efield /   *)
(* get_hfield 700-722, _dict_get/_load/_data_or_file 729-757, compute/       *)
(* _compute 795-880, gradient 1001-1094, misfit 1159-1191, _bcompute         *)
(* 1193-1233, jvec 1270-1397, jtvec 1399-1444.                               *)
EXTENDS Naturals, Integers, Sequences, FiniteSets, TLC

CONSTANTS Pairs,       \* source-frequency pairs, e.g. {1, 2}
          MaxModel,    \* model ids 0..MaxModel
          FileMode,    \* TRUE: fields are exchanged through files in file_dir
          MaxOps,      \* bound on the history length
          NObj,        \* 1: a single simulation; 2: original + copy/reloaded
          Layered,     \* TRUE: layered=True (1D modeller: responses only,
                       \*    no fields; gradient by finite differences)
          Deviations   \* "SharedFileDir": a copy / reloaded simulation keeps
                       \*    the file_dir of its original (as the code does)
                       \* "JtvecLeavesState": jtvec leaves Jt w in the gradient
                       \*    cache and the vector in data.residual
                       \* "ObservedKeepsCaches": compute(observed=True)
                       \*    replaces the observed data but keeps the cached
                       \*    misfit, gradient, residual and weights
                       \* (the shared file_dir of copies is modelled as is)

Objs == 1..NObj
Whats == {"computed", "results", "all", "plain"}
CleanWhats == {"computed", "keepresults", "all"}

VARIABLES S,        \* S[o]: state of simulation object o (record, see Blank)
          files,    \* files[d][kind][p]: content of directory d (provenance
                    \* or Gone); object o uses directory S[o].dir
          nextModel,\* next unused model id
          nops,     \* operations so far
          last      \* last operation and what it returned

vars == <<S, files, nextModel, nops, last>>

(* provenance values are integers: model ids >= 0 and these markers *)
None == -1      \* nothing there (None / NaN / key absent)
Vec == -2       \* driven by a user vector (jtvec)
Mixed == -3     \* parts computed for different models
File == -4      \* the dict entry is a file name
Gone == -5      \* the file the entry points to does not exist
NoGrad == <<-1, -1>>
(* observed data: 0 = the data the survey came with, m + 1 = the synthetic   *)
(* data of model m (compute(observed=True)).  Quantities that compare        *)
(* synthetic with observed data carry both: DP(m, ob)                        *)
DP(m, ob) == IF m < 0 THEN m ELSE m + 10 * ob
Blank(m) ==
  [ex |-> TRUE, mv |-> m, dir |-> 1, ob |-> 0,
   ef |-> [p \in Pairs |-> None],   \* efield: model id | File | none
   syn |-> [p \in Pairs |-> None],  \* data.synthetic: model id | none (NaN)
   comp |-> FALSE,                  \* _computed
   mis |-> None,                    \* _misfit: model id
   w |-> None,                      \* data['weights']: observed data they
                                    \* were computed from | none
   res |-> None,                    \* data.residual: DP | Vec | none
   grad |-> NoGrad,                 \* _gradient: <<efield id, driver DP>> | none
   bf |-> None,                     \* _dict_bfield exists: driver | none
   tol |-> "fwd",                   \* solver_opts['tol']
   jv |-> FALSE]                    \* 'jvec' in data
Absent == [ex |-> FALSE, mv |-> 0, dir |-> 1, ob |-> 0,
           ef |-> [p \in Pairs |-> None],
           syn |-> [p \in Pairs |-> None], comp |-> FALSE, mis |-> None,
           w |-> None, res |-> None, grad |-> NoGrad, bf |-> None,
           tol |-> "fwd", jv |-> FALSE]

NoDir == [k \in {"e", "b"} |-> [p \in Pairs |-> Gone]]
NoFiles == [d \in 1..2 |-> NoDir]

Init ==
  /\ S = [o \in Objs |-> IF o = 1 THEN Blank(0) ELSE Absent]
  /\ files = NoFiles
  /\ nextModel = 1
  /\ nops = 0
  /\ last = [op |-> "init", obj |-> 0, arg |-> "-", kind |-> "none",
             prov |-> None]

(* ---- reading a field: memory or the hand-over file ---------------------- *)
EContent(r, f, p) == IF r.ef[p] = File THEN f[r.dir]["e"][p] ELSE r.ef[p]

(* ---- pure state transformers: <<new record, new files>> ----------------- *)
(* _compute(pairs): solve, store efield (+info), sample the receivers        *)
ComputeF(r, f, ps) ==
  IF Layered       \* _compute_1d(): all responses, nothing else is touched
  THEN <<[r EXCEPT !.syn = [p \in Pairs |-> r.mv]], f>>
  ELSE
  LET r1 == [r EXCEPT !.ef = [p \in Pairs |-> IF p \in ps
                                THEN (IF FileMode THEN File ELSE r.mv)
                                ELSE r.ef[p]],
                      !.syn = [p \in Pairs |-> IF p \in ps THEN r.mv
                                               ELSE r.syn[p]],
                      !.tol = "fwd"]
      f1 == IF FileMode
            THEN [f EXCEPT ![r.dir]["e"] = [p \in Pairs |-> IF p \in ps THEN r.mv
                                                  ELSE f[r.dir]["e"][p]]]
            ELSE f
  IN <<r1, f1>>

(* _compute() first loads the previous efield of each pair as start value;  *)
(* that fails if the hand-over file has been removed (shared file_dir)      *)
ComputeOK(r, f, ps) == Layered \/ \A p \in ps : EContent(r, f, p) # Gone

(* compute(): all pairs, then _computed = True *)
ComputeAllF(r, f) ==
  LET c == ComputeF(r, f, Pairs) IN <<[c[1] EXCEPT !.comp = TRUE], c[2]>>

(* provenance of a value derived from all synthetic data *)
SynProv(r) == IF \E m \in 0..MaxModel : \A p \in Pairs : r.syn[p] = m
              THEN r.syn[CHOOSE p \in Pairs : TRUE] ELSE Mixed

(* misfit property *)
MisfitOK(r, f) == r.mis # None \/ r.comp \/ ComputeOK(r, f, Pairs)
MisfitF(r, f) ==
  IF r.mis # None \/ ~MisfitOK(r, f) THEN <<r, f>>
  ELSE LET c == IF r.comp THEN <<r, f>> ELSE ComputeAllF(r, f)
           r1 == c[1]
           \* weights are always derived from the current standard
           \* deviation (fix 7cf6fdc); deviation StoredWeightsReused: only
           \* if none are stored
           wn == IF r1.w = None \/ "StoredWeightsReused" \notin Deviations
                 THEN r1.ob ELSE r1.w
           rp == DP(SynProv(r1), r1.ob)
       IN <<[r1 EXCEPT !.w = wn, !.res = rp,
                       !.mis = IF wn = r1.ob THEN rp ELSE Mixed],
            c[2]>>

(* the efields the gradient / jvec need are there *)
AllE(r, f) == \A p \in Pairs : EContent(r, f, p) \notin {None, Gone}
EProv(r, f) == IF \E m \in 0..MaxModel : \A p \in Pairs : EContent(r, f, p) = m
               THEN EContent(r, f, CHOOSE p \in Pairs : TRUE) ELSE Mixed

(* gradient and jvec need the electric fields: entries removed by           *)
(* clean('keepresults') are recomputed (all pairs; fix in /repo); deviation *)
(* FieldsNotRecomputed: the code before that fix                            *)
NeedE(r) == \E p \in Pairs : r.ef[p] = None
EnsureE(r, f) ==
  IF "FieldsNotRecomputed" \in Deviations \/ ~NeedE(r) \/ ~ComputeOK(r, f, Pairs)
  THEN <<r, f>> ELSE ComputeAllF(r, f)

(* gradient property: <<record, files, kind, prov>> *)
GradientF(r, f) ==
  IF r.grad # NoGrad THEN <<r, f, "value", r.grad>>
  ELSE IF ~MisfitOK(r, f) THEN <<r, f, "error", NoGrad>>
  ELSE IF Layered     \* finite differences with the 1D modeller: no
                      \* back-propagation, no tolerance switch
  THEN LET c == MisfitF(r, f)
           r1 == c[1]
           drv == IF r1.res = Vec \/ r1.w = r1.ob THEN r1.res ELSE Mixed
           g == <<r1.mv, drv>>
       IN <<[r1 EXCEPT !.grad = g], c[2], "value", g>>
  ELSE LET c0 == MisfitF(r, f)
           c == EnsureE(c0[1], c0[2])
           r1 == c[1]
           f1 == c[2]
       IN IF ~AllE(r1, f1)
          THEN \* _bcompute ran (bfields exist), then the loop fails on None
               <<[r1 EXCEPT !.bf = r1.res, !.tol = "grad"],
                 IF FileMode THEN [f1 EXCEPT ![r1.dir]["b"] = [p \in Pairs |-> r1.res]]
                 ELSE f1, "error", None>>
          ELSE LET \* the back-propagated source is residual * weight (for
                   \* jtvec the weight cancels)
                   drv == IF r1.res = Vec \/ r1.w = r1.ob THEN r1.res ELSE Mixed
                   g == <<EProv(r1, f1), drv>>
               IN <<[r1 EXCEPT !.bf = r1.res, !.tol = "grad", !.grad = g],
                    IF FileMode
                    THEN [f1 EXCEPT ![r1.dir]["b"] = [p \in Pairs |-> r1.res]]
                    ELSE f1,
                    "value", g>>

JvecF(r, f) ==
  IF Layered THEN <<r, f, "error", None>> ELSE      \* NotImplementedError
  IF ~MisfitOK(r, f) THEN <<r, f, "error", None>> ELSE
  LET c0 == MisfitF(r, f)
      c == EnsureE(c0[1], c0[2])
      r1 == c[1]
  IN IF ~AllE(r1, c[2])
     THEN \* inputs are collected pair by pair; each collected pair sets
          \* solver_opts['tol'] = tol_gradient before a missing efield fails
          <<[r1 EXCEPT !.tol = IF EContent(r1, c[2], 1) \notin {None, Gone}
                               THEN "grad" ELSE @], c[2], "error", None>>
     ELSE <<[r1 EXCEPT !.tol = "grad", !.jv = TRUE], c[2], "value",
            EProv(r1, c[2])>>

JtvecF(r, f) ==
  \* jtvec evaluates the misfit first (residual, weights; fix in /repo);
  \* deviation JtvecNeedsMisfit: the code before - an error on a simulation
  \* whose misfit had not been asked for
  IF "JtvecNeedsMisfit" \notin Deviations /\ ~MisfitOK(r, f)
  THEN <<r, f, "error", NoGrad>>
  ELSE
  LET c == IF "JtvecNeedsMisfit" \in Deviations THEN <<r, f>> ELSE MisfitF(r, f)
      r1 == c[1]
  IN IF r1.w = None \/ r1.res = None THEN <<r1, c[2], "error", NoGrad>>
     ELSE LET r0 == [r1 EXCEPT !.res = Vec, !.grad = NoGrad, !.bf = None]
              g == GradientF(r0, c[2])
          IN IF "JtvecLeavesState" \in Deviations THEN g
             ELSE \* residual and gradient cache restored, bfields dropped
                  <<[g[1] EXCEPT !.res = r1.res, !.grad = r1.grad, !.bf = None],
                    g[2], g[3], g[4]>>

CleanF(r, f, what) ==
  LET r1 == IF what \in {"computed", "keepresults", "all"}
            THEN [r EXCEPT !.ef = [p \in Pairs |-> None], !.bf = None] ELSE r
      f1 == IF FileMode THEN [f EXCEPT ![r.dir] = NoDir]   \* unlink *field_*.h5
            ELSE f
      r2 == IF what \in {"computed", "all"}
            THEN [r1 EXCEPT !.comp = FALSE, !.res = None, !.w = None,
                            !.syn = [p \in Pairs |-> None], !.grad = NoGrad,
                            !.mis = None]
            ELSE r1
  IN <<r2, f1>>

(* to_dict(what) -> from_dict: which parts survive (deep copy or file) *)
CopyF(r, what, d) ==
  LET base == [Blank(r.mv) EXCEPT !.tol = "fwd", !.dir = d, !.ob = r.ob]
      data == IF what = "plain" THEN [base EXCEPT !.jv = r.jv]
              ELSE [base EXCEPT !.syn = r.syn, !.res = r.res, !.w = r.w,
                                !.jv = r.jv]
      flds == IF what \in {"computed", "all"}
              THEN [data EXCEPT !.ef = r.ef, !.bf = r.bf] ELSE data
  IN IF what = "plain" THEN flds
     ELSE [flds EXCEPT !.grad = r.grad, !.mis = r.mis, !.comp = r.comp]

(* ---- actions ------------------------------------------------------------ *)
Ret(op, o, arg, kind, prov) ==
  last' = [op |-> op, obj |-> o, arg |-> arg, kind |-> kind, prov |-> prov]

(* MaxOps = 0: no history bound (the abstract graph itself is finite)        *)
Step == IF MaxOps = 0 THEN nops' = nops ELSE (nops < MaxOps /\ nops' = nops + 1)

Compute(o) ==
  /\ Step /\ S[o].ex
  /\ IF ComputeOK(S[o], files, Pairs)
     THEN /\ LET c == ComputeAllF(S[o], files)
             IN S' = [S EXCEPT ![o] = c[1]] /\ files' = c[2]
          /\ Ret("compute", o, "-", "none", None)
     ELSE /\ UNCHANGED <<S, files>>
          /\ Ret("compute", o, "-", "error", None)
  /\ UNCHANGED nextModel

(* compute(observed=True, add_noise=False): all pairs; the synthetic data   *)
(* become the observed data; _computed is left as it is; whatever was      *)
(* derived from the old observed data is dropped                           *)
ComputeObsF(r, f) ==
  LET c == ComputeF(r, f, Pairs)
      r1 == [c[1] EXCEPT !.ob = r.mv + 1]
  IN <<IF "ObservedKeepsCaches" \in Deviations THEN r1
       ELSE [r1 EXCEPT !.mis = None, !.grad = NoGrad, !.res = None, !.w = None],
       c[2]>>
ComputeObs(o) ==
  /\ Step /\ S[o].ex
  /\ IF ComputeOK(S[o], files, Pairs)
     THEN /\ LET c == ComputeObsF(S[o], files)
             IN S' = [S EXCEPT ![o] = c[1]] /\ files' = c[2]
          /\ Ret("compute_obs", o, "-", "none", None)
     ELSE /\ UNCHANGED <<S, files>>
          /\ Ret("compute_obs", o, "-", "error", None)
  /\ UNCHANGED nextModel

Misfit(o) ==
  /\ Step /\ S[o].ex
  /\ LET c == MisfitF(S[o], files)
     IN /\ S' = [S EXCEPT ![o] = c[1]] /\ files' = c[2]
        /\ IF MisfitOK(S[o], files)
           THEN Ret("misfit", o, "-", "value", c[1].mis)
           ELSE Ret("misfit", o, "-", "error", None)
  /\ UNCHANGED nextModel

Gradient(o) ==
  /\ Step /\ S[o].ex
  /\ LET c == GradientF(S[o], files)
     IN /\ S' = [S EXCEPT ![o] = c[1]] /\ files' = c[2]
        /\ Ret("gradient", o, "-", c[3], c[4])
  /\ UNCHANGED nextModel

Jvec(o) ==
  /\ Step /\ S[o].ex
  /\ LET c == JvecF(S[o], files)
     IN /\ S' = [S EXCEPT ![o] = c[1]] /\ files' = c[2]
        /\ Ret("jvec", o, "-", c[3], c[4])
  /\ UNCHANGED nextModel

Jtvec(o) ==
  /\ Step /\ S[o].ex
  /\ LET c == JtvecF(S[o], files)
     IN /\ S' = [S EXCEPT ![o] = c[1]] /\ files' = c[2]
        /\ Ret("jtvec", o, "-", c[3],
               IF c[3] = "value" THEN <<c[4][1], Vec>> ELSE NoGrad)
  /\ UNCHANGED nextModel

(* get_efield / get_hfield(p): compute that pair only if it is missing *)
GetField(o, p, which) ==
  /\ Step /\ S[o].ex
  /\ ~Layered
  /\ LET c == IF EContent(S[o], files, p) \in {None}
              THEN ComputeF(S[o], files, {p}) ELSE <<S[o], files>>
         e == EContent(c[1], c[2], p)
         \* _compute() ends with print_solver_info(), which loads the info
         \* of EVERY pair: fails (after storing) if another file is gone
         broken == /\ EContent(S[o], files, p) = None
                   /\ ~ComputeOK(c[1], c[2], Pairs)
     IN /\ S' = [S EXCEPT ![o] = c[1]] /\ files' = c[2]
        /\ IF e = Gone \/ broken   \* the file the dict points to is gone
           THEN Ret(which, o, ToString(p), "error", None)
           ELSE Ret(which, o, ToString(p), "value", e)
  /\ UNCHANGED nextModel

(* layered: "No fields if `layered` is used." *)
GetFieldLayered(o, p, which) ==
  /\ Step /\ S[o].ex /\ Layered
  /\ Ret(which, o, ToString(p), "error", None)
  /\ UNCHANGED <<S, files, nextModel>>

Clean(o, what) ==
  /\ Step /\ S[o].ex
  /\ LET c == CleanF(S[o], files, what)
     IN S' = [S EXCEPT ![o] = c[1]] /\ files' = c[2]
  /\ Ret("clean", o, what, "none", None)
  /\ UNCHANGED nextModel

(* sim.model = new model (same grid); sim.clean('computed') *)
ModelUpdate(o) ==
  /\ Step /\ S[o].ex /\ nextModel <= MaxModel
  /\ LET c == CleanF([S[o] EXCEPT !.mv = nextModel], files, "computed")
     IN S' = [S EXCEPT ![o] = c[1]] /\ files' = c[2]
  /\ nextModel' = nextModel + 1
  /\ Ret("model", o, ToString(nextModel), "none", None)

(* c = sim.copy(what)  /  c = from_file(to_file(what)):  object 2 := copy(1) *)
(* to_dict() also resets solver_opts['tol'] of the source object             *)
Copy(what, how) ==
  /\ Step /\ S[1].ex
  /\ NObj = 2
  /\ LET d == IF "SharedFileDir" \in Deviations THEN S[1].dir ELSE 2
     IN /\ S' = [S EXCEPT ![2] = CopyF(S[1], what, d), ![1].tol = "fwd"]
        \* an independent copy would bring its files along
        /\ files' = IF FileMode /\ d # S[1].dir /\ what \in {"computed", "all"}
                    THEN [files EXCEPT ![d] = files[S[1].dir]]
                    ELSE IF d # S[1].dir THEN [files EXCEPT ![d] = NoDir]
                    ELSE files
  /\ Ret(how, 1, what, "none", None)
  /\ UNCHANGED nextModel

(* sim = Simulation.from_dict(sim.to_dict(what)): continue on the new object *)
DictRT(o, what) ==
  /\ Step /\ S[o].ex
  /\ S' = [S EXCEPT ![o] = CopyF(S[o], what, S[o].dir)]
  /\ Ret("dict", o, what, "none", None)
  /\ UNCHANGED <<files, nextModel>>

Fork(o) == o = 1 /\ \E w \in Whats : Copy(w, "copy") \/ Copy(w, "file")

Next ==
  \E o \in Objs :
     \/ Compute(o) \/ ComputeObs(o) \/ Misfit(o) \/ Gradient(o) \/ Jvec(o) \/ Jtvec(o)
     \/ \E p \in Pairs : GetField(o, p, "efield") \/ GetField(o, p, "hfield")
     \/ \E p \in Pairs : GetFieldLayered(o, p, "efield") \/ GetFieldLayered(o, p, "hfield")
     \/ \E w \in CleanWhats : Clean(o, w)
     \/ ModelUpdate(o)
     \/ \E w \in Whats : DictRT(o, w)
     \/ Fork(o)

Spec == Init /\ [][Next]_vars

(* ============================ properties (C12) =========================== *)
(* what a freshly created simulation with the same model would report *)
Fresh(o, op) ==
  CASE op = "misfit" -> DP(S[o].mv, S[o].ob)
    [] op = "gradient" -> <<S[o].mv, DP(S[o].mv, S[o].ob)>>
    [] op = "jvec" -> S[o].mv
    [] op = "jtvec" -> <<S[o].mv, Vec>>
    [] op \in {"efield", "hfield"} -> S[o].mv

(* every reported value is the fresh one *)
FreshResults ==
  last.kind = "value" => last.prov = Fresh(last.obj, last.op)

(* caches never hold anything computed for another model, and the gradient  *)
(* cache only ever holds the misfit gradient                                *)
CachesCoherent ==
  \A o \in Objs : S[o].ex =>
     /\ \A p \in Pairs : S[o].syn[p] \in {None, S[o].mv}
     /\ S[o].mis \in {None, DP(S[o].mv, S[o].ob)}
     /\ S[o].grad \in {NoGrad, <<S[o].mv, DP(S[o].mv, S[o].ob)>>}
     /\ S[o].res \in {None, DP(S[o].mv, S[o].ob)}
     /\ S[o].w \in {None, S[o].ob}
     /\ \A p \in Pairs : EContent(S[o], files, p) \in {None, S[o].mv}

(* operations on one object leave the other one's reportable state alone    *)
Reportable(o) == [syn |-> S[o].syn, mis |-> S[o].mis, grad |-> S[o].grad,
                  e |-> [p \in Pairs |-> EContent(S[o], files, p)]]
ReportableNext(o) == [syn |-> S'[o].syn, mis |-> S'[o].mis, grad |-> S'[o].grad,
                      e |-> [p \in Pairs |-> EContent(S'[o], files', p)]]
CopyIndependent ==
  [][\A o \in Objs :
        (last'.obj # o /\ S[o].ex /\ S'[o].ex /\ last'.op \notin {"copy", "file"})
           => ReportableNext(o) = Reportable(o)]_vars

(* forward solves use tol_forward, back-propagation / J v use tol_gradient: *)
(* holds by construction of ComputeF/GradientF/JvecF; what is checked is    *)
(* that a copy never inherits the gradient tolerance                        *)
(* a fresh simulation always delivers gradient and J v: so does a used one  *)
(* (in memory, 3-D; file mode: unless the hand-over files were removed by   *)
(* another object, the known finding)                                       *)
SensAvailable ==
  (~FileMode /\ ~Layered /\ last.op \in {"gradient", "jvec", "jtvec"}) => last.kind = "value"

TolRestored ==
  /\ (last.op \in {"copy", "file"}) => (S[1].tol = "fwd" /\ S[2].tol = "fwd")
  /\ (last.op = "dict") => S[last.obj].tol = "fwd"

TypeOK == nops \in 0..MaxOps /\ nextModel \in 1..(MaxModel + 1)
=============================================================================
