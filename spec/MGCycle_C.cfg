SPECIFICATION Spec
CONSTANTS
  Shapes <- C_Shapes
  Cycles <- C_Cycles
  ScPats <- C_ScPats
  LrPats <- C_LrPats
  CLevels <- C_CLevels
  MaxIts <- C_MaxIts
  NuSets <- C_NuSets
  MaxCalls = 1
INVARIANT TypeOK
INVARIANT AtLeastTwo
INVARIANT StackShape
INVARIANT HalveOnlyEvenGT2
INVARIANT Progress
INVARIANT NoLRAlongTwoCells
INVARIANT DepthBound
INVARIANT BottomExact
INVARIANT NotBottomCanCoarsen
INVARIANT HeaderShape
INVARIANT CycmaxRule
INVARIANT DocOrder
INVARIANT DocDepth
INVARIANT QCIsFirstCycle
INVARIANT ItBound
PROPERTY AdvanceOncePerCycle
CHECK_DEADLOCK FALSE
