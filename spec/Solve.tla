------------------------------- MODULE Solve -------------------------------
(* emg3d.solver.solve(), multigrid() at fine-grid-cycle granularity (its     *)
(* inside is MGCycle.tla), _terminate() and krylov() with a per-solver       *)
(* skeleton of SciPy 1.18's bicgstab / cgs / gcrotmk (where psolve, the      *)
(* update of x, callback and each return sit).                               *)
(*                                                                           *)
(* The numerics are abstracted to provenance: every field content has a      *)
(* version and a true error class; the solver's bookkeeping (var.l2) records *)
(* WHICH content it was computed for.  The properties (C01) relate what is   *)
(* reported to the content the caller ends up with.                          *)
(*                                                                           *)
(* Code anchors (emg3d/solver.py): solve 288-449, multigrid 512-649,         *)
(* krylov 682-784, _terminate 1591-1664.                                     *)
EXTENDS Naturals, Integers, Sequences, FiniteSets, TLC

CONSTANTS MaxIts,       \* set of maxit values
          Deviations,   \* named deviations of the code from the ideal:
                        \*   "ZeroSourceRebind"  zero-source branch rebinds the
                        \*        local name instead of zeroing in place, and
                        \*        leaves var.l2 as it was
                        \*   "KrylovStaleL2"     var.l2 not recomputed after the
                        \*        SciPy solver returns
          MaxInner,     \* bound on psolve calls per gcrotmk outer iteration
          EnvAssume     \* assumptions about SciPy (the environment):
                        \*   "EstimateSound"  SciPy reports info=0 only if the
                        \*        true residual of x is below its tolerance
                        \*   "NoBreakdownAfterInnerConverged"  a breakdown
                        \*        return (info<0) does not happen after a
                        \*        preconditioner run reported CONVERGED

Solvers == {"bicgstab", "cgs", "gcrotmk"}
Classes == {"ok", "bad", "div", "nan"}   \* ok: ||b - A x|| < tol ||b||

VARIABLES
  cfg,      \* configuration of this call (constant)
  pc,       \* where solve() is
  objs,     \* content of the two Field objects: "supplied" (the caller's)
            \* and "fresh" (created inside); NoObj if it does not exist
  fobj,     \* object the local name `efield` is bound to
  x,        \* SciPy's own iterate (a copy) while krylov() runs
  estOk,    \* SciPy's opinion: its residual estimate of x is below tolerance
  l2,       \* var.l2: [src, cls]; src = <<object, version>> | "init" | "other"
  refNaN,   \* var.l2_refe was set to NaN
  msg,      \* var.exit_message
  it, sslit,\* var.it, var.ssl_it
  runMg, runSsl, \* var.cycle / var.sslsolver still set
  doRet,    \* var.do_return
  kpc, kit, \* krylov: position in the solver skeleton, iteration
  mgit,     \* local `it` of the level-0 multigrid() call
  innerConv,\* some preconditioner run has set exit_message = CONVERGED
  ret,      \* what solve() returned
  inner     \* gcrotmk: psolve calls so far in this outer iteration

vars == <<cfg, pc, objs, fobj, x, estOk, l2, refNaN, msg, it, sslit, runMg,
          runSsl, doRet, kpc, kit, mgit, innerConv, ret, inner>>

NoObj == [ver |-> 0, cls |-> "none", zero |-> FALSE, pec |-> FALSE]
ZeroContent(v, zeroSrc) ==
  [ver |-> v, cls |-> IF zeroSrc THEN "ok" ELSE "bad", zero |-> TRUE,
   pec |-> TRUE]

Configs ==
  {c \in [mg : BOOLEAN, ssl : {"none"} \cup Solvers, given : BOOLEAN,
          dtypeOk : BOOLEAN, zeroSrc : BOOLEAN, retInfo : BOOLEAN,
          alwaysRet : BOOLEAN, maxit : MaxIts, supGood : BOOLEAN,
          supZero : BOOLEAN] :
     /\ c.mg \/ c.ssl # "none"
     \* maxit = 0: SciPy's bicgstab / cgs return at once (info = 0); gcrotmk
     \* raises inside SciPy, multigrid alone ignores it - not modelled
     /\ c.maxit = 0 => c.ssl \in {"bicgstab", "cgs"}
     /\ ~c.given => (c.dtypeOk /\ ~c.alwaysRet /\ ~c.supGood /\ ~c.supZero)
     /\ c.supZero => (c.supGood <=> c.zeroSrc)   \* A 0 = 0: good iff b = 0
     /\ (c.zeroSrc /\ ~c.supZero) => ~c.supGood}  \* A x = 0 only for x = 0

InitWith(c) ==
  /\ cfg = c
  /\ pc = "start"
  /\ objs = [o \in {"supplied", "fresh"} |-> NoObj]
  /\ fobj = "none"
  /\ x = NoObj /\ estOk = FALSE
  /\ l2 = [src |-> "init", cls |-> "none"]
  /\ refNaN = FALSE /\ msg = "" /\ it = 0 /\ sslit = 0
  /\ runMg = cfg.mg /\ runSsl = (cfg.ssl # "none")
  /\ doRet = TRUE
  /\ kpc = "off" /\ kit = 0 /\ mgit = 0 /\ innerConv = FALSE
  /\ ret = [field |-> "none", info |-> FALSE, exit |-> -1]
  /\ inner = 0

Init == \E c \in Configs : InitWith(c)

Cur == objs[fobj]

(* ------------------------- solve(): get the field ----------------------- *)
FreshField ==
  /\ pc = "start" /\ ~cfg.given
  /\ objs' = [objs EXCEPT !["fresh"] = ZeroContent(1, cfg.zeroSrc)]
  /\ fobj' = "fresh" /\ doRet' = TRUE
  /\ pc' = "zerocheck"
  /\ UNCHANGED <<cfg, inner, x, estOk, l2, refNaN, msg, it, sslit, runMg, runSsl,
                 kpc, kit, mgit, innerConv, ret>>

DtypeError ==
  /\ pc = "start" /\ cfg.given /\ ~cfg.dtypeOk
  /\ pc' = "raised"
  /\ UNCHANGED <<cfg, inner, objs, fobj, x, estOk, l2, refNaN, msg, it, sslit,
                 runMg, runSsl, doRet, kpc, kit, mgit, innerConv, ret>>

(* PEC zeroing of the supplied field, residual, "already good enough" *)
SuppliedField ==
  /\ pc = "start" /\ cfg.given /\ cfg.dtypeOk
  /\ LET c == [ver |-> 1, cls |-> IF cfg.supGood THEN "ok" ELSE "bad",
               zero |-> cfg.supZero, pec |-> TRUE]
         good == c.cls = "ok" /\ ~cfg.zeroSrc    \* l2 < tol*0 is never true
     IN /\ objs' = [objs EXCEPT !["supplied"] = c]
        /\ l2' = [src |-> <<"supplied", 1>>, cls |-> c.cls]
        /\ runMg' = IF good THEN FALSE ELSE runMg
        /\ runSsl' = IF good THEN FALSE ELSE runSsl
        /\ msg' = IF good THEN "CONVERGED" ELSE msg
  /\ fobj' = "supplied" /\ doRet' = cfg.alwaysRet
  /\ pc' = "zerocheck"
  /\ UNCHANGED <<cfg, inner, x, estOk, refNaN, it, sslit, kpc, kit, mgit, innerConv,
                 ret>>

ZeroSource ==
  /\ pc = "zerocheck"
  /\ IF cfg.zeroSrc
     THEN /\ refNaN' = TRUE /\ runMg' = FALSE /\ runSsl' = FALSE
          /\ msg' = "CONVERGED"
          /\ IF "ZeroSourceRebind" \in Deviations
             THEN /\ fobj' = "fresh"
                  /\ objs' = [objs EXCEPT !["fresh"] = ZeroContent(1, TRUE)]
                  /\ l2' = l2
             ELSE /\ fobj' = fobj       \* zeroed in place, error figure reset
                  /\ objs' = [objs EXCEPT ![fobj] = ZeroContent(Cur.ver + 1, TRUE)]
                  /\ l2' = [src |-> <<fobj, Cur.ver + 1>>, cls |-> "ok"]
     ELSE UNCHANGED <<refNaN, runMg, runSsl, msg, fobj, objs, l2>>
  /\ pc' = "dispatch"
  /\ UNCHANGED <<cfg, inner, x, estOk, it, sslit, doRet, kpc, kit, mgit, innerConv,
                 ret>>

Dispatch ==
  /\ pc = "dispatch"
  /\ IF runSsl
     THEN /\ pc' = "kry" /\ x' = Cur /\ estOk' = FALSE
          /\ kpc' = IF cfg.ssl = "gcrotmk" THEN "gtop" ELSE "top"
          /\ l2' = l2
     ELSE IF runMg
     THEN /\ pc' = "mg" /\ UNCHANGED <<x, estOk, kpc>>
          /\ l2' = l2                    \* l2_last is a local until the end
     ELSE /\ pc' = "finish" /\ UNCHANGED <<x, estOk, kpc, l2>>
  /\ UNCHANGED <<cfg, inner, objs, fobj, refNaN, msg, it, sslit, runMg, runSsl,
                 doRet, kit, mgit, innerConv, ret>>

(* ------------------------- multigrid() as the solver --------------------- *)
(* one fine-grid cycle + end-of-cycle residual + _terminate (1621-1645)      *)
MGCycleStep(newcls, stag) ==
  /\ pc = "mg"
  /\ LET c == [ver |-> Cur.ver + 1, cls |-> newcls, zero |-> FALSE,
               pec |-> Cur.pec]
         n == mgit + 1
         outcome == IF newcls = "ok" THEN "CONVERGED"
                    ELSE IF newcls \in {"div", "nan"} THEN "DIVERGED"
                    ELSE IF n > 2 /\ stag THEN "STAGNATED"
                    ELSE IF n = cfg.maxit
                         THEN "MAX. ITERATION REACHED, NOT CONVERGED"
                    ELSE "go"
     IN /\ objs' = [objs EXCEPT ![fobj] = c]
        /\ mgit' = n /\ it' = it + 1
        /\ IF outcome = "go"
           THEN UNCHANGED <<pc, msg, l2>>
           ELSE /\ pc' = "finish" /\ msg' = outcome
                /\ l2' = [src |-> <<fobj, c.ver>>, cls |-> newcls]
  /\ UNCHANGED <<cfg, inner, fobj, x, estOk, refNaN, sslit, runMg, runSsl, doRet,
                 kpc, kit, innerConv, ret>>

(* ------------------------- krylov() --------------------------------------*)
(* psolve: identity without multigrid; otherwise a complete multigrid() run  *)
(* on ANOTHER system (rhs = a Krylov vector).  It overwrites var.l2, adds to *)
(* var.it, may set exit_message = CONVERGED (inner system reached tol*||b||  *)
(* of the outer one) or abort through _ConvergenceError (DIVERGED/STAGNATED).*)
Psolve(next, outcome) ==
  /\ IF ~runMg
     THEN /\ outcome = "plain"
          /\ kpc' = next /\ UNCHANGED <<pc, l2, it, msg, innerConv>>
     ELSE /\ outcome \in {"ran", "converged", "DIVERGED", "STAGNATED"}
          /\ it' = it + 1
          /\ l2' = [src |-> "other", cls |-> "none"]
          /\ IF outcome \in {"ran", "converged"}
             THEN /\ kpc' = next /\ pc' = pc
                  /\ msg' = IF outcome = "converged" THEN "CONVERGED" ELSE msg
                  /\ innerConv' = (innerConv \/ outcome = "converged")
             ELSE \* _ConvergenceError caught in krylov(): i = -1
                  /\ kpc' = "off" /\ pc' = "finish"
                  /\ msg' = IF outcome = "DIVERGED"
                            THEN "DIVERGED (returned field is zero)"
                            ELSE "STAGNATED (returned field is zero)"
                  /\ innerConv' = innerConv
  /\ UNCHANGED <<cfg, objs, fobj, x, estOk, refNaN, sslit, runMg, runSsl,
                 doRet, kit, mgit, ret>>

PsolveOutcomes == {"plain", "ran", "converged", "DIVERGED", "STAGNATED"}

(* SciPy updates its iterate *)
NewX(cls) == [ver |-> x.ver + 1, cls |-> cls, zero |-> FALSE, pec |-> x.pec]
EnvOK(est, cls) == ("EstimateSound" \in EnvAssume /\ est) => cls = "ok"

(* the SciPy call returns (x, i): field setter copies x into the object;     *)
(* exit-code mapping 776-783; optional recomputation of the error            *)
KReturn(xr, i) ==
  /\ objs' = [objs EXCEPT ![fobj] = xr]
  /\ msg' = IF i < 0 THEN (IF msg = "" THEN "Error in solver" ELSE msg)
            ELSE IF i > 0 \/ (xr.cls # "ok" /\ "TrustSciPyCode" \notin Deviations)
                 THEN "MAX. ITERATION REACHED, NOT CONVERGED"
            ELSE "CONVERGED"        \* SciPy says 0 AND the recomputed error is
                                    \* below tolerance (fix 9ada188); deviation
                                    \* TrustSciPyCode: the code before the fix
  /\ l2' = IF "KrylovStaleL2" \in Deviations THEN l2
           ELSE [src |-> <<fobj, xr.ver>>, cls |-> xr.cls]
  /\ pc' = "finish" /\ kpc' = "off"

(* bicgstab / cgs: top of the loop: exhausted, done?, breakdown, or go on *)
KTop ==
  /\ pc = "kry" /\ kpc = "top"
  /\ \/ /\ kit = cfg.maxit /\ KReturn(x, cfg.maxit)   \* `return x, maxiter`
     \/ /\ kit < cfg.maxit /\ estOk /\ KReturn(x, 0)
     \/ /\ kit < cfg.maxit /\ ~estOk
        /\ ("NoBreakdownAfterInnerConverged" \in EnvAssume) => ~innerConv
        /\ KReturn(x, -10)
     \/ /\ kit < cfg.maxit /\ ~estOk /\ kpc' = "p1"
        /\ UNCHANGED <<objs, msg, l2, pc>>
  /\ UNCHANGED <<cfg, inner, fobj, x, estOk, refNaN, it, sslit, runMg, runSsl, doRet,
                 kit, mgit, innerConv, ret>>

KP1 == /\ pc = "kry" /\ kpc = "p1"
       /\ \E o \in PsolveOutcomes :
            Psolve(IF cfg.ssl = "bicgstab" THEN "mid" ELSE "p2", o)
       /\ UNCHANGED inner

(* bicgstab only: ||s|| < atol: x += alpha*phat; return x, 0 -- no callback *)
KMid ==
  /\ pc = "kry" /\ kpc = "mid"
  /\ \/ \E cls \in {"ok", "bad"} :
           /\ EnvOK(TRUE, cls)
           /\ KReturn(NewX(cls), 0)
           /\ UNCHANGED <<x, estOk>>
     \/ /\ kpc' = "p2" /\ UNCHANGED <<objs, msg, l2, pc, x, estOk>>
  /\ UNCHANGED <<cfg, inner, fobj, refNaN, it, sslit, runMg, runSsl, doRet, kit,
                 mgit, innerConv, ret>>

(* gcrotmk's inner FGMRES calls psolve up to MaxInner times per outer step *)
KP2 == /\ pc = "kry" /\ kpc = "p2"
       /\ \E o \in PsolveOutcomes, nxt \in {"p2", "upd"} :
            /\ (nxt = "p2") => (cfg.ssl = "gcrotmk" /\ runMg
                                /\ inner + 1 < MaxInner)
            /\ Psolve(nxt, o)
            /\ inner' = IF nxt = "p2" THEN inner + 1 ELSE 0

KUpdate ==
  /\ pc = "kry" /\ kpc = "upd"
  /\ \E cls \in {"ok", "bad"}, est \in BOOLEAN :
        /\ EnvOK(est, cls)
        /\ x' = NewX(cls) /\ estOk' = est
  /\ kpc' = IF cfg.ssl = "gcrotmk" THEN "gnext" ELSE "cb"
  /\ UNCHANGED <<cfg, inner, pc, objs, fobj, l2, refNaN, msg, it, sslit, runMg,
                 runSsl, doRet, kit, mgit, innerConv, ret>>

(* callback(x): ssl_it += 1; var.l2 = residual of x *)
KCallback ==
  /\ pc = "kry" /\ kpc \in {"cb", "gcb"}
  /\ sslit' = sslit + 1
  /\ l2' = [src |-> <<"x", x.ver>>, cls |-> x.cls]
  /\ IF kpc = "cb" THEN kit' = kit + 1 /\ kpc' = "top"
                   ELSE kit' = kit /\ kpc' = "gtest"
  /\ UNCHANGED <<cfg, inner, pc, objs, fobj, x, estOk, refNaN, msg, it, runMg,
                 runSsl, doRet, mgit, innerConv, ret>>

(* gcrotmk: for j_outer in range(maxiter): callback; test; fgmres; update *)
GTop ==
  /\ pc = "kry" /\ kpc = "gtop"
  /\ IF kit = cfg.maxit
     THEN KReturn(x, 1)
     ELSE kpc' = "gcb" /\ UNCHANGED <<objs, msg, l2, pc>>
  /\ UNCHANGED <<cfg, inner, fobj, x, estOk, refNaN, it, sslit, runMg, runSsl, doRet,
                 kit, mgit, innerConv, ret>>

GTest ==
  /\ pc = "kry" /\ kpc = "gtest"
  /\ IF estOk
     THEN KReturn(x, 0)
     ELSE kpc' = "p2" /\ UNCHANGED <<objs, msg, l2, pc>>
  /\ UNCHANGED <<cfg, inner, fobj, x, estOk, refNaN, it, sslit, runMg, runSsl, doRet,
                 kit, mgit, innerConv, ret>>

GNext ==
  /\ pc = "kry" /\ kpc = "gnext"
  /\ kit' = kit + 1 /\ kpc' = "gtop"
  /\ UNCHANGED <<cfg, inner, pc, objs, fobj, x, estOk, l2, refNaN, msg, it, sslit,
                 runMg, runSsl, doRet, mgit, innerConv, ret>>

(* in "l2src = <<"x", v>>" the object is SciPy's copy; after KReturn the     *)
(* object `fobj` holds exactly that content with the same version            *)
Describes(src, o, c) == src = <<o, c.ver>> \/ src = <<"x", c.ver>>

(* ------------------------- solve(): exit, info, return ------------------- *)
Finish ==
  /\ pc = "finish"
  /\ ret' = [field |-> IF doRet THEN fobj ELSE "none", info |-> cfg.retInfo,
             exit |-> IF msg = "CONVERGED" THEN 0 ELSE 1]
  /\ pc' = "returned"
  /\ UNCHANGED <<cfg, inner, objs, fobj, x, estOk, l2, refNaN, msg, it, sslit, runMg,
                 runSsl, doRet, kpc, kit, mgit, innerConv>>

Next ==
  \/ FreshField \/ DtypeError \/ SuppliedField \/ ZeroSource \/ Dispatch
  \/ \E c \in Classes, s \in BOOLEAN : MGCycleStep(c, s)
  \/ KTop \/ KP1 \/ KMid \/ KP2 \/ KUpdate \/ KCallback
  \/ GTop \/ GTest \/ GNext
  \/ Finish

Spec == Init /\ [][Next]_vars
FairSpec == Spec /\ WF_vars(Next)

(* ============================ properties (C01) =========================== *)
Returned == pc = "returned"
(* the field the caller ends up with: the returned object, or, in the       *)
(* in-place calling convention, the object the caller supplied              *)
CallerObj == IF ret.field # "none" THEN ret.field ELSE "supplied"
CallerField == objs[CallerObj]

TypeOK ==
  /\ pc \in {"start", "zerocheck", "dispatch", "mg", "kry", "finish",
             "returned", "raised"}
  /\ it <= 3 * cfg.maxit + 3

(* P1: reported success => the field satisfies the system to tolerance *)
P1_SuccessMeansSmallResidual ==
  (Returned /\ ret.exit = 0 /\ ~cfg.zeroSrc) => CallerField.cls = "ok"
(* P2: tangential boundary values are zero *)
P2_PEC == Returned => CallerField.pec
(* P3: wrong dtype is refused, never computed on *)
P3_Dtype == (cfg.given /\ ~cfg.dtypeOk) => pc \in {"start", "raised"}
(* P4: the reported error figures describe that very field *)
P4_FiguresDescribeField ==
  (Returned /\ ret.exit = 0) => Describes(l2.src, CallerObj, CallerField)
(* P5: zero source => all-zero field, reported as success *)
P5_ZeroSource ==
  (Returned /\ cfg.zeroSrc) => (CallerField.zero /\ ret.exit = 0)
(* ... also when the caller supplied a field and gets another object back   *)
P5b_SuppliedZeroed ==
  (Returned /\ cfg.zeroSrc /\ cfg.given) => objs["supplied"].zero
(* P6: not reaching the tolerance is always reported as failure, with a     *)
(* message                                                                  *)
P6_FailureReported ==
  Returned => /\ msg # ""
              /\ (~cfg.zeroSrc /\ CallerField.cls # "ok") => ret.exit = 1
(* return shape follows (do_return, return_info) *)
P7_ReturnShape ==
  Returned => /\ (ret.field # "none") <=> (~cfg.given \/ cfg.alwaysRet)
              /\ ret.info = cfg.retInfo
(* a caller who supplied a field and gets nothing back: the solution is in  *)
(* the supplied object (never only in an object the caller cannot reach)    *)
P8_InPlace == (Returned /\ ret.field = "none") => fobj = "supplied"

Terminates == <>(pc \in {"returned", "raised"})
=============================================================================
