SPECIFICATION Spec1
INVARIANT StructureOK
INVARIANT BandLayoutOK
CHECK_DEADLOCK FALSE
