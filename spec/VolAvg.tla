------------------------------- MODULE VolAvg -------------------------------
(* Volume-average interpolation between tensor grids (maps.py 555-664,       *)
(* 232-368, 722-756) on integer node coordinates.                            *)
(* Reference (first principles): the weight of input cell i for output cell  *)
(* j is the length of the overlap of output cell j with input cell i, where  *)
(* the first / last input cell is extended to -oo / +oo ("nearest value      *)
(* outside the input grid").                                                 *)
(* Part 1: TLC checks the laws of C15 on the reference for ALL pairs of 1-D  *)
(* grids with nodes in 0..MaxNode.                                           *)
(* Part 2 (VolAvgCode.tla): the weights the real _volume_average_weights     *)
(* returns for all those pairs, the matrix of the real 3-D                   *)
(* interpolate(method='volume') and the matrix of discretize's               *)
(* volume_average (whose transpose the gradient uses) are checked against    *)
(* the reference by TLC.                                                     *)
EXTENDS Naturals, Integers, Sequences, FiniteSets, TLC

CONSTANT MaxNode
BIG == 1000            \* stands for infinity on the integer axis

IsGrid(q) == Len(q) >= 2 /\ \A i \in 1..(Len(q) - 1) : q[i] < q[i + 1]
Max2(a, b) == IF a >= b THEN a ELSE b
Min2(a, b) == IF a <= b THEN a ELSE b
NC(q) == Len(q) - 1                       \* number of cells
(* extended input cell i (1-based): first reaches -BIG, last +BIG *)
Lo(q, i) == IF i = 1 THEN 0 - BIG ELSE q[i]
Hi(q, i) == IF i = NC(q) THEN BIG ELSE q[i + 1]
Overlap(xi, xo, i, j) ==
  Max2(0, Min2(Hi(xi, i), xo[j + 1]) - Max2(Lo(xi, i), xo[j]))

RECURSIVE SumF(_, _, _)
SumF(f(_), a, b) == IF a > b THEN 0 ELSE f(a) + SumF(f, a + 1, b)

(* ---- laws on the reference ---- *)
(* output cell j is fully accounted for: its weights sum to its width, all  *)
(* non-negative, so the average is a convex combination (never leaves the   *)
(* range of the input values)                                               *)
RowSumIsWidth(xi, xo) ==
  \A j \in 1..NC(xo) :
     LET f(i) == Overlap(xi, xo, i, j) IN SumF(f, 1, NC(xi)) = xo[j + 1] - xo[j]
(* same region: the integral is conserved, i.e. every input cell is fully   *)
(* distributed (column sums = input widths)                                 *)
SameRegion(xi, xo) == xi[1] = xo[1] /\ xi[Len(xi)] = xo[Len(xo)]
Conservation(xi, xo) ==
  SameRegion(xi, xo) =>
     \A i \in 1..NC(xi) :
        LET f(j) == Overlap(xi, xo, i, j) IN SumF(f, 1, NC(xo)) = xi[i + 1] - xi[i]
(* identity between equal grids *)
Identity(xi, xo) ==
  xi = xo => \A i \in 1..NC(xi), j \in 1..NC(xo) :
                Overlap(xi, xo, i, j) = (IF i = j THEN xi[i + 1] - xi[i] ELSE 0)
(* outside the input grid: nearest value *)
NearestOutside(xi, xo) ==
  \A j \in 1..NC(xo) :
     /\ xo[j + 1] <= xi[1] => Overlap(xi, xo, 1, j) = xo[j + 1] - xo[j]
     /\ xo[j] >= xi[Len(xi)] => Overlap(xi, xo, NC(xi), j) = xo[j + 1] - xo[j]

VARIABLES gi, go
Grids == {q \in UNION {[1..m -> 0..MaxNode] : m \in 2..(MaxNode + 1)} : IsGrid(q)}
Init1 == gi \in Grids /\ go \in Grids
Spec1 == Init1 /\ [][UNCHANGED <<gi, go>>]_<<gi, go>>
Laws == /\ RowSumIsWidth(gi, go) /\ Conservation(gi, go)
        /\ Identity(gi, go) /\ NearestOutside(gi, go)
=============================================================================
