SPECIFICATION Spec
CONSTANTS Need = 5 MaxIt = 8 Deviations = {}
INVARIANT TypeOK
INVARIANT EveryCycleContracts
INVARIANT BoundedCycles
INVARIANT MustConverge
INVARIANT NoGiveUp
PROPERTY Terminates
CHECK_DEADLOCK FALSE
