---------------------------- MODULE TraceLayered ----------------------------
(* Recorded layered computations of real Simulations validated against      *)
(* Layered.  One trace = one call of Simulation._compute_1d.  Events        *)
(* (harness/c19.py wraps _multiprocessing.layered, _empymod_fwd and         *)
(* Model.extract_1d):                                                       *)
(*  Source{s, obsgiven}   layered() entered for source s                    *)
(*  Extract{r, m, p0, p1} extract_1d called for receiver r (identified by   *)
(*                        its centre) with method m and points classified   *)
(*                        as "src" / "rec" / "other"                        *)
(*  Fwd{freqs, pert}      1-D modeller called for these frequency indices;  *)
(*                        pert = <<d, l>> layer l of direction d perturbed  *)
(*                        relative to the extracted model (<<0,0>>: none)   *)
(*  Ret{zero, mask, dirs} layered() returned: all zero? finite mask of the  *)
(*                        responses / directions with non-zero gradient     *)
(*  End{syn}              state of data.synthetic afterwards: 0 NaN, 1 the  *)
(*                        1-D reference response of that very triple        *)
(*                        (computed by the harness by calling the modeller  *)
(*                        directly with the layering), 2 anything else      *)
(* T.obsok: harness observations that must hold at the end (gradient layer  *)
(* sums vs misfit change; independence of the method).                      *)
EXTENDS Layered, Json, IOUtils, TLCExt

ASSUME TLCSet(1, {})
ASSUME TLCSet(2, <<0, "none">>)
ASSUME TLCSet(3, {})
Traces == JsonDeserialize(IOEnv.TRACE_FILE)
Diag == "TRACE_DIAG" \in DOMAIN IOEnv

VARIABLES tid, l
tvars == <<vars, tid, l>>
T == Traces[tid]
Ev == T.ev[l]
More == l <= Len(T.ev)

TraceInit ==
  /\ tid \in 1..Len(Traces) /\ l = 1
  /\ cf = [hasdata |-> T.hasdata,
           obs |-> [t \in S \X R \X F |-> T.obs[t[1]][t[2]][t[3]]],
           method |-> T.method, vti |-> T.vti, grad |-> T.grad]
  /\ InitRest

Step(a) == More /\ a /\ l' = l + 1 /\ UNCHANGED tid
ToSet(q) == {q[k] : k \in 1..Len(q)}

TSource == /\ More /\ Ev.e = "Source" /\ Step(StartSource(Ev.s))
           /\ Ev.obsgiven = HasData
TExtract == /\ More /\ Ev.e = "Extract" /\ Step(Advance(Ev.r))
            /\ <<Ev.m, Ev.p0, Ev.p1>> = ext'
TFwd == /\ More /\ Ev.e = "Fwd"
        /\ ToSet(Ev.freqs) = Fin(s, r) /\ Len(Ev.freqs) = Cardinality(Fin(s, r))
        /\ IF cf.grad THEN Step(FDCall) /\ <<Ev.pert[1], Ev.pert[2]>> = NextFD
           ELSE Step(Forward) /\ Ev.pert = <<0, 0>>
TRet == /\ More /\ Ev.e = "Ret" /\ Ev.s = s
        /\ \/ Step(GradNothing) /\ Ev.zero
           \/ /\ Step(EndSource)
              /\ IF cf.grad THEN ToSet(Ev.dirs) \subseteq Dirs
                 ELSE \A b \in R, f \in F : Ev.mask[b][f] = (syn[<<s, b, f>>] # NaN)
(* the observed content of data.synthetic replaces the model's: the          *)
(* invariants are then evaluated on what the simulation really holds        *)
TEnd == /\ More /\ Ev.e = "End" /\ pc = "idle" /\ todo = {}
        /\ l' = l + 1 /\ UNCHANGED tid
        /\ pc' = "done"
        /\ syn' = IF cf.grad THEN syn
                  ELSE [t \in S \X R \X F |->
                          CASE Ev.syn[t[1]][t[2]][t[3]] = 0 -> NaN
                            [] Ev.syn[t[1]][t[2]][t[3]] = 1 -> t
                            [] OTHER -> <<t[1], t[2], 0>>]
        /\ UNCHANGED <<cf, s, r, todo, grd, zero, ext, fd>>

TraceNext == TSource \/ TExtract \/ TFwd \/ TRet \/ TEnd
TraceSpec == TraceInit /\ [][TraceNext]_tvars

Complete == ~More /\ pc = "done"
ObsOK == (pc = "done") => T.obsok

InvTable == << <<"TypeOK", TypeOK>>, <<"TripleRule", TripleRule>>,
               <<"NeverUnwanted", NeverUnwanted>>, <<"CallsExact", CallsExact>>,
               <<"PointsRule", PointsRule>>, <<"GradComplete", GradComplete>>,
               <<"NoYGradient", NoYGradient>>, <<"ObsOK", ObsOK>> >>
Failed == {InvTable[i][1] : i \in {j \in 1..Len(InvTable) : ~InvTable[j][2]}}

Accept ==
  /\ IF Failed # {}
     THEN TLCSet(3, TLCGet(3) \cup {<<tid, f>> : f \in Failed}) ELSE TRUE
  /\ IF Complete THEN TLCSet(1, TLCGet(1) \cup {tid}) ELSE TRUE
  /\ IF Diag /\ l > TLCGet(2)[1]
     THEN TLCSet(2, <<l, [pc |-> pc, s |-> s, r |-> r, todo |-> todo,
                         ext |-> ext, fd |-> fd, zero |-> zero]>>)
     ELSE TRUE

Post ==
  /\ PrintT(<<"VP", "ntraces", Len(Traces)>>)
  /\ PrintT(<<"VP", "rejected", (1..Len(Traces)) \ TLCGet(1)>>)
  /\ PrintT(<<"VP", "invfail", TLCGet(3)>>)
  /\ IF Diag THEN PrintT(<<"VP", "maxl", TLCGet(2)[1]>>)
                  /\ PrintT(<<"VP", "laststate", TLCGet(2)[2]>>)
     ELSE TRUE
=============================================================================
