SPECIFICATION Spec
CONSTANTS NNX = 3 MaxA = 2 Deviations = {"GiveUpEarly"}
INVARIANT FailsLoudly
CHECK_DEADLOCK FALSE
