SPECIFICATION Spec
CONSTANTS NP = 2 NR = 2 Deviations = {}
INVARIANT AdjointSourcesExact
INVARIANT CollectPartition
INVARIANT ChainOnce
INVARIANT ShapeRule
INVARIANT ExpansionIsTranspose
PROPERTY Terminates
CHECK_DEADLOCK FALSE
