SPECIFICATION Spec1
INVARIANT GoodNumbersAreGood
CHECK_DEADLOCK FALSE
