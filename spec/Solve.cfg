SPECIFICATION FairSpec
CONSTANTS
  MaxIts = {0, 1, 2, 3}
  MaxInner = 2
  Deviations = {}
  EnvAssume = {"EstimateSound", "NoBreakdownAfterInnerConverged"}
INVARIANT TypeOK
INVARIANT P1_SuccessMeansSmallResidual
INVARIANT P2_PEC
INVARIANT P3_Dtype
INVARIANT P4_FiguresDescribeField
INVARIANT P5_ZeroSource
INVARIANT P5b_SuppliedZeroed
INVARIANT P6_FailureReported
INVARIANT P7_ReturnShape
INVARIANT P8_InPlace
CHECK_DEADLOCK FALSE
PROPERTY Terminates
