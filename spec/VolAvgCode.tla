----------------------------- MODULE VolAvgCode -----------------------------
(* Part 2 of VolAvg: output of the real code, checked by TLC against the     *)
(* reference Overlap.  Instance kinds (written by harness/c15.py):           *)
(*  "w1d": xi, xo, seg = <<w, i_in, i_out>>... as returned by the real       *)
(*         emg3d.maps._volume_average_weights (indices 0-based)              *)
(*  "m3d": xi = <<x, y, z>> node vectors, xo likewise, ent = non-zero        *)
(*         entries <<j1,j2,j3, i1,i2,i3, num, den>> (1-based cells) of the   *)
(*         matrix of the real interpolate(method='volume') (src = "emg3d")   *)
(*         or of discretize.utils.volume_average (src = "discretize"), whose *)
(*         transpose the gradient applies                                    *)
EXTENDS VolAvg, Json, IOUtils, TLCExt

ASSUME TLCSet(1, {})
ASSUME TLCSet(3, {})
Insts == JsonDeserialize(IOEnv.TRACE_FILE)
VARIABLE iid
X == Insts[iid]
InitC == iid \in 1..Len(Insts) /\ gi = <<0, 1>> /\ go = <<0, 1>>
SpecC == InitC /\ [][UNCHANGED <<iid, gi, go>>]_<<iid, gi, go>>

(* the code only returns segments inside the output range, in order *)
SegSum(i, j) ==
  LET f(k) == IF X.seg[k][2] + 1 = i /\ X.seg[k][3] + 1 = j THEN X.seg[k][1] ELSE 0
  IN SumF(f, 1, Len(X.seg))
Weights1D ==
  /\ IsGrid(X.xi) /\ IsGrid(X.xo)
  /\ \A i \in 1..NC(X.xi), j \in 1..NC(X.xo) : SegSum(i, j) = Overlap(X.xi, X.xo, i, j)
  /\ \A k \in 1..Len(X.seg) :
        /\ X.seg[k][1] > 0
        /\ X.seg[k][2] + 1 \in 1..NC(X.xi) /\ X.seg[k][3] + 1 \in 1..NC(X.xo)

Vol(j1, j2, j3) == (X.xo[1][j1 + 1] - X.xo[1][j1]) * (X.xo[2][j2 + 1] - X.xo[2][j2])
                   * (X.xo[3][j3 + 1] - X.xo[3][j3])
Ref3(e) == Overlap(X.xi[1], X.xo[1], e[4], e[1]) * Overlap(X.xi[2], X.xo[2], e[5], e[2])
           * Overlap(X.xi[3], X.xo[3], e[6], e[3])
Matrix3D ==
  /\ \A k \in 1..Len(X.ent) :      \* every entry is the reference weight
        LET e == X.ent[k] IN e[7] * Vol(e[1], e[2], e[3]) = Ref3(e) * e[8]
  /\ \* and every non-zero reference weight is an entry
     Len(X.ent) = Cardinality({e \in (1..NC(X.xo[1])) \X (1..NC(X.xo[2])) \X (1..NC(X.xo[3]))
                                   \X (1..NC(X.xi[1])) \X (1..NC(X.xi[2])) \X (1..NC(X.xi[3])) :
                                 Ref3(e) # 0})

(*  "adj": a real Simulation.gradient through a computational grid of the    *)
(*         same shape as the model grid but other widths: obs = the gradient *)
(*         is the transpose of the (TLC-checked) forward map applied to the  *)
(*         gradient on the computational grid                                *)
OK == CASE X.kind = "w1d" -> Weights1D
        [] X.kind = "m3d" -> Matrix3D /\ X.obs
        [] X.kind = "adj" -> X.obs
Failed == IF OK THEN {} ELSE {IF X.kind = "w1d" THEN "Weights1D"
                              ELSE IF X.kind = "adj" THEN "GradientIsTranspose"
                              ELSE IF Matrix3D THEN "Observations" ELSE "Matrix3D"}
Accept ==
  /\ IF Failed # {} THEN TLCSet(3, TLCGet(3) \cup {<<iid, f>> : f \in Failed})
     ELSE TLCSet(1, TLCGet(1) \cup {iid})
Post ==
  /\ PrintT(<<"VP", "ntraces", Len(Insts)>>)
  /\ PrintT(<<"VP", "rejected", {}>>)
  /\ PrintT(<<"VP", "invfail", TLCGet(3)>>)
=============================================================================
