------------------------------ MODULE GridCache ------------------------------
(* The computational-grid caches of emg3d.simulations.Simulation.             *)
(*                                                                           *)
(* A simulation owns, besides the model grid, up to four caches of grids:    *)
(*   _dict_grid[src][freq]   the grid used for a source-frequency pair       *)
(*   _grid_single            one grid for everything ('single', 'input')     *)
(*   _grid_frequency[freq]   one grid per frequency   ('frequency')          *)
(*   _grid_source[src]       one grid per source      ('source')             *)
(* and, for gridding='dict', the user-provided dictionary gridding_opts.     *)
(* get_grid() fills _dict_grid lazily according to the gridding mode;        *)
(* clean('keepresults'|'all') empties it; copy / to_dict / to_file carry it  *)
(* along for what in {'computed','all'} and the constructor rebuilds the     *)
(* rest from the options.                                                    *)
(*                                                                           *)
(* A grid is represented by WHAT IT WAS BUILT FROM (its key).  The property  *)
(* (part of C12: results are a function of model, survey and options, not of *)
(* the call history): whatever the history, the grid handed out for a pair   *)
(* is the one a freshly created simulation hands out.                        *)
(*                                                                           *)
(* Code anchors (emg3d/simulations.py): __init__ 281-324, clean 376-382,     *)
(* to_dict 466-471, from_dict 523-537, get_grid 624-697, get_model 699-702,  *)
(* _info_grids 1493-1540, print_grid_info 1542-1588, _set_model 1632-1682.   *)
EXTENDS Naturals, Integers, FiniteSets, TLC

CONSTANTS Srcs,        \* e.g. {1, 2}
          Freqs,       \* e.g. {1, 2}
          Modes,       \* subset of AllModes
          MaxOps,      \* bound on the history (0: none)
          Deviations   \* "DictGridLostOnClean": get_grid() has no branch for
                       \*   gridding='dict' (the user-provided grids live only
                       \*   in _dict_grid, which clean() empties)

AllModes == {"same", "single", "frequency", "source", "both", "input", "dict"}
ASSUME Modes \subseteq AllModes

(* a grid, by provenance *)
G(k, s, f) == [k |-> k, s |-> s, f |-> f]
None == G("none", 0, 0)
Err == G("error", 0, 0)
(* the grid a freshly created simulation hands out for (s, f) *)
Fresh(m, s, f) ==
  CASE m = "same" -> G("model", 0, 0)
    [] m = "single" -> G("single", 0, 0)
    [] m = "input" -> G("input", 0, 0)
    [] m = "frequency" -> G("freq", 0, f)
    [] m = "source" -> G("src", s, 0)
    [] m = "both" -> G("both", s, f)
    [] m = "dict" -> G("dict", s, f)

VARIABLES mode,     \* gridding
          dg,       \* _dict_grid
          single,   \* _grid_single (None: attribute absent)
          gfreq,    \* _grid_frequency (None: key / attribute absent)
          gsrc,     \* _grid_source
          nops,
          last      \* last operation: [op, s, f, arg, ret]
vars == <<mode, dg, single, gfreq, gsrc, nops, last>>

EmptyDG == [s \in Srcs |-> [f \in Freqs |-> None]]
UserDG == [s \in Srcs |-> [f \in Freqs |-> G("dict", s, f)]]
NoF == [f \in Freqs |-> None]
NoS == [s \in Srcs |-> None]
Op(o, s, f, a, r) == [op |-> o, s |-> s, f |-> f, arg |-> a, ret |-> r]

(* what the constructor leaves behind (_set_model) *)
NewDG(m) == IF m = "dict" THEN UserDG ELSE EmptyDG
NewSingle(m) == IF m = "input" THEN G("input", 0, 0) ELSE None

Init ==
  /\ mode \in Modes
  /\ dg = NewDG(mode)
  /\ single = NewSingle(mode)
  /\ gfreq = NoF /\ gsrc = NoS
  /\ nops = 0
  /\ last = Op("init", 0, 0, "-", None)

Bound == MaxOps = 0 \/ nops < MaxOps
Tick == IF MaxOps = 0 THEN nops ELSE nops + 1

(* ---- get_grid as a state transformer: <<dg, single, gfreq, gsrc, ret>> --- *)
Fill(d, sg, gf, gs, s, f) ==
  IF d[s][f] # None THEN <<d, sg, gf, gs, d[s][f]>>
  ELSE
  CASE mode = "same" ->
         <<[d EXCEPT ![s][f] = G("model", 0, 0)], sg, gf, gs, G("model", 0, 0)>>
    [] mode = "frequency" ->
         LET gf2 == IF gf[f] = None THEN [gf EXCEPT ![f] = G("freq", 0, f)] ELSE gf
         IN <<[d EXCEPT ![s][f] = gf2[f]], sg, gf2, gs, gf2[f]>>
    [] mode = "source" ->
         LET gs2 == IF gs[s] = None THEN [gs EXCEPT ![s] = G("src", s, 0)] ELSE gs
         IN <<[d EXCEPT ![s][f] = gs2[s]], sg, gf, gs2, gs2[s]>>
    [] mode = "both" ->
         <<[d EXCEPT ![s][f] = G("both", s, f)], sg, gf, gs, G("both", s, f)>>
    [] mode = "dict" /\ "DictGridLostOnClean" \notin Deviations ->
         <<[d EXCEPT ![s][f] = G("dict", s, f)], sg, gf, gs, G("dict", s, f)>>
    [] OTHER ->        \* 'single', 'input' and anything else
         IF sg = None /\ mode # "single"
         THEN <<d, sg, gf, gs, Err>>     \* construct_mesh(**non-options) raises
         ELSE LET sg2 == IF sg = None THEN G("single", 0, 0) ELSE sg
              IN <<[d EXCEPT ![s][f] = sg2], sg2, gf, gs, sg2>>

RECURSIVE FillAll(_, _, _, _, _)
FillAll(d, sg, gf, gs, todo) ==
  IF todo = {} THEN <<d, sg, gf, gs, None>>
  ELSE LET p == CHOOSE q \in todo : \A r \in todo : q[1] < r[1] \/ (q[1] = r[1] /\ q[2] <= r[2])
           x == Fill(d, sg, gf, gs, p[1], p[2])
       IN IF x[5] = Err THEN x
          ELSE FillAll(x[1], x[2], x[3], x[4], todo \ {p})

Set(x, o) ==
  /\ dg' = x[1] /\ single' = x[2] /\ gfreq' = x[3] /\ gsrc' = x[4]
  /\ last' = o /\ nops' = Tick /\ UNCHANGED mode

(* get_grid(src, freq) and get_model(src, freq) (the model on that grid) *)
GetGrid(s, f) ==
  /\ Bound
  /\ LET x == Fill(dg, single, gfreq, gsrc, s, f) IN Set(x, Op("grid", s, f, "-", x[5]))
GetModel(s, f) ==
  /\ Bound
  /\ LET x == Fill(dg, single, gfreq, gsrc, s, f) IN Set(x, Op("model", s, f, "-", x[5]))
(* compute(): every pair (in the order of _srcfreq; stops at an error) *)
Pairs == Srcs \X Freqs
ComputeAll ==
  /\ Bound
  /\ LET x == FillAll(dg, single, gfreq, gsrc, Pairs) IN Set(x, Op("compute", 0, 0, "-", x[5]))
(* repr(simulation): the first pair for the single-grid modes, else all *)
First == CHOOSE p \in Pairs : \A q \in Pairs : p[1] < q[1] \/ (p[1] = q[1] /\ p[2] <= q[2])
Repr ==
  /\ Bound
  /\ LET todo == IF mode \in {"same", "single", "input"} THEN {First} ELSE Pairs
         x == FillAll(dg, single, gfreq, gsrc, todo)
     IN Set(x, Op("repr", 0, 0, "-", x[5]))
(* print_grid_info(): one representative pair per distinct grid *)
PrintInfo ==
  /\ Bound
  /\ LET todo == CASE mode = "frequency" -> {<<First[1], f>> : f \in Freqs}
                   [] mode = "source" -> {<<s, First[2]>> : s \in Srcs}
                   [] mode = "both" -> Pairs
                   [] OTHER -> {First}
         x == FillAll(dg, single, gfreq, gsrc, todo)
     IN Set(x, Op("info", 0, 0, "-", x[5]))

(* clean(what) *)
Clean(w) ==
  /\ Bound
  /\ dg' = IF w \in {"keepresults", "all"} THEN EmptyDG ELSE dg
  /\ last' = Op("clean", 0, 0, w, None) /\ nops' = Tick
  /\ UNCHANGED <<mode, single, gfreq, gsrc>>

(* copy(what) / from_dict(to_dict(what)) / from_file(to_file(what)): the     *)
(* object is replaced by the re-created one                                  *)
Fork(k, w) ==
  /\ Bound
  /\ dg' = IF w \in {"computed", "all"} THEN dg ELSE NewDG(mode)
  /\ single' = NewSingle(mode) /\ gfreq' = NoF /\ gsrc' = NoS
  /\ last' = Op(k, 0, 0, w, None) /\ nops' = Tick
  /\ UNCHANGED mode

Next ==
  \/ \E s \in Srcs, f \in Freqs : GetGrid(s, f) \/ GetModel(s, f)
  \/ ComputeAll \/ Repr \/ PrintInfo
  \/ \E w \in {"computed", "keepresults", "all"} : Clean(w)
  \/ \E k \in {"copy", "dict", "file"}, w \in {"computed", "results", "all", "plain"} : Fork(k, w)
Spec == Init /\ [][Next]_vars

(* ============================== properties =============================== *)
(* whatever the history, a pair gets the grid a fresh simulation would use  *)
FreshGrid ==
  last.op \in {"grid", "model"} => last.ret = Fresh(mode, last.s, last.f)
(* no operation of the alphabet fails *)
NeverFails == last.ret # Err
(* the caches hold nothing but the grids a fresh simulation would build *)
CachesCoherent ==
  /\ \A s \in Srcs, f \in Freqs : dg[s][f] \in {None, Fresh(mode, s, f)}
  /\ \A f \in Freqs : gfreq[f] \in {None, G("freq", 0, f)}
  /\ \A s \in Srcs : gsrc[s] \in {None, G("src", s, 0)}
  /\ single \in {None, G("single", 0, 0), G("input", 0, 0)}
(* sharing: pairs that may share a grid do (one grid per frequency / source) *)
Sharing ==
  \A s1 \in Srcs, s2 \in Srcs, f1 \in Freqs, f2 \in Freqs :
     (dg[s1][f1] # None /\ dg[s2][f2] # None) =>
        ((dg[s1][f1] = dg[s2][f2]) <=> (Fresh(mode, s1, f1) = Fresh(mode, s2, f2)))
TypeOK ==
  /\ mode \in AllModes
  /\ nops \in Nat
=============================================================================
