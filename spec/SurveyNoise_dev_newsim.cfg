SPECIFICATION Spec
CONSTANTS
  MaxOps = 4
  Deviations = {"NewSimReusesWeights"}
INVARIANT TypeOK
INVARIANT NeverHalved
INVARIANT NewSimFollowsNoise
PROPERTY OnlyAssignmentsChangeNoise
PROPERTY SelectIsSubcube
PROPERTY NaNMonotone
CHECK_DEADLOCK FALSE
