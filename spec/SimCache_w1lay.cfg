SPECIFICATION Spec
CONSTANTS
  Pairs = {1, 2}
  MaxModel = 1
  FileMode = FALSE
  MaxOps = 0
  Layered = TRUE
  NObj = 1
  Deviations = {}
CHECK_DEADLOCK FALSE
