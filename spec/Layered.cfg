SPECIFICATION Spec
CONSTANTS NS = 2 NR = 2 NF = 2 NZ = 2 Deviations = {}
INVARIANT TypeOK
INVARIANT TripleRule
INVARIANT NeverUnwanted
INVARIANT CallsExact
INVARIANT PointsRule
INVARIANT GradComplete
INVARIANT NoYGradient
PROPERTY FDOrder
PROPERTY Terminates
CHECK_DEADLOCK FALSE
