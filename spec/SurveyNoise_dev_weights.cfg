SPECIFICATION Spec
CONSTANTS
  MaxOps = 4
  Deviations = {"CleanKeepsWeights"}
INVARIANT TypeOK
INVARIANT NeverHalved
INVARIANT SimMisfitFollowsNoise
PROPERTY OnlyAssignmentsChangeNoise
PROPERTY SelectIsSubcube
PROPERTY NaNMonotone
CHECK_DEADLOCK FALSE
