------------------------------- MODULE Smoother -------------------------------
(* The discrete structure of the four Gauss-Seidel smoothers (core.py        *)
(* 210-1348) and of their dispatch (solver.py smoothing 788-846):            *)
(*   - which kernels run for a line-relaxation code on a given grid          *)
(*     (adaptation on two-cell directions: MGParams.CLrDir),                 *)
(*   - blocks: the six edges of a node (point-wise) or all edges of the      *)
(*     nodes of a grid line (line relaxation),                               *)
(*   - sweep order: sweep s is backward for odd s, forward for even s, so    *)
(*     the LAST sweep is backward iff nu is odd; the block relaxed last is   *)
(*     the first / last block of the loop nest of the last kernel,           *)
(*   - the banded storage of a line system: element (i, j), 0 <= i-j <= 5,   *)
(*     of the symmetric matrix sits at position i + 5 j (blocks_to_amat      *)
(*     1351-1477, solve 1481-1616).                                          *)
(* The numerical content of C03 (zero residual on the last block, fixed      *)
(* point, affinity, untouched boundary, exact banded solve) is OBSERVED by   *)
(* harness/c03.py with the operator validated under C02; TLC checks that the *)
(* observations cover what this structure demands.                           *)
EXTENDS MGParams, TLC

KernelSeq(clr) == IF clr = 0 THEN <<0>>
                  ELSE LET a == LrAxes(clr)
                       IN SelectSeq(<<1, 2, 3>>, LAMBDA x : x \in a)
LastKernel(lr, shape) == LET q == KernelSeq(CLrDir(lr, shape)) IN q[Len(q)]
LastBackward(nu) == nu % 2 = 1
(* nodes of the block relaxed last *)
LastNodes(shape, kernel, back) ==
  LET e(d) == IF back THEN 1 ELSE shape[d] - 1
  IN CASE kernel = 0 -> {<<e(1), e(2), e(3)>>}
       [] kernel = 1 -> {<<i, e(2), e(3)>> : i \in 1..(shape[1] - 1)}
       [] kernel = 2 -> {<<e(1), j, e(3)>> : j \in 1..(shape[2] - 1)}
       [] kernel = 3 -> {<<e(1), e(2), k>> : k \in 1..(shape[3] - 1)}
NodeEdges(n) ==
  {<<1, n[1] - 1, n[2], n[3]>>, <<1, n[1], n[2], n[3]>>,
   <<2, n[1], n[2] - 1, n[3]>>, <<2, n[1], n[2], n[3]>>,
   <<3, n[1], n[2], n[3] - 1>>, <<3, n[1], n[2], n[3]>>}
LastBlockEdges(shape, lr, nu) ==
  UNION {NodeEdges(n) : n \in LastNodes(shape, LastKernel(lr, shape), LastBackward(nu))}

(* banded layout *)
BandPos(i, j) == i + 5 * j            \* 0-based, 0 <= i - j <= 5
(* blocks_to_amat: block-row im (0-based) of nc block-rows; local element    *)
(* (k, m) of the 5x5 middle block (lower triangle, m <= k) and of the left   *)
(* block (only k <= m lies inside the band)                                  *)
MiddleAt(im, k, m) == BandPos(5 * im + k, 5 * im + m)
LeftAt(im, k, m) == BandPos(5 * im + k, 5 * (im - 1) + m)

(* ------------------ exhaustive part: structure lemmas -------------------- *)
(* for every shape 2..5^3, lr code 0..7, nu 1..4: the last block is not      *)
(* empty, consists of interior edges only, line kernels never run along a    *)
(* two-cell direction; the band layout is injective and inside the band.     *)
VARIABLES sh, lrc, nuc
Init1 == sh \in (2..5) \X (2..5) \X (2..5) /\ lrc \in 0..7 /\ nuc \in 1..4
Spec1 == Init1 /\ [][UNCHANGED <<sh, lrc, nuc>>]_<<sh, lrc, nuc>>
Interior(shape, e) == \A d \in 1..3 : d = e[1] \/ (e[d + 1] >= 1 /\ e[d + 1] <= shape[d] - 1)
StructureOK ==
  LET B == LastBlockEdges(sh, lrc, nuc)
  IN /\ B # {}
     /\ \A e \in B : Interior(sh, e) /\ e[e[1] + 1] >= 0 /\ e[e[1] + 1] <= sh[e[1]] - 1
     /\ \A a \in LrAxes(CLrDir(lrc, sh)) : sh[a] > 2
     /\ LrAxes(CLrDir(lrc, sh)) = LrAxesRef(lrc, sh)
BandLayoutOK ==
  \A nc \in 2..5 :
     LET P == {MiddleAt(im, k, m) : im \in 0..(nc - 2), k \in 0..4, m \in 0..4} \cup
              {LeftAt(im, k, m) : im \in 1..(nc - 2), k \in 0..4, m \in 0..4}
     IN \A im \in 1..(nc - 2), k \in 0..4, m \in 1..4 :
           k <= m => /\ (5 * im + k) - (5 * (im - 1) + m) \in 1..5
                     /\ \A im2 \in 0..(nc - 2), k2 \in 0..4 : \A m2 \in 0..k2 :
                           LeftAt(im, k, m) # MiddleAt(im2, k2, m2)
=============================================================================
