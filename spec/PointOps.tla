------------------------------- MODULE PointOps -------------------------------
(* Point sampling and point sources on a tensor grid with integer widths and *)
(* points on the half-integer lattice (all coordinates doubled: integers).   *)
(* Reference: trilinear interpolation on the staggered point sets of each    *)
(* field component (cell centres along the component, nodes across it); for  *)
(* magnetic receivers face interpolation composed with the curl of           *)
(* Operator.tla (discrete Faraday law).                                      *)
(* Code anchors: fields.py get_receiver 522-614, _point_vector 662-745,      *)
(* _point_vector_magnetic 748-789, get_magnetic_field/_edge_curl_factor.     *)
(* The code's vectors are extracted by the harness (PointOpsCode part below) *)
(* and checked by TLC: receiver functional = source vector = reference.      *)
EXTENDS Operator, Json, IOUtils, TLCExt

RECURSIVE Node2(_, _, _)
Node2(h, d, j) == IF j = 0 THEN 0 ELSE Node2(h, d, j - 1) + 2 * HW(h, d, j - 1)
Cen2(h, d, i) == (Node2(h, d, i) + Node2(h, d, i + 1)) \div 2    \* doubled centre
(* node interval containing p (last one if p is the end point) *)
CellOf(h, d, p) == CHOOSE c \in 0..(NN(h, d) - 1) :
   Node2(h, d, c) <= p /\ (p < Node2(h, d, c + 1) \/ (c = NN(h, d) - 1 /\ p = Node2(h, d, c + 1)))
LinN(h, d, p, j) ==
  LET c == CellOf(h, d, p)
  IN IF j = c THEN <<Node2(h, d, c + 1) - p, 2 * HW(h, d, c)>>
     ELSE IF j = c + 1 THEN <<p - Node2(h, d, c), 2 * HW(h, d, c)>>
     ELSE RZero
(* centre interval containing p (p between the first and the last centre) *)
CIntOf(h, d, p) == CHOOSE c \in 0..(NN(h, d) - 2) :
   Cen2(h, d, c) <= p /\ (p < Cen2(h, d, c + 1) \/ (c = NN(h, d) - 2 /\ p = Cen2(h, d, c + 1)))
LinC(h, d, p, i) ==
  LET c == CIntOf(h, d, p)
      w == Cen2(h, d, c + 1) - Cen2(h, d, c)
  IN IF i = c THEN <<Cen2(h, d, c + 1) - p, w>>
     ELSE IF i = c + 1 THEN <<p - Cen2(h, d, c), w>>
     ELSE RZero
(* admissible region: second to second-last cell in every direction *)
InRegion(h, p) == \A d \in 1..3 :
   p[d] >= Node2(h, d, 1) /\ p[d] <= Node2(h, d, NN(h, d) - 1)
InGrid(h, p) == \A d \in 1..3 : p[d] >= 0 /\ p[d] <= Node2(h, d, NN(h, d))

(* weight of edge e for a unit point source / receiver of component e[1] *)
RefE(h, p, e) ==
  LET w(d) == IF d = e[1] THEN LinC(h, d, p[d], e[d + 1])
              ELSE LinN(h, d, p[d], e[d + 1])
  IN RMul(w(1), RMul(w(2), w(3)))
(* face interpolation (component c lives on faces with normal c: nodes along *)
(* c, centres across) composed with the curl                                *)
FaceW(h, p, f) ==
  LET w(d) == IF d = f[1] THEN LinN(h, d, p[d], f[d + 1])
              ELSE LinC(h, d, p[d], f[d + 1])
  IN RMul(w(1), RMul(w(2), w(3)))
RefM(h, p, c, e) ==
  LET fs == {f \in EdgeFaces(h, e) : f[1] = c}
      t(f) == RMul(FaceW(h, p, f), D(h, f, e))
  IN RSumSet(fs, t)

(* ------------------ code output (harness/c09.py) ------------------------- *)
ASSUME TLCSet(1, {})
ASSUME TLCSet(3, {})
Insts == JsonDeserialize(IOEnv.TRACE_FILE)
VARIABLE iid
X == Insts[iid]
InitC == iid \in 1..Len(Insts) /\ hg = <<<<1>>, <<1>>, <<1>>>>
SpecC == InitC /\ [][UNCHANGED <<iid, hg>>]_<<iid, hg>>

EntriesOK(ent, ref(_)) ==      \* ent: <<c,i,j,k,num,den>>...  all equal ref, and
  /\ \A k \in 1..Len(ent) :    \* every non-zero reference weight is an entry
        REq(<<ent[k][5], ent[k][6]>>, ref(<<ent[k][1], ent[k][2], ent[k][3], ent[k][4]>>))
Support(h, p, c) ==     \* edges of component c that can carry weight
  {e \in {c} \X (0..NN(h, 1)) \X (0..NN(h, 2)) \X (0..NN(h, 3)) : EdgeOK(h, e)}
AllPresent(ent, c, ref(_)) ==
  \A e \in Support(X.h, X.p, c) :
     ref(e)[1] # 0 => \E k \in 1..Len(ent) :
                        <<ent[k][1], ent[k][2], ent[k][3], ent[k][4]>> = e
ElectricOK ==
  LET r(e) == RefE(X.h, X.p, e)
  IN /\ EntriesOK(X.src, r) /\ AllPresent(X.src, X.comp, r)      \* source vector
     /\ EntriesOK(X.rec, r) /\ AllPresent(X.rec, X.comp, r)      \* receiver
MagneticOK ==
  LET r(e) == RefM(X.h, X.p, X.comp, e)
      allc(ent) == \A c \in 1..3 : AllPresent(ent, c, r)
  IN /\ EntriesOK(X.src, r) /\ allc(X.src)
     /\ EntriesOK(X.rec, r) /\ allc(X.rec)
(* receivers outside the grid or in its outermost cells yield NaN *)
NaNPolicy == X.nan = ~InRegion(X.h, X.p)
OK == /\ NaNPolicy
      /\ InRegion(X.h, X.p) =>
            (IF X.kind = "electric" THEN ElectricOK ELSE MagneticOK)
      /\ X.obs
Failed == IF OK THEN {} ELSE
            {IF ~NaNPolicy THEN "NaNPolicy"
             ELSE IF ~X.obs THEN "Observations"
             ELSE IF X.kind = "electric" THEN "ElectricTranspose" ELSE "MagneticTranspose"}
Accept ==
  /\ IF Failed # {} THEN TLCSet(3, TLCGet(3) \cup {<<iid, f>> : f \in Failed})
     ELSE TLCSet(1, TLCGet(1) \cup {iid})
Post ==
  /\ PrintT(<<"VP", "ntraces", Len(Insts)>>)
  /\ PrintT(<<"VP", "rejected", {}>>)
  /\ PrintT(<<"VP", "invfail", TLCGet(3)>>)
=============================================================================
