----------------------------- MODULE MGCycle -----------------------------
(* emg3d.solver.multigrid() as an explicit-stack machine.                    *)
(* One action per numbered step of the code (emg3d/solver.py 471-649):       *)
(*   Enter          512-545  call of multigrid(level, new_cycmax): cycmax    *)
(*   InitSmooth     548-556  level 0, nu_init > 0                            *)
(*   CoarsestSmooth 566-578  (A) level == clevel[sc_dir]                     *)
(*   PreSmooth      584-591  (B.1)                                           *)
(*   Restrict       594-598  (B.2) _current_sc_dir + restriction()           *)
(*   (Enter)        601      (B.3) recursive call, new_cycmax = cycmax-cyc   *)
(*   Return         649      end of the while loop on a coarse level         *)
(*   Prolong        605-609  (B.4)                                           *)
(*   PostSmooth     612-619  (B.5)                                           *)
(*   Incr           622-628  it += 1; cyc += 1 on coarse levels              *)
(*   EndCycle       622-646  level 0: it, var.it, advance sc/lr, _terminate  *)
(* The numerics are abstracted to "the termination test says stop / go on"   *)
(* (refined in Solve.tla); everything that decides WHICH grid is visited     *)
(* next is modelled exactly.                                                 *)
EXTENDS MGParams, TLC

CONSTANTS Shapes,     \* set of <<nx, ny, nz>>
          Cycles,     \* subset of {"V", "W", "F"}
          ScPats,     \* set of digit sequences over 0..3
          LrPats,     \* set of digit sequences over 0..7
          CLevels,    \* set of user clevel values (-1 = automatic)
          MaxIts,     \* set of maxit values (for the multigrid() loop)
          NuSets,     \* set of <<nu_init, nu_pre, nu_coarse, nu_post>>
          MaxCalls    \* how many times multigrid() is entered at level 0
                      \* (1 = stand-alone solver, >1 = as preconditioner)

VARIABLES cfg,        \* the configuration of this behaviour (never changes)
          stack,      \* call stack of multigrid() frames, top = last
          scPos, lrPos, \* position in the cyclic sc / lr patterns
          gIt,        \* var.it
          calls,      \* finished level-0 calls
          status,     \* "idle" | "run" | "done"
          first,      \* var.first_cycle
          hist,       \* levels visited in the current fine-grid cycle
          qc,         \* var.level_all (first cycle only)
          obs         \* last observable step (what the trace binds to)

vars == <<cfg, stack, scPos, lrPos, gIt, calls, status, first, hist, qc, obs>>

ScDir == cfg.sc[scPos]
LrDir == cfg.lr[lrPos]
CTab  == ClevelTab(cfg.shape, cfg.cl)
Top   == stack[Len(stack)]
NuInit == cfg.nu[1]
NuPre == cfg.nu[2]
NuCoarse == cfg.nu[3]
NuPost == cfg.nu[4]

SetTop(f) == [stack EXCEPT ![Len(stack)] = f]

NewFrame(level, shape, newCycmax) ==
  [level |-> level, shape |-> shape,
   cycmax |-> IF level = CTab[ScDir] THEN 1
              ELSE IF newCycmax = 0 \/ cfg.cycle # "F"
                   THEN VarCycmax(cfg.cycle) ELSE newCycmax,
   cyc |-> 0, it |-> 0,
   pc |-> IF level = 0 /\ NuInit > 0 THEN "init" ELSE "loop",
   csc |-> 0, cshape |-> shape]

SmoothObs(kind, f, nu) ==
  [ev |-> kind, level |-> f.level, shape |-> f.shape, cycmax |-> f.cycmax,
   it |-> f.it, nu |-> nu, lr |-> LrDir, clr |-> CLrDir(LrDir, f.shape),
   axes |-> LrAxes(CLrDir(LrDir, f.shape))]

InitWith(c) ==
  /\ cfg = c
  /\ stack = <<>>
  /\ scPos = 1 /\ lrPos = 1
  /\ gIt = 0 /\ calls = 0
  /\ status = "idle"
  /\ first = TRUE
  /\ hist = <<>> /\ qc = <<>>
  /\ obs = [ev |-> "none"]

Init == \E sh \in Shapes, cy \in Cycles, scp \in ScPats, lrp \in LrPats,
           c \in CLevels, mi \in MaxIts, n \in NuSets :
           InitWith([shape |-> sh, cycle |-> cy, sc |-> scp, lr |-> lrp,
                     cl |-> c, maxit |-> mi, nu |-> n])

(* -- call of multigrid() at level 0 --------------------------------------- *)
Start ==
  /\ status = "idle" /\ calls < MaxCalls
  /\ stack' = <<NewFrame(0, cfg.shape, 0)>>
  /\ status' = "run"
  /\ hist' = <<0>>
  /\ qc' = IF first THEN Append(qc, 0) ELSE qc
  /\ obs' = [ev |-> "Enter", level |-> 0, shape |-> cfg.shape,
             cycmax |-> NewFrame(0, cfg.shape, 0).cycmax, newcm |-> 0]
  /\ UNCHANGED <<cfg, scPos, lrPos, gIt, calls, first>>

InitSmooth ==
  /\ status = "run" /\ Top.pc = "init"
  /\ stack' = SetTop([Top EXCEPT !.pc = "loop"])
  /\ obs' = SmoothObs("InitSmooth", Top, NuInit)
  /\ UNCHANGED <<cfg, scPos, lrPos, gIt, calls, status, first, hist, qc>>

(* while level == 0 or (level > 0 and it < cycmax) *)
LoopOn(f) == f.level = 0 \/ f.it < f.cycmax
AtBottom(f) == f.level = CTab[ScDir]

CoarsestSmooth ==
  /\ status = "run" /\ Top.pc = "loop" /\ LoopOn(Top) /\ AtBottom(Top)
  /\ stack' = SetTop([Top EXCEPT !.pc = "incr"])
  /\ obs' = SmoothObs("CoarsestSmooth", Top, NuCoarse)
  /\ UNCHANGED <<cfg, scPos, lrPos, gIt, calls, status, first, hist, qc>>

PreSmooth ==
  /\ status = "run" /\ Top.pc = "loop" /\ LoopOn(Top) /\ ~AtBottom(Top)
  /\ NuPre > 0
  /\ stack' = SetTop([Top EXCEPT !.pc = "restrict"])
  /\ obs' = SmoothObs("PreSmooth", Top, NuPre)
  /\ UNCHANGED <<cfg, scPos, lrPos, gIt, calls, status, first, hist, qc>>

DoRestrict ==
  /\ status = "run"
  /\ \/ Top.pc = "restrict"
     \/ Top.pc = "loop" /\ LoopOn(Top) /\ ~AtBottom(Top) /\ NuPre = 0
  /\ LET c == CScDir(ScDir, Top.shape)
         cs == Coarse(Top.shape, c)
     IN /\ stack' = SetTop([Top EXCEPT !.pc = "call", !.csc = c,
                                       !.cshape = cs])
        /\ obs' = [ev |-> "Restrict", level |-> Top.level,
                   shape |-> Top.shape, csc |-> c, cshape |-> cs]
  /\ UNCHANGED <<cfg, scPos, lrPos, gIt, calls, status, first, hist, qc>>

Enter ==
  /\ status = "run" /\ Top.pc = "call"
  /\ LET nf == NewFrame(Top.level + 1, Top.cshape, Top.cycmax - Top.cyc)
     IN /\ stack' = Append(SetTop([Top EXCEPT !.pc = "wait"]), nf)
        /\ obs' = [ev |-> "Enter", level |-> nf.level, shape |-> nf.shape,
                   cycmax |-> nf.cycmax, newcm |-> Top.cycmax - Top.cyc]
        /\ hist' = Append(hist, nf.level)
        /\ qc' = IF first THEN Append(qc, nf.level) ELSE qc
  /\ UNCHANGED <<cfg, scPos, lrPos, gIt, calls, status, first>>

Return ==
  /\ status = "run" /\ Len(stack) > 1
  /\ Top.pc = "loop" /\ ~LoopOn(Top)
  /\ LET below == SubSeq(stack, 1, Len(stack) - 1)
         par == below[Len(below)]
     IN stack' = [below EXCEPT ![Len(below)] = [par EXCEPT !.pc = "prolong"]]
  /\ obs' = [ev |-> "Return", level |-> Top.level, it |-> Top.it]
  /\ UNCHANGED <<cfg, scPos, lrPos, gIt, calls, status, first, hist, qc>>

Prolong ==
  /\ status = "run" /\ Top.pc = "prolong"
  /\ stack' = SetTop([Top EXCEPT !.pc = IF NuPost > 0 THEN "post" ELSE "incr"])
  /\ obs' = [ev |-> "Prolong", level |-> Top.level, shape |-> Top.shape,
             csc |-> Top.csc, cshape |-> Top.cshape]
  /\ hist' = Append(hist, Top.level)
  /\ qc' = IF first THEN Append(qc, Top.level) ELSE qc
  /\ UNCHANGED <<cfg, scPos, lrPos, gIt, calls, status, first>>

PostSmooth ==
  /\ status = "run" /\ Top.pc = "post"
  /\ stack' = SetTop([Top EXCEPT !.pc = "incr"])
  /\ obs' = SmoothObs("PostSmooth", Top, NuPost)
  /\ UNCHANGED <<cfg, scPos, lrPos, gIt, calls, status, first, hist, qc>>

(* coarse level: it += 1; cyc += 1 *)
Incr ==
  /\ status = "run" /\ Top.pc = "incr" /\ Top.level > 0
  /\ stack' = SetTop([Top EXCEPT !.pc = "loop", !.it = @ + 1, !.cyc = @ + 1])
  /\ obs' = [ev |-> "Incr", level |-> Top.level, it |-> Top.it + 1]
  /\ UNCHANGED <<cfg, scPos, lrPos, gIt, calls, status, first, hist, qc>>

(* level 0: it += 1; var.it += 1; residual; advance sc/lr; _terminate.       *)
(* `stop` is the abstract outcome of _terminate (forced when it == maxit).   *)
Adv(pos, pat) == (pos % Len(pat)) + 1
EndCycle(stop) ==
  /\ status = "run" /\ Top.pc = "incr" /\ Top.level = 0
  /\ (Top.it + 1 = cfg.maxit) => stop
  /\ scPos' = Adv(scPos, cfg.sc)
  /\ lrPos' = Adv(lrPos, cfg.lr)
  /\ gIt' = gIt + 1
  /\ first' = FALSE
  /\ obs' = [ev |-> "EndCycle", it |-> Top.it + 1, git |-> gIt + 1,
             sc |-> cfg.sc[Adv(scPos, cfg.sc)],
             lr |-> cfg.lr[Adv(lrPos, cfg.lr)], stop |-> stop, hist |-> hist]
  /\ IF stop
     THEN /\ stack' = <<>>
          /\ calls' = calls + 1
          /\ status' = IF calls + 1 < MaxCalls THEN "idle" ELSE "done"
          /\ hist' = hist
     ELSE /\ stack' = SetTop([Top EXCEPT
                 !.pc = "loop", !.it = @ + 1,
                 \* "if var.sc_cycle": cycmax of the original grid follows
                 \* the new sc direction (fix: commit in /repo)
                 !.cycmax = IF Len(cfg.sc) > 1
                            THEN (IF CTab[cfg.sc[Adv(scPos, cfg.sc)]] = 0
                                  THEN 1 ELSE VarCycmax(cfg.cycle))
                            ELSE @])
          /\ UNCHANGED <<calls, status>>
          /\ hist' = <<0>>
  /\ UNCHANGED <<cfg, qc>>

(* a preconditioner may also simply not be called again *)
Finish ==
  /\ status = "idle" /\ calls > 0
  /\ status' = "done"
  /\ UNCHANGED <<cfg, stack, scPos, lrPos, gIt, calls, first, hist, qc, obs>>

(* steps that leave a record in the solver's log / call sequence ...        *)
Visible ==
  \/ Start \/ InitSmooth \/ CoarsestSmooth \/ PreSmooth \/ DoRestrict \/ Enter
  \/ Return \/ Prolong \/ PostSmooth
  \/ \E s \in BOOLEAN : EndCycle(s)
(* ... and those that do not *)
Next == Visible \/ Incr \/ Finish

Spec == Init /\ [][Next]_vars
FairSpec == Spec /\ WF_vars(Next)

(* ======================= properties (C05) ================================ *)
Frames == {stack[i] : i \in 1..Len(stack)}

TypeOK ==
  /\ status \in {"idle", "run", "done"}
  /\ scPos \in 1..Len(cfg.sc) /\ lrPos \in 1..Len(cfg.lr)
  /\ \A f \in Frames : f.pc \in {"init", "loop", "restrict", "call", "wait",
                                 "prolong", "post", "incr"}

(* never a level with fewer than two cells in a direction *)
AtLeastTwo == \A f \in Frames : \A a \in 1..3 : f.shape[a] >= 2 /\ f.cshape[a] >= 2

(* the stack is the recursion: levels 0,1,2,... ; each child grid is the     *)
(* restriction of its parent                                                 *)
StackShape ==
  \A i \in 1..Len(stack) :
     /\ stack[i].level = i - 1
     /\ i > 1 => /\ stack[i].shape = stack[i-1].cshape
                 /\ stack[i-1].pc = "wait"

(* halves only directions that are even and larger than two, to exactly half;*)
(* coarsens exactly the directions the pattern allows (reference definition) *)
HalveOnlyEvenGT2 ==
  \A f \in Frames : f.pc \in {"call", "wait", "prolong"} =>
     /\ \A a \in 1..3 :
          \/ f.cshape[a] = f.shape[a]
          \/ f.shape[a] % 2 = 0 /\ f.shape[a] > 2 /\ 2 * f.cshape[a] = f.shape[a]
     /\ f.cshape = CoarseRef(ScDir, f.shape)

(* no wasted level: a restriction always changes the grid *)
Progress == \A f \in Frames : f.pc \in {"call", "wait", "prolong"} => f.cshape # f.shape

(* line relaxation never along a two-cell direction, and nothing else dropped *)
NoLRAlongTwoCells ==
  obs.ev \in {"InitSmooth", "CoarsestSmooth", "PreSmooth", "PostSmooth"} =>
     /\ \A a \in obs.axes : obs.shape[a] > 2
     /\ obs.axes = LrAxesRef(obs.lr, obs.shape)

(* depth never exceeds the announced coarsest level *)
DepthBound == \A f \in Frames : f.level <= CTab[ScDir]

(* bottoms out exactly: the coarsest-level smoothing happens on a grid on    *)
(* which no direction allowed by the pattern can be halved any more, or at   *)
(* the user's limit; and that level is the maximum over the coarsened        *)
(* directions of the per-direction levels printed in the header              *)
PrintedLevels == DirLevels(cfg.shape, cfg.cl)
BottomExact ==
  obs.ev = "CoarsestSmooth" =>
     /\ \/ obs.level = cfg.cl
        \/ \A a \in 1..3 : a # ScDir => ~CanHalveRef(obs.shape[a])
     /\ LET S == {PrintedLevels[a] : a \in {b \in 1..3 : b # ScDir}}
        IN obs.level = CHOOSE m \in S : \A x \in S : x <= m
(* ... and conversely a non-bottom level can always be coarsened *)
NotBottomCanCoarsen ==
  obs.ev = "Restrict" => \E a \in 1..3 : a # ScDir /\ CanHalveRef(obs.shape[a])

(* header: for full coarsening the printed coarsest shape is the bottom grid *)
HeaderShape ==
  (obs.ev = "CoarsestSmooth" /\ ScDir = 0) =>
      obs.shape = ReprShape(cfg.shape, cfg.cl)

(* cycmax hand-over: V -> 1, W -> 2 below the top, F -> parent's remaining   *)
CycmaxRule ==
  \A i \in 1..Len(stack) :
     LET f == stack[i] IN
       /\ f.cyc <= f.cycmax /\ f.cycmax \in {1, 2}
       /\ (f.level > 0) => f.it = f.cyc
       /\ (f.level > 0 /\ f.level = CTab[ScDir]) => f.cycmax = 1

(* documented visiting order, defined recursively and independently *)
RECURSIVE DocV(_, _), DocW(_, _), DocF(_, _, _)
DocV(k, L) == IF k = L THEN <<L>> ELSE <<k>> \o DocV(k + 1, L) \o <<k>>
DocW(k, L) == IF k = L THEN <<L>>
              ELSE <<k>> \o DocW(k + 1, L) \o <<k>> \o DocW(k + 1, L) \o <<k>>
DocF(k, L, n) == IF k = L THEN <<L>>
                 ELSE IF n = 1 THEN DocV(k, L)
                 ELSE <<k>> \o DocF(k + 1, L, 2) \o <<k>>
                            \o DocV(k + 1, L) \o <<k>>
DocTop(cycle, L) ==
  IF L = 0 THEN <<0>>
  ELSE <<0>> \o (CASE cycle = "V" -> DocV(1, L)
                   [] cycle = "W" -> DocW(1, L)
                   [] cycle = "F" -> DocF(1, L, 2)) \o <<0>>

(* evaluated in the state right after EndCycle: obs.hist is the finished     *)
(* cycle, scPos has already advanced, so use the depth recorded in the hist  *)
MaxOf(s) == CHOOSE m \in {s[i] : i \in 1..Len(s)} :
               \A j \in 1..Len(s) : s[j] <= m
DocOrder ==
  obs.ev = "EndCycle" => obs.hist = DocTop(cfg.cycle, MaxOf(obs.hist))
(* ... and that depth is the announced one for the sc direction of the cycle *)
PrevPos(pos, pat) == IF Len(pat) > 1 THEN ((pos + Len(pat) - 2) % Len(pat)) + 1
                     ELSE pos
DocDepth ==
  obs.ev = "EndCycle" =>
     MaxOf(obs.hist) = CTab[cfg.sc[PrevPos(scPos, cfg.sc)]]

(* QC level list equals the first cycle's visit sequence *)
QCIsFirstCycle == (~first /\ calls = 0 /\ gIt = 1 /\ obs.ev = "EndCycle") => qc = obs.hist

ItBound == gIt <= cfg.maxit * MaxCalls /\ \A f \in Frames : f.level = 0 => f.it < cfg.maxit

(* semicoarsening / line relaxation advance cyclically, exactly once per     *)
(* fine-grid cycle                                                           *)
(* stated on the observable cycle counter, not on the action names          *)
AdvanceOncePerCycle ==
  [][IF gIt' # gIt
     THEN /\ gIt' = gIt + 1
          /\ scPos' = (scPos % Len(cfg.sc)) + 1
          /\ lrPos' = (lrPos % Len(cfg.lr)) + 1
     ELSE UNCHANGED <<scPos, lrPos>>]_vars

Terminates == <>(status = "done")
=============================================================================
