------------------------------- MODULE Fourier -------------------------------
(* Frequency bookkeeping of emg3d.time.Fourier (time.py 112-386).            *)
(*                                                                           *)
(* All frequencies that matter (those the transform requires, fmin, fmax,    *)
(* user-given input frequencies) are represented by their RANK on a common   *)
(* integer axis, so every comparison the code makes between two of them is   *)
(* exact in the model.  `req` is the strictly increasing sequence of ranks   *)
(* of the required frequencies.                                              *)
EXTENDS Naturals, Integers, Sequences, FiniteSets, TLC

CONSTANTS Ns,          \* exhaustive configs: numbers of required frequencies
          Deviations   \* "SizeCompare": interpolate() decides "coarse = required"
                       \*      by comparing sizes only
                       \* "SignalNoRecheck": the signal setter does not
                       \*      re-derive the transform arguments

VARIABLES req,      \* ranks of the required frequencies (changes with time/ft)
          fmin, fmax,
          everyx,   \* 0 = None, else every x-th required frequency
          inp,      \* <<>> = None, else strictly increasing ranks
          signal,   \* -1, 0, 1
          argSignal,\* the signal the stored transform arguments were derived for
          last      \* last operation and its result

vars == <<req, fmin, fmax, everyx, inp, signal, argSignal, last>>

n == Len(req)
Range(q) == {q[i] : i \in 1..Len(q)}
Req == Range(req)
ReqSeq(m) == [i \in 1..m |-> 2 * i]       \* the canonical axis of the configs
Increasing(q) == \A i \in 1..(Len(q) - 1) : q[i] < q[i + 1]

(* ---- derived properties (time.py 151-211) ---- *)
Coarse == IF everyx = 0 /\ inp = <<>> THEN req
          ELSE IF everyx = 0 THEN inp
          ELSE [k \in 1..((n + everyx - 1) \div everyx) |->
                   req[(k - 1) * everyx + 1]]
InBand(p) == p >= fmin /\ p <= fmax
Compute == SelectSeq(Coarse, InBand)
Extrapolate == {p \in Req : p < fmin}
Interpolate == {p \in Req : InBand(p)}
Above == {p \in Req : p > fmax}

(* ---- interpolate(fdata): what ends up at each required frequency ---- *)
(* <<kind, k>>: "pass" k  = fdata[k] verbatim; "spline" = interpolant;       *)
(* "pchip" = extrapolation towards zero frequency; "zero"                    *)
CoarseIsRequired ==
  IF "SizeCompare" \in Deviations THEN Len(Coarse) = n ELSE Coarse = req
IndexIn(q, x) == CHOOSE k \in 1..Len(q) : q[k] = x
FillOK == CoarseIsRequired => Len(Compute) = Cardinality(Interpolate)
Filled ==
  LET c == Compute
      cset == Range(c)
      same == CoarseIsRequired
      inter == Interpolate
  IN [p \in Req |->
     IF p > fmax THEN <<"zero", 0>>
     ELSE IF p < fmin THEN <<"pchip", 0>>
     ELSE IF same
          THEN \* positional copy: k-th in-band required <- k-th computed
               <<"pass", Cardinality({q \in inter : q <= p})>>
          ELSE IF p \in cset THEN <<"pass", IndexIn(c, p)>>
               ELSE <<"spline", 0>>]

Init ==
  /\ \E m \in Ns : req = ReqSeq(m)
  /\ fmin \in 1..(2 * n) /\ fmax \in 2..(2 * n + 1) /\ fmin < fmax
  /\ everyx = 0 /\ inp = <<>>
  /\ signal \in {-1, 0, 1} /\ argSignal = signal
  /\ last = [op |-> "init"]

InputSets(m) ==   \* menu of user-given input frequencies on the canonical axis
  { ReqSeq(m),                                      \* exactly the required
    [k \in 1..m |-> 2 * k + 1],                     \* same size, shifted
    [k \in 1..m |-> IF k = m THEN 2 * m + 1 ELSE 2 * k],  \* same size, last differs
    [k \in 1..((m + 1) \div 2) |-> 4 * k - 2],      \* every second required
    [k \in 1..((2 * m + 1) \div 3) |-> 3 * k] }     \* mixed on/off grid

(* a new time vector (or transform type): the required set is replaced; the *)
(* ranks of the unchanged values fmin, fmax, input_freq relative to it are  *)
(* arbitrary; _check_time re-derives the transform arguments                *)
SetTime(r, a, b, q) ==
  /\ req' = r /\ Increasing(r) /\ Len(r) > 0
  /\ fmin' = a /\ fmax' = b /\ a < b
  /\ inp' = q /\ (q = <<>>) = (inp = <<>>) /\ Increasing(q)
  /\ argSignal' = signal
  /\ last' = [op |-> "time"]
  /\ UNCHANGED <<everyx, signal>>
SetFmin(p) == /\ p < fmax /\ fmin' = p
              /\ last' = [op |-> "fmin"]
              /\ UNCHANGED <<req, fmax, everyx, inp, signal, argSignal>>
SetFmax(p) == /\ p > fmin /\ fmax' = p
              /\ last' = [op |-> "fmax"]
              /\ UNCHANGED <<req, fmin, everyx, inp, signal, argSignal>>
SetSignal(s) == /\ s \in {-1, 0, 1} /\ signal' = s
                /\ argSignal' = IF "SignalNoRecheck" \in Deviations
                                THEN argSignal ELSE s
                /\ last' = [op |-> "signal"]
                /\ UNCHANGED <<req, fmin, fmax, everyx, inp>>
(* the two coarse options are mutually exclusive: the last one set wins *)
SetEveryX(x) == /\ x \in Nat /\ x # 1 /\ everyx' = x
                /\ inp' = IF x # 0 THEN <<>> ELSE inp
                /\ last' = [op |-> "every_x"]
                /\ UNCHANGED <<req, fmin, fmax, signal, argSignal>>
SetInput(q) == /\ Increasing(q) /\ inp' = q
               /\ everyx' = IF q # <<>> THEN 0 ELSE everyx
               /\ last' = [op |-> "input_freq"]
               /\ UNCHANGED <<req, fmin, fmax, signal, argSignal>>
SetFtArgs == /\ argSignal' = signal /\ last' = [op |-> "ftarg"]
             /\ UNCHANGED <<req, fmin, fmax, everyx, inp, signal>>
(* interpolate() / freq2time(): read-only *)
DoInterpolate == /\ Len(Compute) >= 4
                 /\ last' = [op |-> "interpolate", ok |-> FillOK,
                             filled |-> Filled]
                 /\ UNCHANGED <<req, fmin, fmax, everyx, inp, signal, argSignal>>
DoFreq2Time == /\ Len(Compute) >= 4 /\ FillOK
               /\ last' = [op |-> "freq2time", args |-> argSignal,
                           signal |-> signal]
               /\ UNCHANGED <<req, fmin, fmax, everyx, inp, signal, argSignal>>

Next == \/ \E m \in Ns : \E a \in {1, 3, 4}, b \in {2 * m - 2, 2 * m - 1, 2 * m + 1},
             q \in InputSets(m) \cup {<<>>} : SetTime(ReqSeq(m), a, b, q)
        \/ \E p \in 1..(2 * n + 1) : SetFmin(p)
        \/ \E p \in 1..(2 * n + 1) : SetFmax(p)
        \/ \E s \in {-1, 0, 1} : SetSignal(s)
        \/ \E x \in {0, 2, 3} : SetEveryX(x)
        \/ \E q \in InputSets(n) \cup {<<>>} : SetInput(q)
        \/ SetFtArgs \/ DoInterpolate \/ DoFreq2Time

Spec == Init /\ [][Next]_vars

(* ============================ properties (C20) =========================== *)
TypeOK == /\ fmin < fmax /\ everyx \in Nat /\ Increasing(req)
(* exactly three disjoint groups covering the required set *)
Partition ==
  /\ Extrapolate \cup Interpolate \cup Above = Req
  /\ Extrapolate \cap Interpolate = {} /\ Interpolate \cap Above = {}
  /\ Extrapolate \cap Above = {}
(* computed frequencies all lie in the requested band *)
ComputeInBand == LET c == Compute IN \A k \in 1..Len(c) : InBand(c[k])
(* the two coarse options are never both set *)
MutualExclusion == ~(everyx # 0 /\ inp # <<>>)
(* interpolate(): supplied data are passed through where computed and       *)
(* required frequencies coincide, a required frequency only ever receives   *)
(* the datum of THAT frequency verbatim, zero above fmax, and the call      *)
(* works for every coarse option                                            *)
FilledCorrectly ==
  (last.op = "interpolate" /\ DOMAIN last.filled = Req) =>
     LET c == Compute
         cset == Range(c)
     IN /\ last.ok
        /\ \A p \in Req :
             LET e == last.filled[p] IN
               /\ (p > fmax) <=> (e[1] = "zero")
               /\ (p < fmin) <=> (e[1] = "pchip")
               /\ (e[1] = "pass") => (e[2] \in 1..Len(c) /\ c[e[2]] = p)
               /\ (InBand(p) /\ p \in cset) => e[1] = "pass"
(* the transform is carried out with arguments matching the current signal *)
TransformArgsCurrent == last.op = "freq2time" => last.args = last.signal
=============================================================================
