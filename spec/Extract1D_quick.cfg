SPECIFICATION Spec1
CONSTANTS
  Nodes1 = {0, 2, 6}
  Pts <- PtsDef
  Rads = {1, 3}
  Facs <- FacsDef
  Mnrs <- MnrsDef
INVARIANT SumOne
INVARIANT CylinderInPrism
INVARIANT ContainsPoints
INVARIANT MidCellContains
CHECK_DEADLOCK FALSE
