------------------------------ MODULE CliConfig ------------------------------
(* The command-line interface of emg3d (cli/main.py, cli/parser.py,          *)
(* cli/run.py) as: documented option table -> parser -> workflow.            *)
(*                                                                           *)
(* DocKeys is the option list of docs/manual/cli.rst (the harness re-derives *)
(* it from the document at every run and refuses to run if it differs).      *)
(* ParserKeys is what parse_config_file accepts per section, Down(...) the   *)
(* keyword names the Python API called by run.py accepts (Simulation,        *)
(* solver options, estimate_gridding_opts/construct_mesh, Survey.add_noise,  *)
(* Survey.select, layered options).  KeyMap translates a parser key to the   *)
(* API keyword (identity unless stated).                                     *)
EXTENDS Naturals, Sequences, FiniteSets, TLC

CONSTANTS Deviations   \* "CellNumberKey": run.py hands the gridding options to
                       \*     the API as parsed (key `cell_number`)
                       \* "CleanNeedsGridSection": --load --clean indexes
                       \*     cfg['simulation_options']['gridding_opts']

Sec(s, ks) == {<<s, k>> : k \in ks}
DocKeys ==
  Sec("files", {"path", "survey", "model", "output", "save", "load", "cache"}) \cup
  Sec("simulation", {"max_workers", "gridding", "name", "file_dir",
                     "receiver_interpolation", "layered"}) \cup
  Sec("solver_opts", {"sslsolver", "semicoarsening", "linerelaxation", "cycle",
                      "tol", "tol_gradient", "verb", "maxit", "nu_init",
                      "nu_pre", "nu_coarse", "nu_post", "clevel", "plain"}) \cup
  Sec("gridding_opts", {"properties", "center", "cell_number", "min_width_pps",
                        "domain", "distance", "stretching", "min_width_limits",
                        "mapping", "vector", "frequency", "seasurface",
                        "max_buffer", "lambda_factor", "verb",
                        "lambda_from_center"}) \cup
  Sec("noise_opts", {"add_noise", "min_offset", "max_offset", "mean_noise",
                     "ntype"}) \cup
  Sec("data", {"sources", "receivers", "frequencies", "remove_empty"}) \cup
  Sec("layered", {"method", "radius", "factor", "minor", "merge", "check_foci"})

(* accepted by the parser but not documented (deprecated / internal) *)
ParserExtra ==
  Sec("simulation", {"min_offset", "max_offset", "mean_noise", "ntype"}) \cup
  Sec("gridding_opts", {"expand", "center_on_edge"})
ParserKeys == DocKeys \cup ParserExtra
Sections == {"files", "simulation", "solver_opts", "gridding_opts",
             "noise_opts", "data", "layered"}

(* keyword the API receives for a parsed key *)
KeyMap(sk) ==
  IF sk = <<"gridding_opts", "cell_number">> /\ "CellNumberKey" \notin Deviations
  THEN "cell_numbers" ELSE sk[2]
(* keywords the API accepts, per section *)
Down(s) ==
  CASE s = "gridding_opts" ->
         {"properties", "center", "cell_numbers", "min_width_pps", "domain",
          "distance", "stretching", "min_width_limits", "mapping", "vector",
          "frequency", "seasurface", "max_buffer", "lambda_factor", "verb",
          "lambda_from_center", "center_on_edge", "expand"}
    [] s = "solver_opts" ->
         {"sslsolver", "semicoarsening", "linerelaxation", "cycle", "tol",
          "tol_gradient", "verb", "maxit", "nu_init", "nu_pre", "nu_coarse",
          "nu_post", "clevel", "plain", "log"}
    [] s = "simulation" ->
         {"max_workers", "gridding", "name", "file_dir",
          "receiver_interpolation", "layered", "info", "verb"}
    [] s = "noise_opts" ->
         {"add_noise", "min_offset", "max_offset", "mean_noise", "ntype",
          "min_amplitude", "add_to"}
    [] s = "data" -> {"sources", "receivers", "frequencies", "remove_empty"}
    [] s = "layered" -> {"method", "radius", "factor", "minor", "merge",
                         "check_foci"}
    [] s = "files" -> {"path", "survey", "model", "output", "save", "load",
                       "cache"}

(* options with a terminal alias: the terminal wins over the file *)
TermAliases == Sec("files", {"path", "survey", "model", "output", "save",
                             "load", "cache"}) \cup
               Sec("simulation", {"max_workers", "layered"})
Functions == {"forward", "misfit", "gradient"}
Unknown == <<"any", "unknown_key">>

VARIABLES
  file,      \* keys present in the configuration file (may contain Unknown)
  usec,      \* section the unknown key sits in
  term,      \* aliases given on the command line
  fn, dry, clean,  \* function, --dry-run, --clean
  pc,        \* "start" | "parsed" | "ready" | "forward" | "misfit" | "gradient"
             \* | "saved" | "done" | "error"
  eff,       \* effective source of every option: "term" | "file" | "default"
  errAt,     \* stage at which an error was raised ("" = none)
  outKeys,   \* keys written to the output file
  simSaved,  \* the simulation was written to `save`
  computed   \* a real computation was carried out

vars == <<file, usec, term, fn, dry, clean, pc, eff, errAt, outKeys, simSaved,
          computed>>

Src(k) == IF k \in term THEN "term" ELSE IF k \in file THEN "file" ELSE "default"
HasLoad == Src(<<"files", "load">>) # "default" \/ Src(<<"files", "cache">>) # "default"
HasSave == Src(<<"files", "save">>) # "default" \/ Src(<<"files", "cache">>) # "default"

UpTo2(S) == {{}} \cup {{a} : a \in S} \cup {{a, b} : a \in S, b \in S}
Init ==
  /\ file \in UpTo2(DocKeys \cup {Unknown})
  /\ usec \in Sections
  /\ term \in {{}} \cup {{a} : a \in TermAliases}
  /\ fn \in Functions /\ dry \in BOOLEAN /\ clean \in BOOLEAN
  /\ pc = "start"
  /\ eff = [k \in DocKeys |-> "default"]
  /\ errAt = "" /\ outKeys = {} /\ simSaved = FALSE /\ computed = FALSE

(* parse_config_file: per-section typed extraction; left-over keys are      *)
(* refused before anything else happens                                     *)
Parse ==
  /\ pc = "start"
  /\ IF Unknown \in file
     THEN pc' = "error" /\ errAt' = "parse" /\ eff' = eff
     ELSE pc' = "parsed" /\ errAt' = "" /\ eff' = [k \in DocKeys |-> Src(k)]
  /\ UNCHANGED <<file, usec, term, fn, dry, clean, outKeys, simSaved, computed>>

(* load an existing simulation (optionally clean + replace the model), or   *)
(* load survey and model, select data, build the Simulation                 *)
GridKeys == {k \in file : k[1] = "gridding_opts"}
Build ==
  /\ pc = "parsed"
  /\ LET badGrid == \E k \in GridKeys : KeyMap(k) \notin Down("gridding_opts")
         badClean == HasLoad /\ clean /\ GridKeys = {}
                     /\ "CleanNeedsGridSection" \in Deviations
     IN IF (~HasLoad /\ badGrid) \/ badClean
        THEN pc' = "error" /\ errAt' = "build"
        ELSE pc' = "ready" /\ errAt' = ""
  /\ UNCHANGED <<file, usec, term, fn, dry, clean, eff, outKeys, simSaved,
                 computed>>

(* forward computation (all functions); zeros of the right shape if dry-run *)
Forward ==
  /\ pc = "ready"
  /\ outKeys' = {"configuration", "data"}
  /\ computed' = ~dry
  /\ pc' = "forward"
  /\ UNCHANGED <<file, usec, term, fn, dry, clean, eff, errAt, simSaved>>
Misfit ==
  /\ pc = "forward"
  /\ IF fn \in {"misfit", "gradient"}
     THEN outKeys' = outKeys \cup {"misfit", "n_observations"} ELSE outKeys' = outKeys
  /\ pc' = "misfit"
  /\ UNCHANGED <<file, usec, term, fn, dry, clean, eff, errAt, simSaved, computed>>
Gradient ==
  /\ pc = "misfit"
  /\ IF fn = "gradient" THEN outKeys' = outKeys \cup {"gradient"} ELSE outKeys' = outKeys
  /\ pc' = "gradient"
  /\ UNCHANGED <<file, usec, term, fn, dry, clean, eff, errAt, simSaved, computed>>
Save ==
  /\ pc = "gradient"
  /\ simSaved' = HasSave
  /\ pc' = "done"
  /\ UNCHANGED <<file, usec, term, fn, dry, clean, eff, errAt, outKeys, computed>>

Next == Parse \/ Build \/ Forward \/ Misfit \/ Gradient \/ Save
Spec == Init /\ [][Next]_vars

(* ============================ properties (C18) =========================== *)
(* every documented option is known to the parser ...                       *)
DocKeysParsed == DocKeys \subseteq ParserKeys
(* ... and is accepted by the API it is handed to, i.e. a configuration     *)
(* made of documented options never fails                                   *)
EveryDocKeyAccepted == (Unknown \notin file) => errAt = ""
(* unknown options are rejected with an error before any computation or     *)
(* output                                                                   *)
UnknownRejected ==
  (Unknown \in file /\ pc # "start") =>
     (errAt = "parse" /\ outKeys = {} /\ ~simSaved /\ ~computed)
(* command-line arguments override the configuration file *)
Precedence ==
  pc \notin {"start", "error"} =>
     \A k \in DocKeys : eff[k] = (IF k \in term THEN "term"
                                  ELSE IF k \in file THEN "file" ELSE "default")
(* what each function writes *)
OutputKeys ==
  pc = "done" =>
     outKeys = {"configuration", "data"}
               \cup (IF fn \in {"misfit", "gradient"} THEN {"misfit", "n_observations"} ELSE {})
               \cup (IF fn = "gradient" THEN {"gradient"} ELSE {})
DryRunComputesNothing == dry => ~computed
CacheIsLoadAndSave ==
  (pc = "done" /\ Src(<<"files", "cache">>) # "default") => (simSaved /\ HasLoad)
=============================================================================
