SPECIFICATION SpecL
CONSTANTS
  Shapes1 = {}
  Widths1 = {}
  LGrids <- QuickGrids
INVARIANT PartitionOfUnity
INVARIANT GradientHasNoMagneticResponse
CHECK_DEADLOCK FALSE
