------------------------------ MODULE Layered ------------------------------
(* Layered (1-D) mode of a Simulation: Simulation._compute_1d            *)
(* (simulations.py) fans one task per source out to                       *)
(* _multiprocessing.layered(), which loops over the receivers, restricts  *)
(* the frequencies of each receiver to those with finite observed data,   *)
(* extracts a 1-D model (Model.extract_1d) at points that depend on the   *)
(* extraction method and calls the 1-D modeller (forward: once; gradient: *)
(* once per layer and direction with that layer perturbed).               *)
(*                                                                        *)
(* One action per code step.  The `continue` of receivers without finite  *)
(* data is not observable from outside and is therefore folded into the   *)
(* step that moves to the next receiver (Advance) resp. ends the source   *)
(* (EndSource): grain of atomicity resolved explicitly, no silent steps.  *)
(*                                                                        *)
(* Properties (discrete clauses of C19), stated independently of the      *)
(* actions:                                                               *)
(*  TripleRule   a response is stored for (s,r,f) iff the triple has      *)
(*               finite observed data (or there are no observed data at   *)
(*               all), every other entry is NaN, and the stored value is  *)
(*               the modeller's answer for that very triple               *)
(*  CallsExact   the modeller is asked exactly for the wanted frequencies *)
(*               of the receiver, never for an empty set                  *)
(*  PointsRule   the extraction points follow the method                  *)
(*  GradComplete the finite-difference gradient of layer l / direction d  *)
(*               collects one term from every source-receiver pair that   *)
(*               contributes to the misfit, horizontal always, vertical   *)
(*               iff VTI, never the y-direction; without observed data it *)
(*               is zero                                                  *)
(*  FDOrder      action property: each FD call perturbs one layer of one  *)
(*               direction, all layers exactly once per direction         *)
EXTENDS Naturals, Integers, Sequences, FiniteSets, TLC

CONSTANTS NS, NR, NF, NZ, Deviations

S == 1..NS
R == 1..NR
F == 1..NF
Methods == {"midpoint", "source", "receiver", "prism", "cylinder"}
NaN == <<0, 0, 0>>

VARIABLES
  cf,     \* configuration of this call (chosen in Init, constant)
  pc,     \* "idle" | "src" | "rec" | "done"
  s, r,   \* current source / receiver (0: none)
  todo,   \* sources still to be processed
  syn,    \* S x R x F -> triple the stored value was computed for | NaN
  grd,    \* set of <<s, r, d, l>>: FD terms added to the gradient
  zero,   \* sources that returned the all-zero gradient without looping
  ext,    \* the extraction of the current receiver: <<method, p0, p1>>
  fd      \* FD calls made for the current receiver: sequence of <<d, l>>
vars == <<cf, pc, s, r, todo, syn, grd, zero, ext, fd>>

(* observed data: finiteness mask; hasdata (= has_data of _compute_1d) iff  *)
(* at least one entry is finite                                            *)
Masks == [S \X R \X F -> BOOLEAN]
HasData == cf.hasdata
Fin(a, b) == IF HasData THEN {f \in F : cf.obs[<<a, b, f>>]} ELSE F
Skippable(a, b) == HasData /\ Fin(a, b) = {}
Wanted(a, b, f) == IF HasData THEN cf.obs[<<a, b, f>>] ELSE TRUE
Dirs == IF cf.vti THEN {1, 3} ELSE {1}         \* 1 = horizontal, 3 = vertical

(* points handed to extract_1d, by method (_get_points) *)
Points(m) == CASE m = "source"   -> <<"midpoint", "src", "src">>
               [] m = "receiver" -> <<"midpoint", "rec", "rec">>
               [] OTHER          -> <<m, "src", "rec">>

CfSet == {c \in [hasdata : BOOLEAN, obs : Masks, method : Methods,
                   vti : BOOLEAN, grad : BOOLEAN] :
             c.hasdata = (\E t \in S \X R \X F : c.obs[t])}
InitRest ==
  /\ pc = "idle" /\ s = 0 /\ r = 0 /\ todo = S
  /\ syn = [t \in S \X R \X F |-> NaN]
  /\ grd = {} /\ zero = {} /\ ext = <<>> /\ fd = <<>>
Init == cf \in CfSet /\ InitRest

(* layered() is entered for one source (any order: process_map) *)
StartSource(a) ==
  /\ pc = "idle" /\ a \in todo
  /\ s' = a /\ r' = 0 /\ pc' = "src" /\ ext' = <<>> /\ fd' = <<>>
  /\ UNCHANGED <<cf, todo, syn, grd, zero>>

(* gradient without observed data: zeros, no loop *)
GradNothing ==
  /\ pc = "src" /\ r = 0 /\ cf.grad /\ ~HasData
  /\ zero' = zero \cup {s} /\ todo' = todo \ {s}
  /\ pc' = "idle" /\ s' = 0
  /\ UNCHANGED <<cf, r, syn, grd, ext, fd>>

LoopEnabled == pc = "src" /\ (cf.grad => HasData)

(* next receiver with something to compute; extraction of its 1-D model *)
Advance(b) ==
  /\ LoopEnabled
  /\ b \in R /\ b > r /\ ~Skippable(s, b)
  /\ \A k \in (r + 1)..(b - 1) : Skippable(s, k)
  /\ r' = b /\ pc' = "rec" /\ ext' = Points(cf.method) /\ fd' = <<>>
  /\ UNCHANGED <<cf, s, todo, syn, grd, zero>>

(* forward: one call with the wanted frequencies, stored at out[r, fi] *)
CallFreqs == IF "AllFreqs" \in Deviations THEN F ELSE Fin(s, r)
Forward ==
  /\ pc = "rec" /\ ~cf.grad
  /\ syn' = [t \in S \X R \X F |->
               IF t[1] = s /\ t[2] = r /\ t[3] \in CallFreqs THEN t ELSE syn[t]]
  /\ pc' = "src"
  /\ UNCHANGED <<cf, s, r, todo, grd, zero, ext, fd>>

(* gradient: FD call number Len(fd)+1 of this receiver; the terms of a    *)
(* direction are added to the gradient when its last layer has been done  *)
(* (out[0] += ..., out[2] += ... in layered())                            *)
NFD == IF cf.vti THEN 2 * NZ ELSE NZ
NextFD == LET n == Len(fd) IN
          IF n < NZ THEN <<1, n + 1>> ELSE <<3, n - NZ + 1>>
FDCall ==
  /\ pc = "rec" /\ cf.grad /\ Len(fd) < NFD
  /\ fd' = Append(fd, NextFD)
  /\ grd' = IF NextFD[2] = NZ
            THEN grd \cup {<<s, r, NextFD[1], k>> : k \in 1..NZ} ELSE grd
  /\ pc' = IF Len(fd') = NFD THEN "src" ELSE "rec"
  /\ UNCHANGED <<cf, s, r, todo, syn, zero, ext>>

EndSource ==
  /\ LoopEnabled
  /\ \A k \in (r + 1)..NR : Skippable(s, k)
  /\ todo' = todo \ {s} /\ pc' = "idle" /\ s' = 0 /\ r' = 0
  /\ UNCHANGED <<cf, syn, grd, zero, ext, fd>>

Finish ==
  /\ pc = "idle" /\ todo = {}
  /\ pc' = "done"
  /\ UNCHANGED <<cf, s, r, todo, syn, grd, zero, ext, fd>>

Next == \/ \E a \in S : StartSource(a)
        \/ GradNothing
        \/ \E b \in R : Advance(b)
        \/ Forward \/ FDCall \/ EndSource \/ Finish
Spec == Init /\ [][Next]_vars /\ WF_vars(Next)

(* ------------------------------ properties ------------------------------ *)
TypeOK ==
  /\ pc \in {"idle", "src", "rec", "done"}
  /\ s \in 0..NS /\ r \in 0..NR /\ todo \subseteq S

TripleRule ==
  (pc = "done" /\ ~cf.grad) =>
     \A t \in S \X R \X F : syn[t] = IF Wanted(t[1], t[2], t[3]) THEN t ELSE NaN
(* nothing is ever stored at an entry that is not wanted, at any time *)
NeverUnwanted ==
  \A t \in S \X R \X F : syn[t] # NaN => (syn[t] = t /\ Wanted(t[1], t[2], t[3]))
CallsExact == pc = "rec" => Fin(s, r) # {}
PointsRule ==
  pc = "rec" =>
    /\ ext[1] = (IF cf.method \in {"prism", "cylinder"} THEN cf.method ELSE "midpoint")
    /\ ext[2] = (IF cf.method = "receiver" THEN "rec" ELSE "src")
    /\ ext[3] = (IF cf.method = "source" THEN "src" ELSE "rec")
Contributing == {p \in S \X R : \E f \in F : Wanted(p[1], p[2], f)}
GradComplete ==
  (pc = "done" /\ cf.grad) =>
     IF HasData
     THEN /\ zero = {}
          /\ grd = {<<p[1], p[2], d, l>> : p \in Contributing, d \in Dirs, l \in 1..NZ}
     ELSE grd = {} /\ zero = S
NoYGradient == \A g \in grd : g[3] # 2
FDOrder ==
  [][fd' # fd /\ fd' # <<>> =>
       /\ Len(fd') = Len(fd) + 1
       /\ \A k \in 1..Len(fd) : fd'[Len(fd')] # fd[k]
       /\ fd'[Len(fd')][1] \in Dirs /\ fd'[Len(fd')][2] \in 1..NZ]_vars
Terminates == <>(pc = "done")
=============================================================================
