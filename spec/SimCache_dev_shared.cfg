SPECIFICATION Spec
CONSTANTS
  Pairs = {1, 2}
  MaxModel = 1
  FileMode = TRUE
  MaxOps = 5
  Layered = FALSE
  NObj = 2
  Deviations = {"SharedFileDir"}
INVARIANT TypeOK
INVARIANT FreshResults
INVARIANT CachesCoherent
INVARIANT TolRestored
PROPERTY CopyIndependent
CHECK_DEADLOCK FALSE
