--------------------------- MODULE TraceIOFormats ---------------------------
(* Recorded save / load / convert chains of the real emg3d.io on randomly    *)
(* composed trees (any keys, depth up to 4, every registered class),         *)
(* validated against IOFormats.tla: after every load the abstract type tree  *)
(* of what the code returned must be the one the specification predicts,     *)
(* the values must be equal, and RoundTrip / ContentPreserved must hold.     *)
EXTENDS IOFormats, Json, IOUtils, TLCExt

ASSUME TLCSet(1, {})
ASSUME TLCSet(2, <<0, "none">>)
ASSUME TLCSet(3, {})
Traces == JsonDeserialize(IOEnv.TRACE_FILE)
Diag == "TRACE_DIAG" \in DOMAIN IOEnv
VARIABLES tid, l
tvars == <<vars, tid, l>>
T == Traces[tid]
Ev == T.ev[l]
More == l <= Len(T.ev)

TraceInit == /\ tid \in 1..Len(Traces) /\ l = 1
             /\ val = Traces[tid].orig /\ orig = val
             /\ where = "memory" /\ hist = <<>>
Step(a) == More /\ a /\ l' = l + 1 /\ UNCHANGED tid
TraceNext ==
  \/ (More /\ Ev.e = "save" /\ Step(Save(Ev.fmt)))
  \/ (More /\ Ev.e = "convert" /\ Step(Convert(Ev.fmt)))
  \/ (More /\ Ev.e = "load" /\ Step(Load) /\ val' = Ev.obs /\ Ev.valeq)
TraceSpec == TraceInit /\ [][TraceNext]_tvars
Complete == ~More

InvTable == << <<"RoundTrip", RoundTrip>>, <<"ContentPreserved", ContentPreserved>> >>
Failed == {InvTable[i][1] : i \in {j \in 1..Len(InvTable) : ~InvTable[j][2]}}
Accept ==
  /\ IF Failed # {}
     THEN TLCSet(3, TLCGet(3) \cup {<<tid, f>> : f \in Failed}) ELSE TRUE
  /\ IF Complete THEN TLCSet(1, TLCGet(1) \cup {tid}) ELSE TRUE
  /\ IF Diag /\ l > TLCGet(2)[1]
     THEN TLCSet(2, <<l, [where |-> where, hist |-> hist, val |-> val]>>)
     ELSE TRUE
Post ==
  /\ PrintT(<<"VP", "ntraces", Len(Traces)>>)
  /\ PrintT(<<"VP", "rejected", (1..Len(Traces)) \ TLCGet(1)>>)
  /\ PrintT(<<"VP", "invfail", TLCGet(3)>>)
  /\ IF Diag THEN PrintT(<<"VP", "maxl", TLCGet(2)[1]>>)
                  /\ PrintT(<<"VP", "laststate", TLCGet(2)[2]>>)
     ELSE TRUE
=============================================================================
