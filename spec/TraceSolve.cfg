SPECIFICATION TraceSpec
CONSTANTS
  MaxIts = {}
  MaxInner = 1000
  Deviations = {}
  EnvAssume = {}
CONSTRAINT Accept
POSTCONDITION Post
CHECK_DEADLOCK FALSE
