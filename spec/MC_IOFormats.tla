---------------------------- MODULE MC_IOFormats ----------------------------
EXTENDS IOFormats
AllClasses == {"TensorMesh#1", "TensorMesh#2", "Model#1", "Model#2", "Model#3",
               "Field#1", "Field#2", "Field#3", "TxElectricPoint#1",
               "TxMagneticPoint#1", "TxElectricDipole#1", "TxElectricDipole#2",
               "TxElectricDipole#3", "TxMagneticDipole#1", "TxMagneticDipole#2",
               "TxElectricWire#1", "RxElectricPoint#1", "RxElectricPoint#2",
               "RxMagneticPoint#1", "RxMagneticPoint#2", "Survey#1", "Survey#2",
               "Survey#3", "Simulation#1", "Simulation#2", "Simulation#3",
               "Simulation#4", "Simulation#5", "Simulation#6"}
FewClasses == {"Model#1", "Survey#1"}
=============================================================================
