------------------------------ MODULE EdgeAvg ------------------------------
(* The two cell <-> edge maps of the sensitivity machinery, in exact          *)
(* rational arithmetic (growth: discrete ingredients of C07 / C08, which the  *)
(* specification cannot decide as a whole):                                   *)
(*                                                                            *)
(*   C = maps.interp_edges_to_vol_averages   (gradient: edges -> cells)       *)
(*       reference:  C[cell, edge] = V_cell / 4  for the four edges of a      *)
(*       cell in each direction, 0 otherwise                                  *)
(*   D = grid.get_edge_inner_product_deriv(ones)(ones)   (jvec: cells ->      *)
(*       edges, from discretize)                                              *)
(*       law:  D = C^T  on the interior edges                                 *)
(*                                                                            *)
(* Both matrices are extracted from the real functions (basis vectors,       *)
(* integer cell widths, so every entry is an exact multiple of 1/4) and read  *)
(* from a file.  The code counts a boundary edge once per CLAMPED neighbour   *)
(* index, i.e. 2 or 4 times (simulations.py relies on tangential E = 0 on     *)
(* the boundary, where it does not matter); this is modelled as it is.        *)
(* Code anchors: emg3d/maps.py 668-719, simulations.py 1044-1058, 1359-1361.  *)
EXTENDS Naturals, Integers, Sequences, FiniteSets, TLC, Json, IOUtils, TLCExt

ASSUME TLCSet(1, {})
ASSUME TLCSet(3, {})
Insts == JsonDeserialize(IOEnv.TRACE_FILE)
VARIABLE iid
X == Insts[iid]
Init == iid \in 1..Len(Insts)
Spec == Init /\ [][UNCHANGED iid]_iid

(* instance: h = <<hx, hy, hz>> integer widths;                               *)
(*   c = <<dir, i, j, k, <<ed, a, b, g, num4>>...>> rows of C: cell (i,j,k)   *)
(*        (0-based) of output component dir; entries: edge (a,b,g) of         *)
(*        direction ed with value num4 / 4                                    *)
(*   d = the same layout for D^T (rows = cells, entries = edges)              *)
N(d) == Len(X.h[d])
Vol(i, j, k) == X.h[1][i + 1] * X.h[2][j + 1] * X.h[3][k + 1]

(* the four edges of direction c around cell (i, j, k) *)
CellEdges(c, i, j, k) ==
  CASE c = 1 -> {<<i, j + a, k + b>> : a \in {0, 1}, b \in {0, 1}}
    [] c = 2 -> {<<i + a, j, k + b>> : a \in {0, 1}, b \in {0, 1}}
    [] c = 3 -> {<<i + a, j + b, k>> : a \in {0, 1}, b \in {0, 1}}
OnBoundary(c, e) ==       \* number of directions across c in which e lies on the boundary
  Cardinality({d \in 1..3 : d # c /\ (e[d] = 0 \/ e[d] = N(d))})

RowOK(r, doubled) ==
  LET c == r[1]
      cell == <<r[2], r[3], r[4]>>
      want == CellEdges(c, cell[1], cell[2], cell[3])
  IN /\ \A t \in 1..Len(r[5]) :
          LET x == r[5][t] IN
            /\ x[1] = c                         \* only edges of the same direction
            /\ <<x[2], x[3], x[4]>> \in want    \* only the cell's own edges
            /\ x[5] = Vol(cell[1], cell[2], cell[3]) *
                      (IF doubled
                       THEN (CASE OnBoundary(c, <<x[2], x[3], x[4]>>) = 0 -> 1
                               [] OnBoundary(c, <<x[2], x[3], x[4]>>) = 1 -> 2
                               [] OTHER -> 4)
                       ELSE 1)
     /\ \A e \in want : \E t \in 1..Len(r[5]) : <<r[5][t][2], r[5][t][3], r[5][t][4]>> = e

(* every row of the code's gradient map is the reference (boundary edges     *)
(* with the code's multiplicity)                                             *)
GradientMapIsVolumeQuarter == \A n \in 1..Len(X.c) : RowOK(X.c[n], TRUE)
(* discretize's derivative of the edge inner product: V/4 everywhere *)
DerivIsVolumeQuarter == \A n \in 1..Len(X.d) : RowOK(X.d[n], FALSE)
(* jvec's G is the transpose of the gradient's map on interior edges *)
Entry(rows, c, cell, e) ==
  LET S == {n \in 1..Len(rows) : rows[n][1] = c /\ <<rows[n][2], rows[n][3], rows[n][4]>> = cell}
  IN IF S = {} THEN 0
     ELSE LET r == rows[CHOOSE n \in S : TRUE]
              T == {t \in 1..Len(r[5]) : <<r[5][t][2], r[5][t][3], r[5][t][4]>> = e}
          IN IF T = {} THEN 0 ELSE r[5][CHOOSE t \in T : TRUE][5]
Transposes ==
  \A n \in 1..Len(X.c) :
     LET r == X.c[n]
         cell == <<r[2], r[3], r[4]>>
     IN \A t \in 1..Len(r[5]) :
          LET e == <<r[5][t][2], r[5][t][3], r[5][t][4]>> IN
            OnBoundary(r[1], e) = 0 => r[5][t][5] = Entry(X.d, r[1], cell, e)
Complete ==
  /\ Len(X.c) = 3 * N(1) * N(2) * N(3)
  /\ Len(X.d) = 3 * N(1) * N(2) * N(3)

InvTable == <<
  <<"GradientMapIsVolumeQuarter", GradientMapIsVolumeQuarter>>,
  <<"DerivIsVolumeQuarter", DerivIsVolumeQuarter>>,
  <<"Transposes", Transposes>>, <<"Complete", Complete>>,
  <<"Observations", X.obs>> >>
Failed == {InvTable[i][1] : i \in {j \in 1..Len(InvTable) : ~InvTable[j][2]}}
Accept ==
  IF Failed # {} THEN TLCSet(3, TLCGet(3) \cup {<<iid, f>> : f \in Failed})
  ELSE TLCSet(1, TLCGet(1) \cup {iid})
Post ==
  /\ PrintT(<<"VP", "ntraces", Len(Insts)>>)
  /\ PrintT(<<"VP", "rejected", {}>>)
  /\ PrintT(<<"VP", "invfail", TLCGet(3)>>)
=============================================================================
