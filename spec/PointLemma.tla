----------------------------- MODULE PointLemma -----------------------------
(* Lemmas about the references of PointOps.tla, checked exhaustively (no     *)
(* code involved) for every lattice point of the admissible region of small  *)
(* grids: the sampling weights of each component form a partition of unity   *)
(* (so a unit point source injects exactly its unit moment - C10), and the   *)
(* magnetic functional annihilates every discrete gradient (a curl-free      *)
(* field has no magnetic response - consistency of face interpolation with   *)
(* Operator.tla's curl).                                                     *)
EXTENDS PointOps
VARIABLE pp
LemmaGrids == { <<<<1, 2, 1>>, <<2, 1, 1>>, <<1, 1, 2>>>>,
                <<<<1, 1, 1, 2>>, <<1, 2, 1>>, <<2, 1, 1>>>>,
                <<<<2, 1, 2>>, <<1, 1, 1>>, <<1, 2, 2, 1>>>> }
CONSTANT LGrids
QuickGrids == { <<<<1, 2, 1>>, <<2, 1, 1>>, <<1, 1, 2>>>> }
InitL == /\ hg \in LGrids /\ iid = 0
         /\ pp \in {p \in (0..12) \X (0..12) \X (0..12) : InGrid(hg, p) /\ InRegion(hg, p)}
SpecL == InitL /\ [][UNCHANGED <<hg, iid, pp>>]_<<hg, iid, pp>>
RECURSIVE GCD(_, _)
GCD(a, b) == IF b = 0 THEN a ELSE GCD(b, a % b)
AbsI(x) == IF x < 0 THEN 0 - x ELSE x
NormQ(r) == IF r[1] = 0 THEN <<0, 1>>
            ELSE LET g == GCD(AbsI(r[1]), AbsI(r[2])) IN <<r[1] \div g, r[2] \div g>>
AddQ(a, b) == LET g == GCD(a[2], b[2])
                  l == (a[2] \div g) * b[2]
              IN NormQ(<<a[1] * (l \div a[2]) + b[1] * (l \div b[2]), l>>)
SumQ(S, f(_)) == FoldSet(LAMBDA x, acc : AddQ(NormQ(f(x)), acc), <<0, 1>>, S)
AllEdges(c) == {e \in {c} \X (0..NN(hg, 1)) \X (0..NN(hg, 2)) \X (0..NN(hg, 3)) : EdgeOK(hg, e)}
PartitionOfUnity ==
  \A c \in 1..3 :
     LET w(e) == RefE(hg, pp, e)
         s == SumQ({e \in AllEdges(c) : w(e)[1] # 0}, w)
     IN s = <<1, 1>> /\ \A e \in AllEdges(c) : RefE(hg, pp, e)[1] >= 0
GradientHasNoMagneticResponse ==
  \A c \in 1..3 : \A n \in AllNodes(hg) :
     LET t(e) == RMul(RefM(hg, pp, c, e), G(hg, e, n))
         E3 == AllEdges(1) \cup AllEdges(2) \cup AllEdges(3)
         near == {e \in E3 : G(hg, e, n)[1] # 0}
     IN SumQ({e \in near : t(e)[1] # 0}, t)[1] = 0
=============================================================================
