SPECIFICATION Spec
CONSTANTS
  Pairs = {1, 2}
  MaxModel = 1
  FileMode = TRUE
  MaxOps = 0
  Layered = FALSE
  NObj = 2
  Deviations = {"SharedFileDir"}
CHECK_DEADLOCK FALSE
