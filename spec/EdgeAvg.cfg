SPECIFICATION Spec
CONSTRAINT Accept
POSTCONDITION Post
CHECK_DEADLOCK FALSE
