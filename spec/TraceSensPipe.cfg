SPECIFICATION TraceSpec
CONSTANTS NP = 2 NR = 3 Deviations = {}
CONSTRAINT Accept
POSTCONDITION Post
CHECK_DEADLOCK FALSE
