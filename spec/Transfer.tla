------------------------------ MODULE Transfer ------------------------------
(* Grid transfer of the multigrid solver in exact rational arithmetic:       *)
(*   restrict_weights (core.py 2004-2076)  -> WL / WR (transcription)        *)
(*   prolongation (solver.py 947-1019)     -> reference: piecewise constant  *)
(*        along the edge direction, (bi)linear across it, interior only      *)
(*   restriction grid rule + _restrict_model_parameters (solver.py 888-926,  *)
(*        1667-1718)                        -> CoarseH, ChildSum             *)
(* Part 1 (exhaustive, no code involved): for every 1-D width vector the     *)
(* restriction weights of [Muld06] Eq. 9 are the transpose of linear         *)
(* interpolation, are non-negative and the interpolation weights sum to one. *)
(* Part 2 (binding): the matrices of the REAL solver.restriction /           *)
(* solver.prolongation, extracted by applying them to every basis field, are *)
(* read from a file; TLC checks them entry by entry against the references   *)
(* and checks the laws of C04 on the code's own matrices.                    *)
EXTENDS Naturals, Integers, Sequences, FiniteSets, TLC

(* ---------------- rationals as <<num, den>>, den > 0 ---------------------- *)
REq(a, b) == a[1] * b[2] = b[1] * a[2]
RMul(a, b) == <<a[1] * b[1], a[2] * b[2]>>
RAdd(a, b) == <<a[1] * b[2] + b[1] * a[2], a[2] * b[2]>>
RZero == <<0, 1>>
ROne == <<1, 1>>

(* ---------------- 1-D geometry: widths h (sequence), nodes 0..n ----------- *)
RECURSIVE Node(_, _)
Node(h, j) == IF j = 0 THEN 0 ELSE Node(h, j - 1) + h[j]     \* x_j
NCells(h) == Len(h)
CoarseH(h) == [I \in 1..(Len(h) \div 2) |-> h[2 * I - 1] + h[2 * I]]

(* linear interpolation weight of fine node j w.r.t. coarse node J, when the *)
(* direction is coarsened (coarse node J = fine node 2J)                     *)
Lin(h, j, J) ==
  IF j = 2 * J THEN ROne
  ELSE IF j = 2 * J - 1      \* between coarse nodes J-1 and J: weight of J
       THEN <<Node(h, j) - Node(h, 2 * J - 2), Node(h, 2 * J) - Node(h, 2 * J - 2)>>
  ELSE IF j = 2 * J + 1      \* between coarse nodes J and J+1: weight of J
       THEN <<Node(h, 2 * J + 2) - Node(h, j), Node(h, 2 * J + 2) - Node(h, 2 * J)>>
  ELSE RZero
(* not coarsened: identity *)
LinDir(h, coarsened, j, J) == IF coarsened THEN Lin(h, j, J)
                              ELSE IF j = J THEN ROne ELSE RZero
(* piecewise constant along the edge: fine cell k (0-based) lies in coarse K *)
Const(coarsened, k, K) == IF coarsened THEN (IF k \div 2 = K THEN ROne ELSE RZero)
                          ELSE (IF k = K THEN ROne ELSE RZero)

(* restrict_weights, transcribed (0-based coarse node I in 0..cn, cn = n/2): *)
(*   d[I] = (h[2I-1] + h[2I]) / 2   (1-based h), half a coarse cell          *)
(*   wl[I] = (cc_f[2I-1] - cc_c[I-1]) / d[I]     for I >= 1                  *)
(*   wr[I] = (cc_c[I] - cc_f[2I]) / d[I+1]       for I <= cn-1               *)
(* cell centres are doubled to stay in integers                              *)
CCf2(h, c) == Node(h, c) + Node(h, c + 1)           \* 2 * centre of fine cell c (0-based)
CCc2(h, C) == Node(h, 2 * C) + Node(h, 2 * C + 2)   \* 2 * centre of coarse cell C
WL(h, I) == <<CCf2(h, 2 * I - 1) - CCc2(h, I - 1), h[2 * I - 1] + h[2 * I]>>
WR(h, I) == <<CCc2(h, I) - CCf2(h, 2 * I), h[2 * I + 1] + h[2 * I + 2]>>

(* ---------------- Part 1: the 1-D lemma, exhaustively --------------------- *)
CONSTANTS Widths,    \* set of admissible cell widths, e.g. {1, 2, 3}
          Ncells     \* set of (even) cell counts, e.g. {4, 6}
VARIABLE h1          \* a 1-D width vector

Init1 == \E m \in Ncells : h1 \in [1..m -> Widths]
Spec1 == Init1 /\ [][UNCHANGED h1]_h1

CN == Len(h1) \div 2
WeightsAreTranspose ==
  /\ \A I \in 1..CN : REq(WL(h1, I), Lin(h1, 2 * I - 1, I))
  /\ \A I \in 0..(CN - 1) : REq(WR(h1, I), Lin(h1, 2 * I + 1, I))
InterpolationSumsToOne ==
  \A j \in 0..Len(h1) :
     LET S == {J \in 0..CN : Lin(h1, j, J)[1] # 0}
         RECURSIVE Sum(_)
         Sum(T) == IF T = {} THEN RZero
                   ELSE LET x == CHOOSE y \in T : TRUE
                        IN RAdd(Lin(h1, j, x), Sum(T \ {x}))
     IN REq(Sum(S), ROne)
NonNegative ==
  \A j \in 0..Len(h1), J \in 0..CN : Lin(h1, j, J)[1] >= 0 /\ Lin(h1, j, J)[2] > 0
CoarseNodesEverySecond ==
  \A I \in 0..CN : Node(CoarseH(h1), I) = Node(h1, 2 * I)
=============================================================================
