---------------------------- MODULE TransferCode ----------------------------
(* Part 2 of Transfer: the matrices of the real emg3d.solver.restriction and *)
(* emg3d.solver.prolongation (one instance = grid widths + coarsening        *)
(* pattern), read from a file, are checked by TLC against the references of  *)
(* Transfer.tla and against the laws of C04.                                 *)
(*                                                                           *)
(* Instance record (written by harness/c04.py):                              *)
(*   h     <<hx, hy, hz>>     integer cell widths                            *)
(*   sc    coarsening pattern 0..6 (as restriction() / prolongation() take)  *)
(*   ch    <<chx, chy, chz>>  coarse widths the code produced                *)
(*   prow  <<c, i, j, k, <<I, J, K, num, den>>...>>  rows of P (fine edge)   *)
(*   rrow  <<c, I, J, K, <<i, j, k, num, den>>...>>  rows of R (coarse edge) *)
(*   par   <<I, J, K, val>>   restricted model parameter of the fine         *)
(*                            parameter  1 + i + 16 j + 256 k                *)
EXTENDS Transfer, Json, IOUtils, TLCExt

ASSUME TLCSet(1, {})
ASSUME TLCSet(3, {})
Insts == JsonDeserialize(IOEnv.TRACE_FILE)
VARIABLE iid
X == Insts[iid]

InitC == iid \in 1..Len(Insts) /\ h1 = <<1, 1>>
SpecC == InitC /\ [][UNCHANGED <<iid, h1>>]_<<iid, h1>>

Kept(p) == CASE p = 0 -> {} [] p = 1 -> {1} [] p = 2 -> {2} [] p = 3 -> {3}
             [] p = 4 -> {2, 3} [] p = 5 -> {1, 3} [] p = 6 -> {1, 2}
Coars(d) == d \notin Kept(X.sc)          \* direction d is coarsened
H(d) == X.h[d]
N(d) == Len(H(d))
CNum(d) == IF Coars(d) THEN N(d) \div 2 ELSE N(d)

(* an edge <<c, a1, a2, a3>> : index along direction c counts cells, the     *)
(* other two count nodes                                                     *)
InteriorFine(e) == \A d \in 1..3 : d = e[1] \/ (e[d + 1] >= 1 /\ e[d + 1] <= N(d) - 1)
InteriorCoarse(e) == \A d \in 1..3 : d = e[1] \/ (e[d + 1] >= 1 /\ e[d + 1] <= CNum(d) - 1)

(* reference prolongation weight of coarse edge C for fine edge e *)
PRef(e, C) ==
  IF e[1] # C[1] \/ ~InteriorFine(e) THEN RZero
  ELSE LET w(d) == IF d = e[1] THEN Const(Coars(d), e[d + 1], C[d + 1])
                   ELSE LinDir(H(d), Coars(d), e[d + 1], C[d + 1])
       IN RMul(w(1), RMul(w(2), w(3)))

RECURSIVE SumRow(_, _)
SumRow(row, i) == IF i > Len(row) THEN RZero
                  ELSE RAdd(<<row[i][4], row[i][5]>>, SumRow(row, i + 1))

(* rows are complete and in emg3d's own (Fortran) edge order, so the row of *)
(* an edge is found by index arithmetic                                     *)
Dim(c, d, nn(_)) == IF d = c THEN nn(d) ELSE nn(d) + 1
ESize(c, nn(_)) == Dim(c, 1, nn) * Dim(c, 2, nn) * Dim(c, 3, nn)
EIdxG(e, nn(_)) ==
  (IF e[1] = 1 THEN 0 ELSE IF e[1] = 2 THEN ESize(1, nn)
   ELSE ESize(1, nn) + ESize(2, nn))
  + e[2] + Dim(e[1], 1, nn) * (e[3] + Dim(e[1], 2, nn) * e[4]) + 1
PRow(e) == X.prow[EIdxG(e, N)][5]
RRow(C) == X.rrow[EIdxG(C, CNum)][5]
RowKeyOK ==
  /\ Len(X.prow) = ESize(1, N) + ESize(2, N) + ESize(3, N)
  /\ Len(X.rrow) = ESize(1, CNum) + ESize(2, CNum) + ESize(3, CNum)
  /\ \A i \in 1..Len(X.prow) :
       EIdxG(<<X.prow[i][1], X.prow[i][2], X.prow[i][3], X.prow[i][4]>>, N) = i
  /\ \A i \in 1..Len(X.rrow) :
       EIdxG(<<X.rrow[i][1], X.rrow[i][2], X.rrow[i][3], X.rrow[i][4]>>, CNum) = i

(* candidates: coarse edges that can carry weight for fine edge e *)
Cand(e) ==
  LET rng(d) == IF d = e[1]
                THEN {IF Coars(d) THEN e[d + 1] \div 2 ELSE e[d + 1]}
                ELSE IF Coars(d)
                     THEN {J \in 0..CNum(d) : 2 * J - 1 <= e[d + 1] /\ e[d + 1] <= 2 * J + 1}
                     ELSE {e[d + 1]}
  IN {<<e[1], a, b, c>> : a \in rng(1), b \in rng(2), c \in rng(3)}

(* ---- the laws ---- *)
(* every entry of the code's P is the reference weight (hence non-zero      *)
(* entries only where the reference has them) ...                           *)
PEntriesAreRef ==
  \A i \in 1..Len(X.prow) :
     LET r == X.prow[i]
         e == <<r[1], r[2], r[3], r[4]>>
     IN \A k \in 1..Len(r[5]) :
          LET t == r[5][k] IN
            REq(<<t[4], t[5]>>, PRef(e, <<r[1], t[1], t[2], t[3]>>))
(* ... and every non-zero reference weight appears in the code's P *)
PRefEntriesPresent ==
  \A c \in 1..3 :
    \A a \in 0..(IF c = 1 THEN N(1) - 1 ELSE N(1)),
       b \in 0..(IF c = 2 THEN N(2) - 1 ELSE N(2)),
       g \in 0..(IF c = 3 THEN N(3) - 1 ELSE N(3)) :
       LET e == <<c, a, b, g>> IN
         \A C \in Cand(e) :
            PRef(e, C)[1] # 0 =>
               LET row == PRow(e) IN
               \E k \in 1..Len(row) :
                     <<row[k][1], row[k][2], row[k][3]>> = <<C[2], C[3], C[4]>>
(* prolongation never writes boundary edges; weights non-negative; they sum *)
(* to one for every interior fine edge                                      *)
BoundaryUntouched ==
  \A i \in 1..Len(X.prow) :
     LET r == X.prow[i] IN Len(r[5]) > 0 => InteriorFine(<<r[1], r[2], r[3], r[4]>>)
NonNegativeCode ==
  \A i \in 1..Len(X.prow) : \A k \in 1..Len(X.prow[i][5]) :
     X.prow[i][5][k][4] >= 0 /\ X.prow[i][5][k][5] > 0
RowSumOne ==
  \A i \in 1..Len(X.prow) :
     LET r == X.prow[i] IN
       InteriorFine(<<r[1], r[2], r[3], r[4]>>) => REq(SumRow(r[5], 1), ROne)
(* restriction = prolongation^T on interior coarse x interior fine edges *)
PAt(e, C) ==
  LET row == PRow(e)
      S == {k \in 1..Len(row) :
              <<row[k][1], row[k][2], row[k][3]>> = <<C[2], C[3], C[4]>>}
  IN IF S = {} THEN RZero
     ELSE LET k == CHOOSE x \in S : TRUE IN <<row[k][4], row[k][5]>>
RestrictionIsTranspose ==
  /\ \A ri \in 1..Len(X.rrow) :       \* R entries equal P^T
       LET r == X.rrow[ri]
           C == <<r[1], r[2], r[3], r[4]>> IN
         InteriorCoarse(C) =>
           \A k \in 1..Len(r[5]) :
              LET t == r[5][k]
                  e == <<r[1], t[1], t[2], t[3]>>
              IN InteriorFine(e) => REq(<<t[4], t[5]>>, PAt(e, C))
  /\ \A i \in 1..Len(X.prow) : \* P entries appear in R
       LET r == X.prow[i]
           e == <<r[1], r[2], r[3], r[4]>>
       IN \A k \in 1..Len(r[5]) :
            LET t == r[5][k]
                C == <<r[1], t[1], t[2], t[3]>>
            IN (InteriorCoarse(C) /\ t[4] # 0) =>
                 LET q == RRow(C) IN
                    \E m \in 1..Len(q) :
                         /\ <<q[m][1], q[m][2], q[m][3]>> = <<e[2], e[3], e[4]>>
                         /\ REq(<<q[m][4], q[m][5]>>, <<t[4], t[5]>>)
(* coarse grid: every second node in the coarsened directions *)
CoarseGridRule ==
  \A d \in 1..3 : X.ch[d] = (IF Coars(d) THEN CoarseH(H(d)) ELSE H(d))
(* each coarse model parameter is the sum of its 2 / 4 / 8 children *)
Fine(i, j, k) == 1 + i + 16 * j + 256 * k
Children(d, I) == IF Coars(d) THEN {2 * I, 2 * I + 1} ELSE {I}
RECURSIVE SetSum(_)
SetSum(S) == IF S = {} THEN 0
             ELSE LET x == CHOOSE y \in S : TRUE IN x[4] + SetSum(S \ {x})
ModelSum ==
  \A i \in 1..Len(X.par) :
     LET p == X.par[i] IN
       p[4] = SetSum({<<a, b, c, Fine(a, b, c)>> :
                        a \in Children(1, p[1]), b \in Children(2, p[2]),
                        c \in Children(3, p[3])})
ModelComplete == Len(X.par) = CNum(1) * CNum(2) * CNum(3)

InvTable == <<
  <<"PEntriesAreRef", PEntriesAreRef>>, <<"PRefEntriesPresent", PRefEntriesPresent>>,
  <<"BoundaryUntouched", BoundaryUntouched>>, <<"NonNegativeCode", NonNegativeCode>>,
  <<"RowSumOne", RowSumOne>>, <<"RowKeyOK", RowKeyOK>>,
  <<"RestrictionIsTranspose", RestrictionIsTranspose>>,
  <<"CoarseGridRule", CoarseGridRule>>, <<"ModelSum", ModelSum>>,
  <<"ModelComplete", ModelComplete>>, <<"ObsFlags", X.obs>> >>
Failed == {InvTable[i][1] : i \in {j \in 1..Len(InvTable) : ~InvTable[j][2]}}
Accept ==
  /\ IF Failed # {} THEN TLCSet(3, TLCGet(3) \cup {<<iid, f>> : f \in Failed})
     ELSE TLCSet(1, TLCGet(1) \cup {iid})
Post ==
  /\ PrintT(<<"VP", "ntraces", Len(Insts)>>)
  /\ PrintT(<<"VP", "rejected", {}>>)
  /\ PrintT(<<"VP", "invfail", TLCGet(3)>>)
=============================================================================
