---------------------------- MODULE OperatorCode ----------------------------
(* The matrix of the real emg3d.core.amat_x (compiled kernel; the harness    *)
(* also compares it with the kernel's Python source), extracted by basis     *)
(* fields on grids with dyadic widths and integer material arrays, checked   *)
(* by TLC against Operator.tla's first-principles operator.                  *)
(* Instance (harness/c02.py): h, zeta[i][j][k], etax/etay/etaz as <<re,im>>  *)
(* arrays, rows = <<c,i,j,k, <<c',i',j',k', re64, im64>>...>> complete and   *)
(* in emg3d's edge order, entries multiplied by 64 (exact integers).         *)
EXTENDS Operator, Json, IOUtils, TLCExt

ASSUME TLCSet(1, {})
ASSUME TLCSet(3, {})
Insts == JsonDeserialize(IOEnv.TRACE_FILE)
VARIABLE iid
X == Insts[iid]
InitC == iid \in 1..Len(Insts) /\ hg = <<<<1>>, <<1>>, <<1>>>>
SpecC == InitC /\ [][UNCHANGED <<iid, hg>>]_<<iid, hg>>

H == X.h
Nn(d) == Len(H[d])
Dim(c, d) == IF d = c THEN Nn(d) ELSE Nn(d) + 1
ESize(c) == Dim(c, 1) * Dim(c, 2) * Dim(c, 3)
EIdx(e) == (IF e[1] = 1 THEN 0 ELSE IF e[1] = 2 THEN ESize(1) ELSE ESize(1) + ESize(2))
           + e[2] + Dim(e[1], 1) * (e[3] + Dim(e[1], 2) * e[4]) + 1
Row(e) == X.rows[EIdx(e)][5]
RowKeyOK ==
  /\ Len(X.rows) = ESize(1) + ESize(2) + ESize(3)
  /\ \A i \in 1..Len(X.rows) :
        EIdx(<<X.rows[i][1], X.rows[i][2], X.rows[i][3], X.rows[i][4]>>) = i

Zeta(i, j, k) == X.zeta[i + 1][j + 1][k + 1]
Eta(c, i, j, k) == (IF c = 1 THEN X.etax ELSE IF c = 2 THEN X.etay ELSE X.etaz)[i + 1][j + 1][k + 1]
(* zeta_a + zeta_b of the two cells adjacent to interior face f *)
W(f) == LET lo == Shift(f, f[1], -1) IN Zeta(lo[2], lo[3], lo[4]) + Zeta(f[2], f[3], f[4])
(* sum over the four cells around interior edge e, <<re, im>> *)
Sum4Eta(e) ==
  LET a == NextDir(e[1])
      b == NextDir(a)
      cells == {e, Shift(e, a, -1), Shift(e, b, -1), Shift(Shift(e, a, -1), b, -1)}
      re(x) == <<Eta(e[1], x[2], x[3], x[4])[1], 1>>
      im(x) == <<Eta(e[1], x[2], x[3], x[4])[2], 1>>
  IN <<RSumSet(cells, re)[1], RSumSet(cells, im)[1]>>

(* 64 * FitRef(e, e2) as <<re, im>> rationals *)
Fit64(e, e2) ==
  LET common == EdgeFaces(H, e) \cap EdgeFaces(H, e2)
      t(f) == RMul(RMul(D(H, f, e), <<W(f), 1>>), D(H, f, e2))
      cc == RMul(<<32, 1>>, RSumSet(common, t))            \* 64 * 1/2
      s4 == Sum4Eta(e)
  IN IF e = e2 THEN <<RAdd(cc, <<0 - 16 * s4[1], 1>>), <<0 - 16 * s4[2], 1>>>>
     ELSE <<cc, RZero>>

Neighbours(e) == UNION {FaceEdges(f) : f \in EdgeFaces(H, e)}
InteriorEdges ==
  {e \in (1..3) \X (0..Nn(1)) \X (0..Nn(2)) \X (0..Nn(3)) : InteriorEdge(H, e)}
CodeAt(e, e2) ==
  LET row == Row(e)
      S == {k \in 1..Len(row) : <<row[k][1], row[k][2], row[k][3], row[k][4]>> = e2}
  IN IF S = {} THEN <<0, 0>>
     ELSE LET k == CHOOSE x \in S : TRUE IN <<row[k][5], row[k][6]>>

(* on every interior edge the kernel returns what the assembled operator    *)
(* returns (for fields with vanishing tangential boundary values)           *)
RowsAreFIT ==
  \A e \in InteriorEdges :
     /\ \A e2 \in {x \in Neighbours(e) : InteriorEdge(H, x)} :
          LET r == Fit64(e, e2)
              c == CodeAt(e, e2)
          IN REq(<<c[1], 1>>, r[1]) /\ REq(<<c[2], 1>>, r[2])
     /\ \A k \in 1..Len(Row(e)) :
          LET t == Row(e)[k]
              e2 == <<t[1], t[2], t[3], t[4]>>
          IN (InteriorEdge(H, e2) /\ e2 \notin Neighbours(e)) => (t[5] = 0 /\ t[6] = 0)
(* complex-symmetric on the interior block *)
Symmetric ==
  \A e \in InteriorEdges : \A k \in 1..Len(Row(e)) :
     LET t == Row(e)[k]
         e2 == <<t[1], t[2], t[3], t[4]>>
     IN InteriorEdge(H, e2) => CodeAt(e2, e) = <<t[5], t[6]>>
(* the curl-curl part (instances with eta = 0) annihilates every discrete   *)
(* gradient of a potential supported on interior nodes                      *)
InteriorNodes == (1..(Nn(1) - 1)) \X (1..(Nn(2) - 1)) \X (1..(Nn(3) - 1))
RECURSIVE RowDotG(_, _, _)
RowDotG(row, k, n) ==
  IF k > Len(row) THEN RZero
  ELSE RAdd(RMul(<<row[k][5], 1>>, G(H, <<row[k][1], row[k][2], row[k][3], row[k][4]>>, n)),
            RowDotG(row, k + 1, n))
CurlGradZeroCode ==
  X.etazero => \A e \in InteriorEdges : \A n \in InteriorNodes :
                  RowDotG(Row(e), 1, n)[1] = 0
(* boundary rows: the kernel leaves tangential boundary edges alone, apart  *)
(* from the eta term on the lower boundaries (documented: computed, assumed *)
(* zero field)                                                              *)
BoundaryRowsDiagonal ==
  \A i \in 1..Len(X.rows) :
     LET r == X.rows[i]
         e == <<r[1], r[2], r[3], r[4]>>
     IN ~InteriorEdge(H, e) =>
          \A k \in 1..Len(r[5]) : <<r[5][k][1], r[5][k][2], r[5][k][3], r[5][k][4]>> = e

InvTable == << <<"RowKeyOK", RowKeyOK>>, <<"RowsAreFIT", RowsAreFIT>>,
               <<"Symmetric", Symmetric>>, <<"CurlGradZeroCode", CurlGradZeroCode>>,
               <<"BoundaryRowsDiagonal", BoundaryRowsDiagonal>>,
               <<"Observations", X.obs>> >>
Failed == {InvTable[i][1] : i \in {j \in 1..Len(InvTable) : ~InvTable[j][2]}}
Accept ==
  /\ IF Failed # {} THEN TLCSet(3, TLCGet(3) \cup {<<iid, f>> : f \in Failed})
     ELSE TLCSet(1, TLCGet(1) \cup {iid})
Post ==
  /\ PrintT(<<"VP", "ntraces", Len(Insts)>>)
  /\ PrintT(<<"VP", "rejected", {}>>)
  /\ PrintT(<<"VP", "invfail", TLCGet(3)>>)
=============================================================================
