------------------------------- MODULE GridOpts -------------------------------
(* meshes.estimate_gridding_opts: where each argument of construct_mesh comes  *)
(* from when a Simulation builds its computational grids automatically         *)
(* (documentation of estimate_gridding_opts).  A decision table:               *)
(*   pass-through keys  handed on iff given, unchanged                         *)
(*   mapping            given, else the model's                                *)
(*   frequency, center  given, else estimated from the survey                  *)
(*   properties         given, else estimated from the model                   *)
(*   vector             given (a string selects node vectors of the model      *)
(*                      grid), else None;  distance: given, else None          *)
(*   domain, per direction: the given domain > (None if a distance is given:   *)
(*                      construct_mesh derives it) > extent of the given       *)
(*                      vector > extent of the survey plus 10 % a side; only   *)
(*                      survey-derived extents are widened by the ratio rules  *)
(*   anything else      TypeError                                              *)
(* TLC checks the laws below for every combination of given keys and every     *)
(* per-direction provenance, and (GridOptsCode) the classification of what the *)
(* REAL function returned (harness/c16.py compares every returned value with   *)
(* the given one and with its own estimates).                                  *)
EXTENDS Naturals, Sequences, FiniteSets, TLC

Pass == {"seasurface", "cell_numbers", "lambda_factor", "lambda_from_center",
         "max_buffer", "verb", "stretching", "min_width_limits",
         "min_width_pps", "center_on_edge"}
Est == {"mapping", "frequency", "center", "properties"}
Opt == {"vector", "distance"}
Keys == Pass \cup Est \cup Opt \cup {"domain"}
Provs == {"domain", "distance", "vector", "survey"}

(* expected origin of the value of `key` in the returned dict *)
Expect(key, given, vecstr) ==
  CASE key \in Pass -> IF key \in given THEN "given" ELSE "absent"
    [] key \in {"mapping", "properties"} -> IF key \in given THEN "given" ELSE "model"
    [] key \in {"frequency", "center"} -> IF key \in given THEN "given" ELSE "survey"
    [] key = "vector" -> IF key \in given THEN (IF vecstr THEN "grid" ELSE "given")
                         ELSE "none"
    [] key = "distance" -> IF key \in given THEN "given" ELSE "none"
(* expected origin of the domain in one direction *)
ExpectDom(p) == CASE p = "domain" -> "given" [] p = "distance" -> "none"
                  [] p = "vector" -> "vector" [] OTHER -> "survey"

VARIABLE st
Init == st \in [given : SUBSET (Est \cup Opt \cup {"stretching", "seasurface"}),
                vecstr : BOOLEAN, prov : [1..3 -> Provs]]
        /\ (st.vecstr => "vector" \in st.given)
Spec == Init /\ [][UNCHANGED st]_st
(* a given value is never replaced by an estimate *)
GivenWins == \A k \in st.given : Expect(k, st.given, st.vecstr) \in {"given", "grid"}
(* construct_mesh gets everything it cannot do without *)
Complete == \A k \in Est : Expect(k, st.given, st.vecstr) # "absent"
(* estimates are made only for what is missing *)
EstimateOnlyMissing ==
  \A k \in Est \cup Opt : Expect(k, st.given, st.vecstr) \in {"model", "survey", "none"}
                            => k \notin st.given
(* per direction: the documented priority; a user-provided extent is final *)
DomainPriority ==
  \A d \in 1..3 : (ExpectDom(st.prov[d]) = "survey") = (st.prov[d] = "survey")
=============================================================================
