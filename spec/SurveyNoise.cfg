SPECIFICATION Spec
CONSTANTS
  MaxOps = 3
  Deviations = {}
INVARIANT TypeOK
INVARIANT NeverHalved
PROPERTY OnlyAssignmentsChangeNoise
PROPERTY SelectIsSubcube
PROPERTY NaNMonotone
CHECK_DEADLOCK FALSE
