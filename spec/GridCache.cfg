SPECIFICATION Spec
CONSTANTS
  Srcs = {1, 2}
  Freqs = {1, 2}
  Modes = {"same", "single", "frequency", "source", "both", "input", "dict"}
  MaxOps = 0
  Deviations = {}
INVARIANT TypeOK
INVARIANT FreshGrid
INVARIANT NeverFails
INVARIANT CachesCoherent
INVARIANT Sharing
CHECK_DEADLOCK FALSE
