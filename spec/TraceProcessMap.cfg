SPECIFICATION TraceSpec
CONSTANTS
  N = 4
  W = 16
  Branches = {"pool", "tqdmpool", "seq", "tqdmseq"}
  MaxBatches = 1000
CONSTRAINT Accept
POSTCONDITION Post
PROPERTY Idempotent
CHECK_DEADLOCK FALSE
