SPECIFICATION SpecC
CONSTANTS
  Widths = {}
  Ncells = {}
CONSTRAINT Accept
POSTCONDITION Post
CHECK_DEADLOCK FALSE
