SPECIFICATION Spec
CONSTANTS
  Pairs = {1, 2}
  MaxModel = 2
  FileMode = FALSE
  MaxOps = 5
  Layered = TRUE
  NObj = 2
  Deviations = {}
INVARIANT TypeOK
INVARIANT FreshResults
INVARIANT CachesCoherent
INVARIANT TolRestored
PROPERTY CopyIndependent
CHECK_DEADLOCK FALSE
