SPECIFICATION TraceSpec
CONSTANTS
  Deviations = {}
CONSTRAINT Accept
POSTCONDITION Post
CHECK_DEADLOCK FALSE
