SPECIFICATION Spec1
CONSTANT MaxNode = 6
INVARIANT Laws
CHECK_DEADLOCK FALSE
