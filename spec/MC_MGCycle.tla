---------------------------- MODULE MC_MGCycle ----------------------------
(* Bounded instances of MGCycle for TLC.                                     *)
EXTENDS MGCycle

Cube(lo, hi) == {<<a, b, c>> : a \in lo..hi, b \in lo..hi, c \in lo..hi}

\* A: every shape 2..12^3, one cycle, single-digit sc, all cycles, clevels
A_Shapes == Cube(2, 12)
A_Cycles == {"V", "W", "F"}
A_ScPats == {<<0>>, <<1>>, <<2>>, <<3>>}
A_LrPats == {<<0>>}
A_CLevels == {-1, 0, 1, 2}
A_MaxIts == {1}
A_NuSets == {<<0, 2, 1, 2>>}

\* B: single direction (n,2,2) and permutations, all admissible n up to 1024
B_Shapes == {<<n, 2, 2>> : n \in 2..1024} \cup {<<2, n, 2>> : n \in 2..1024}
              \cup {<<2, 2, n>> : n \in 2..1024}
B_Cycles == {"V", "F"}
B_ScPats == {<<0>>}
B_LrPats == {<<7>>}
B_CLevels == {-1, 3}
B_MaxIts == {1}
B_NuSets == {<<0, 2, 1, 2>>}

\* C: multi-cycle, cycling patterns, all lr codes, nu variants, shapes 2..8
C_Shapes == Cube(2, 6) \cup {<<8, 2, 2>>, <<2, 8, 2>>, <<3, 3, 16>>, <<8, 3, 2>>, <<8, 8, 8>>, <<8, 4, 2>>, <<2, 8, 4>>, <<6, 8, 3>>, <<8, 2, 8>>}
C_Cycles == {"V", "W", "F"}
C_ScPats == {<<1, 2, 3>>, <<1, 2, 1, 3>>, <<0>>, <<2, 0>>}
C_LrPats == {<<4, 5, 6>>, <<7>>, <<1, 2, 1, 3>>, <<0>>}
C_CLevels == {-1, 1}
C_MaxIts == {4}
C_NuSets == {<<0, 2, 1, 2>>, <<1, 0, 2, 1>>, <<2, 1, 1, 0>>}

\* D: all lr codes on all shapes 2..5 (line-relaxation adaptation)
D_Shapes == Cube(2, 5)
D_Cycles == {"V"}
D_ScPats == {<<0>>}
D_LrPats == {<<0>>, <<1>>, <<2>>, <<3>>, <<4>>, <<5>>, <<6>>, <<7>>}
D_CLevels == {-1}
D_MaxIts == {1}
D_NuSets == {<<1, 1, 1, 1>>}

\* E: preconditioner mode (several level-0 calls), liveness
E_Shapes == {<<4, 4, 4>>, <<8, 4, 2>>, <<3, 6, 12>>, <<2, 2, 2>>}
E_Cycles == {"V", "W", "F"}
E_ScPats == {<<1, 2, 3>>, <<0>>}
E_LrPats == {<<4, 5, 6>>, <<0>>}
E_CLevels == {-1}
E_MaxIts == {3}
E_NuSets == {<<0, 2, 1, 2>>}

\* T (thorough): every shape 2..40^3, default-like settings
T_Shapes == Cube(2, 40)
T_Cycles == {"V", "W", "F"}
T_ScPats == {<<0>>, <<1>>, <<2>>, <<3>>}
T_LrPats == {<<0>>}
T_CLevels == {-1, 0, 1, 2}
T_MaxIts == {1}
T_NuSets == {<<0, 2, 1, 2>>}
=============================================================================
