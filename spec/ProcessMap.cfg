SPECIFICATION FairSpec
CONSTANTS
  N = 4
  W = 3
  Branches = {"pool", "tqdmpool", "seq", "tqdmseq"}
  MaxBatches = 2
INVARIANT TypeOK
INVARIANT OrderPreserved
INVARIANT SlotOwnResult
INVARIANT ExactlyOnce
INVARIANT NoDoubleRun
INVARIANT SeqInOrder
PROPERTY Idempotent
PROPERTY AllStored
CHECK_DEADLOCK FALSE
