SPECIFICATION FairSpec
CONSTANTS
  Shapes <- E_Shapes
  Cycles <- E_Cycles
  ScPats <- E_ScPats
  LrPats <- E_LrPats
  CLevels <- E_CLevels
  MaxIts <- E_MaxIts
  NuSets <- E_NuSets
  MaxCalls = 3
INVARIANT TypeOK
INVARIANT AtLeastTwo
INVARIANT StackShape
INVARIANT HalveOnlyEvenGT2
INVARIANT Progress
INVARIANT NoLRAlongTwoCells
INVARIANT DepthBound
INVARIANT BottomExact
INVARIANT NotBottomCanCoarsen
INVARIANT HeaderShape
INVARIANT CycmaxRule
INVARIANT DocOrder
INVARIANT DocDepth
INVARIANT QCIsFirstCycle
INVARIANT ItBound
PROPERTY AdvanceOncePerCycle
CHECK_DEADLOCK FALSE
PROPERTY Terminates
