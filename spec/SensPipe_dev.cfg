SPECIFICATION Spec
CONSTANTS NP = 2 NR = 2 Deviations = {"InjectNaN"}
INVARIANT AdjointSourcesExact
CHECK_DEADLOCK FALSE
