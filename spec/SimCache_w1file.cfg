SPECIFICATION Spec
CONSTANTS
  Pairs = {1, 2}
  MaxModel = 1
  FileMode = TRUE
  MaxOps = 0
  NObj = 1
  Deviations = {}
CHECK_DEADLOCK FALSE
