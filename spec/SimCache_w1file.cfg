SPECIFICATION Spec
CONSTANTS
  Pairs = {1, 2}
  MaxModel = 1
  FileMode = TRUE
  MaxOps = 0
  Layered = FALSE
  NObj = 1
  Deviations = {}
CHECK_DEADLOCK FALSE
