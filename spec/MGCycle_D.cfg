SPECIFICATION Spec
CONSTANTS
  Shapes <- D_Shapes
  Cycles <- D_Cycles
  ScPats <- D_ScPats
  LrPats <- D_LrPats
  CLevels <- D_CLevels
  MaxIts <- D_MaxIts
  NuSets <- D_NuSets
  MaxCalls = 1
INVARIANT TypeOK
INVARIANT AtLeastTwo
INVARIANT StackShape
INVARIANT HalveOnlyEvenGT2
INVARIANT Progress
INVARIANT NoLRAlongTwoCells
INVARIANT DepthBound
INVARIANT BottomExact
INVARIANT NotBottomCanCoarsen
INVARIANT HeaderShape
INVARIANT CycmaxRule
INVARIANT DocOrder
INVARIANT DocDepth
INVARIANT QCIsFirstCycle
INVARIANT ItBound
PROPERTY AdvanceOncePerCycle
CHECK_DEADLOCK FALSE
