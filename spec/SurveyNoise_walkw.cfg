SPECIFICATION SpecW
CONSTANTS
  MaxOps = 0
  Deviations = {}
CHECK_DEADLOCK FALSE
