SPECIFICATION Spec1
CONSTANTS
  Nodes1 = {0, 2, 4, 8}
  Pts <- PtsDef
  Rads = {1, 2, 3}
  Facs <- FacsDef
  Mnrs <- MnrsDef
INVARIANT SumOne
INVARIANT CylinderInPrism
INVARIANT ContainsPoints
INVARIANT MidCellContains
