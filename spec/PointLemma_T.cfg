SPECIFICATION SpecL
CONSTANTS
  Shapes1 = {}
  Widths1 = {}
  LGrids <- LemmaGrids
INVARIANT PartitionOfUnity
INVARIANT GradientHasNoMagneticResponse
CHECK_DEADLOCK FALSE
