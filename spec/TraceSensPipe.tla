--------------------------- MODULE TraceSensPipe ---------------------------
(* Recorded gradient / jtvec computations of real Simulations validated     *)
(* against SensPipe.  harness/sens.py replaces the numeric kernels by tag    *)
(* writers for the STRUCTURE run (interp_edges_to_vol_averages writes one   *)
(* decimal digit per <<pair, direction>>, the adjoint of the volume         *)
(* averaging and the derivative chain pass tags through and log), so that   *)
(* the content of every row is readable from the result.  Events:           *)
(*  Inject{p, r, posok, strok}  adjoint source created for receiver r of    *)
(*        pair p; at the receiver's absolute position; strength =           *)
(*        conj(residual weight / -s mu_0)                                   *)
(*  BackSolve{p}                                                            *)
(*  Acc{p}                      edge-to-cell averaging called for pair p    *)
(*  Chain{d, content}           derivative_chain called with the property   *)
(*        of direction d on an array holding the contributions `content`    *)
(*  Result{rows, dup}           decoded rows of the returned gradient       *)
(* Folding raw rows into row 1 is an in-place addition without a call: a    *)
(* silent step of the trace specification (at most two per trace).          *)
(* T.obsok: floating-point observations of the REAL (unstubbed) machinery   *)
(* made by the harness for the same problem (C07: finite-difference         *)
(* directional derivatives of the misfit; C08: J v against finite           *)
(* differences of the data, adjointness, jtvec of the weighted residual).   *)
EXTENDS SensPipe, Json, IOUtils, TLCExt

ASSUME TLCSet(1, {})
ASSUME TLCSet(2, <<0, "none">>)
ASSUME TLCSet(3, {})
Traces == JsonDeserialize(IOEnv.TRACE_FILE)
Diag == "TRACE_DIAG" \in DOMAIN IOEnv

VARIABLES tid, l
tvars == <<vars, tid, l>>
T == Traces[tid]
Ev == T.ev[l]
More == l <= Len(T.ev)
ToSet(q) == {<<q[k][1], q[k][2]>> : k \in 1..Len(q)}

TraceInit ==
  /\ tid \in 1..Len(Traces) /\ l = 1
  /\ cf = [case |-> T.case, same |-> T.same,
           fin |-> [t \in Pairs \X Recs |-> T.fin[t[1]][t[2]]]]
  /\ pc = "start" /\ inj = {} /\ solved = {} /\ raw = [d \in Dirs |-> {}]
  /\ dup = FALSE /\ folded = {} /\ chained = <<>> /\ lateAdd = FALSE /\ out = <<>>

Step(a) == More /\ a /\ l' = l + 1 /\ UNCHANGED tid
TInject == /\ More /\ Ev.e = "Inject"
           /\ Ev.p \in Pairs /\ Ev.r \in Recs   \* r = 0: no receiver there
           /\ Step(Inject(Ev.p, Ev.r))
           /\ Ev.posok /\ Ev.strok
TBack == More /\ Ev.e = "BackSolve" /\ Ev.p \in Pairs /\ Step(BackSolve(Ev.p))
TAcc == More /\ Ev.e = "Acc" /\ Ev.p \in Pairs /\ Step(Accumulate(Ev.p))
TChain == /\ More /\ Ev.e = "Chain" /\ Ev.d \in Dirs /\ Step(Chain(Ev.d))
          /\ ToSet(Ev.content) = raw[Ev.d]
TResult == /\ More /\ Ev.e = "Result" /\ Step(Select) /\ ~Ev.dup
           /\ Len(Ev.rows) = Len(out')
           /\ \A k \in 1..Len(Ev.rows) : ToSet(Ev.rows[k]) = out'[k]
Silent == \E d \in {2, 3} : Fold(d) /\ UNCHANGED <<tid, l>>

TraceNext == TInject \/ TBack \/ TAcc \/ TChain \/ TResult \/ Silent
TraceSpec == TraceInit /\ [][TraceNext]_tvars

Complete == ~More /\ pc = "done"
ObsOK == pc = "done" => T.obsok
InvTable == << <<"AdjointSourcesExact", AdjointSourcesExact>>,
               <<"CollectPartition", CollectPartition>>,
               <<"ChainOnce", ChainOnce>>, <<"ShapeRule", ShapeRule>>,
               <<"ObsOK", ObsOK>> >>
Failed == {InvTable[i][1] : i \in {j \in 1..Len(InvTable) : ~InvTable[j][2]}}
Accept ==
  /\ IF Failed # {}
     THEN TLCSet(3, TLCGet(3) \cup {<<tid, f>> : f \in Failed}) ELSE TRUE
  /\ IF Complete THEN TLCSet(1, TLCGet(1) \cup {tid}) ELSE TRUE
  /\ IF Diag /\ l > TLCGet(2)[1]
     THEN TLCSet(2, <<l, [pc |-> pc, inj |-> inj, solved |-> solved, raw |-> raw,
                         folded |-> folded, chained |-> chained]>>)
     ELSE TRUE
Post ==
  /\ PrintT(<<"VP", "ntraces", Len(Traces)>>)
  /\ PrintT(<<"VP", "rejected", (1..Len(Traces)) \ TLCGet(1)>>)
  /\ PrintT(<<"VP", "invfail", TLCGet(3)>>)
  /\ IF Diag THEN PrintT(<<"VP", "maxl", TLCGet(2)[1]>>)
                  /\ PrintT(<<"VP", "laststate", TLCGet(2)[2]>>)
     ELSE TRUE
=============================================================================
