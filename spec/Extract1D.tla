----------------------------- MODULE Extract1D -----------------------------
(* Model.extract_1d (models.py) and maps.ellipse_indices (maps.py): which   *)
(* cells of a layer are averaged into the 1-D model of the layered mode and *)
(* with which weights.  Exact rational arithmetic on instances with integer *)
(* cell centres:                                                            *)
(*   nx, ny   node coordinates (even integers, so cell centres are integers)*)
(*   p0, p1   the two points, integer coordinates with p0+p1 even and       *)
(*            |p1-p0|/2 an integer c (axis parallel or a 3-4-5 direction)   *)
(*   rad      radius (positive integer),  fac, mnr  rationals <<n,d>>,      *)
(*   foci     BOOLEAN,  method in {"midpoint","prism","cylinder"}           *)
(* Reference (first principles, from the documentation of ellipse_indices): *)
(* rotate the offset from the centre into the frame of the ellipse,         *)
(*   u = cos X + sin Y, v = -sin X + cos Y, inside iff (u/a)^2+(v/b)^2 <= 1 *)
(* with a = max(f c, c + r) and b = max(m a, r [, sqrt(a^2-c^2)]);  the     *)
(* code evaluates the expanded quadratic form A X^2 + B X Y + C Y^2.        *)
(* A cell exactly ON the ellipse may come out either way in floating point: *)
(* the reference leaves those cells open (OnEdge).                          *)
EXTENDS Naturals, Integers, Sequences, FiniteSets, TLC

RECURSIVE GCD(_, _)
GCD(a, b) == IF b = 0 THEN a ELSE GCD(b, a % b)
Abs(x) == IF x < 0 THEN 0 - x ELSE x
Norm(q) == IF q[1] = 0 THEN <<0, 1>>
           ELSE LET g == GCD(Abs(q[1]), Abs(q[2]))
                    sg == IF q[2] < 0 THEN 0 - 1 ELSE 1
                IN <<sg * (q[1] \div g), sg * (q[2] \div g)>>
QMul(a, b) == Norm(<<a[1] * b[1], a[2] * b[2]>>)
QAdd(a, b) == LET g == GCD(a[2], b[2])
                  m == (a[2] \div g) * b[2]
              IN Norm(<<a[1] * (m \div a[2]) + b[1] * (m \div b[2]), m>>)
QSub(a, b) == QAdd(a, <<0 - b[1], b[2]>>)
QLeq(a, b) == a[1] * b[2] <= b[1] * a[2]
QLess(a, b) == a[1] * b[2] < b[1] * a[2]
QMax(a, b) == IF QLeq(a, b) THEN b ELSE a
QInt(n) == <<n, 1>>
QSq(a) == QMul(a, a)
QAbs(a) == <<Abs(a[1]), a[2]>>

NCx(I) == Len(I.nx) - 1
NCy(I) == Len(I.ny) - 1
Cx(I, i) == (I.nx[i] + I.nx[i + 1]) \div 2          \* cell centres
Cy(I, j) == (I.ny[j] + I.ny[j + 1]) \div 2
Hx(I, i) == I.nx[i + 1] - I.nx[i]
Hy(I, j) == I.ny[j + 1] - I.ny[j]
Cells(I) == (1..NCx(I)) \X (1..NCy(I))

(* ---- the ellipse ---- *)
MidX(I) == (I.p0[1] + I.p1[1]) \div 2
MidY(I) == (I.p0[2] + I.p1[2]) \div 2
DX(I) == (I.p1[1] - I.p0[1]) \div 2
DY(I) == (I.p1[2] - I.p0[2]) \div 2
CC(I) == CHOOSE n \in 0..64 : n * n = DX(I) * DX(I) + DY(I) * DY(I)
(* semi-major axis a and the squares a^2, b^2 *)
Major(I) == QMax(QMul(QInt(CC(I)), I.fac), QInt(CC(I) + I.rad))
A2(I) == QSq(Major(I))
B2(I) == LET m0 == QMax(QSq(QMul(I.mnr, Major(I))), QInt(I.rad * I.rad))
         IN IF I.foci THEN QMax(m0, QAbs(QSub(A2(I), QInt(CC(I) * CC(I))))) ELSE m0
(* c*u and c*v (or u, v themselves if the points coincide / dy = 0) *)
UU(I, c) == LET X == Cx(I, c[1]) - MidX(I)
                Y == Cy(I, c[2]) - MidY(I)
            IN IF DY(I) = 0 THEN <<X, Y, 1>>
               ELSE <<DX(I) * X + DY(I) * Y, DX(I) * Y - DY(I) * X, CC(I)>>
(* q = u^2 b^2 + v^2 a^2 - a^2 b^2 (times c^2): <= 0 inside or on *)
Q(I, c) == LET w == UU(I, c)
               c2 == QInt(w[3] * w[3])
           IN QSub(QAdd(QMul(QInt(w[1] * w[1]), B2(I)), QMul(QInt(w[2] * w[2]), A2(I))),
                   QMul(c2, QMul(A2(I), B2(I))))
Inside(I, c) == Q(I, c)[1] < 0
OnEdge(I, c) == Q(I, c)[1] = 0
RefMask(I) == {c \in Cells(I) : Inside(I, c) \/ OnEdge(I, c)}

(* ---- the weights for a given mask (set of cells) ---- *)
RECURSIVE SumS(_, _)
SumS(f(_), SS) == IF SS = {} THEN 0
                  ELSE LET e == CHOOSE e \in SS : TRUE IN f(e) + SumS(f, SS \ {e})
Area(I, c) == Hx(I, c[1]) * Hy(I, c[2])
MinOf(SS) == CHOOSE a \in SS : \A b \in SS : a <= b
MaxOf(SS) == CHOOSE a \in SS : \A b \in SS : a >= b
BBox(M) == LET xs == {c[1] : c \in M}
               ys == {c[2] : c \in M}
           IN (MinOf(xs)..MaxOf(xs)) \X (MinOf(ys)..MaxOf(ys))
(* cell containing coordinate x: a point on a node belongs to the cell to   *)
(* its right; points outside are clipped to the first / last cell           *)
IndexOf(nodes, x) ==
  LET n == Len(nodes) - 1
      k == Cardinality({i \in 1..Len(nodes) : nodes[i] <= x})     \* nodes left of or at x
  IN IF k = 0 THEN 1 ELSE IF k > n THEN n ELSE k
(* doubled midpoint coordinate compared with doubled nodes (midpoint may be *)
(* a half integer)                                                          *)
IndexOf2(nodes, x2) ==
  LET n == Len(nodes) - 1
      k == Cardinality({i \in 1..Len(nodes) : 2 * nodes[i] <= x2})
  IN IF k = 0 THEN 1 ELSE IF k > n THEN n ELSE k
MidCell(I) == <<IndexOf2(I.nx, I.p0[1] + I.p1[1]), IndexOf2(I.ny, I.p0[2] + I.p1[2])>>

(* support and (unnormalised) weight of the reference for mask M *)
Support(I, M) ==
  IF I.method = "midpoint" \/ M = {} THEN {MidCell(I)}
  ELSE IF I.method = "cylinder" THEN M ELSE BBox(M)
RefW(I, M, c) ==      \* <<num, den>>
  IF c \notin Support(I, M) THEN <<0, 1>>
  ELSE IF I.method = "midpoint" \/ M = {} THEN <<1, 1>>
  ELSE LET f(e) == Area(I, e) IN Norm(<<Area(I, c), SumS(f, Support(I, M))>>)

(* ---- Part 1: laws of the reference on every instance of a bounded family *)
CONSTANTS Nodes1, Pts, Rads, Facs, Mnrs
VARIABLE inst
PtsDef == {<<1, 1>>, <<3, 1>>, <<7, 9>>, <<5, 5>>, <<4, 2>>, <<0 - 1, 3>>, <<3, 7>>}
FacsDef == {<<1, 1>>, <<6, 5>>, <<2, 1>>}
MnrsDef == {<<1, 1>>, <<4, 5>>, <<1, 2>>}
Grids1 == {q \in UNION {[1..n -> Nodes1] : n \in 2..4} :
             \A i \in 1..(Len(q) - 1) : q[i] < q[i + 1]}
PairOK(a, b) == LET dx == b[1] - a[1]
                    dy == b[2] - a[2]
                IN /\ dx % 2 = 0 /\ dy % 2 = 0
                   /\ \E n \in 0..64 : 4 * n * n = dx * dx + dy * dy
(* Init chooses the geometry, one step the ellipse settings and the method: *)
(* the laws are evaluated on the successor states, by all TLC workers       *)
Init1 == inst \in [nx : Grids1, ny : Grids1, p0 : Pts, p1 : Pts, ready : {FALSE}]
         /\ PairOK(inst.p0, inst.p1)
Next1 == /\ ~inst.ready
         /\ \E r \in Rads, f \in Facs, m \in Mnrs, fo \in BOOLEAN,
               me \in {"midpoint", "prism", "cylinder"} :
              inst' = [nx |-> inst.nx, ny |-> inst.ny, p0 |-> inst.p0, p1 |-> inst.p1,
                       rad |-> r, fac |-> f, mnr |-> m, foci |-> fo, method |-> me,
                       ready |-> TRUE]
Spec1 == Init1 /\ [][Next1]_inst

SumOne == inst.ready =>
  LET M == RefMask(inst)
      Sp == Support(inst, M)
      g(e) == Area(inst, e)
      tot == SumS(g, Sp)
  IN /\ Sp # {}
     /\ \A c \in Cells(inst) : QLeq(<<0, 1>>, RefW(inst, M, c))
     /\ IF inst.method = "midpoint" \/ M = {} THEN Cardinality(Sp) = 1
        ELSE \A c \in Sp : RefW(inst, M, c)[1] * tot = Area(inst, c) * RefW(inst, M, c)[2]
CylinderInPrism == inst.ready =>
  LET M == RefMask(inst) IN M # {} => (M \subseteq BBox(M) /\ BBox(M) \subseteq Cells(inst))
(* a cell centred on one of the two points or on the midpoint is selected   *)
ContainsPoints == inst.ready =>
  \A c \in Cells(inst) :
     LET x == Cx(inst, c[1])
         y == Cy(inst, c[2])
     IN (<<x, y>> = inst.p0 \/ <<x, y>> = inst.p1 \/ <<x, y>> = <<MidX(inst), MidY(inst)>>)
          => c \in RefMask(inst)
MidCellContains == inst.ready =>
  LET c == MidCell(inst)
      x2 == inst.p0[1] + inst.p1[1]
  IN /\ c \in Cells(inst)
     /\ (2 * inst.nx[1] <= x2 /\ x2 < 2 * inst.nx[Len(inst.nx)]) =>
           (2 * inst.nx[c[1]] <= x2 /\ x2 < 2 * inst.nx[c[1] + 1])
=============================================================================
