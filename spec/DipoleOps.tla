------------------------------ MODULE DipoleOps ------------------------------
(* Finite dipoles / wires on a tensor grid (fields.py _dipole_vector 792-938)*)
(* in exact rational arithmetic, all coordinates doubled (integers).         *)
(* Reference (first principles, independent of the code's per-cell loop):    *)
(* cut the segment at every node plane it crosses; each piece lies in one    *)
(* cell (or on a face shared by cells, where the weights agree); a piece     *)
(* contributes its fraction of the segment to the edges of that cell with    *)
(* the multilinear weights of its midpoint; component c of the vector is     *)
(* that distribution times the c-extent of the segment.                      *)
(* TLC checks the vector of the REAL _dipole_vector (entries extracted by    *)
(* harness/c10.py) against the reference, and the laws of C10 on the code's  *)
(* own numbers: per component the entries sum to the electrode difference,   *)
(* only edges of cells touched by the segment carry a contribution, all      *)
(* entries have the sign of the extent.                                      *)
EXTENDS Operator, Json, IOUtils, TLCExt

RECURSIVE GCD(_, _)
GCD(a, b) == IF b = 0 THEN a ELSE GCD(b, a % b)
Abs(x) == IF x < 0 THEN 0 - x ELSE x
Norm(r) == IF r[1] = 0 THEN <<0, 1>>
           ELSE LET g == GCD(Abs(r[1]), Abs(r[2]))
                    s == IF r[2] < 0 THEN 0 - 1 ELSE 1
                IN <<s * (r[1] \div g), s * (r[2] \div g)>>
QMul(a, b) == Norm(<<a[1] * b[1], a[2] * b[2]>>)
(* addition over the least common denominator (keeps TLC's 32-bit integers *)
(* far from overflow)                                                      *)
QAdd(a, b) == LET g == GCD(a[2], b[2])
                  l == (a[2] \div g) * b[2]
              IN Norm(<<a[1] * (l \div a[2]) + b[1] * (l \div b[2]), l>>)
QSub(a, b) == QAdd(a, <<0 - b[1], b[2]>>)
QLess(a, b) == a[1] * b[2] < b[1] * a[2]
QLeq(a, b) == a[1] * b[2] <= b[1] * a[2]

RECURSIVE Nd2(_, _, _)
Nd2(h, d, j) == IF j = 0 THEN 0 ELSE Nd2(h, d, j - 1) + 2 * HW(h, d, j - 1)

ASSUME TLCSet(1, {})
ASSUME TLCSet(3, {})
Insts == JsonDeserialize(IOEnv.TRACE_FILE)
VARIABLE iid
X == Insts[iid]
InitC == iid \in 1..Len(Insts) /\ hg = <<<<1>>, <<1>>, <<1>>>>
SpecC == InitC /\ [][UNCHANGED <<iid, hg>>]_<<iid, hg>>

Hh == X.h
P0 == X.p0          \* doubled coordinates of the first electrode
P1 == X.p1
Del(d) == P1[d] - P0[d]
(* position along axis d at parameter t (rational), doubled *)
Pos(d, t) == Norm(<<P0[d] * t[2] + t[1] * Del(d), t[2]>>)
(* parameters at which the segment crosses a node plane, strictly inside *)
Breaks ==
  {<<0, 1>>, <<1, 1>>} \cup
  {t \in UNION {{Norm(<<Nd2(Hh, d, m) - P0[d], Del(d)>>) : m \in 0..NN(Hh, d)} :
                  d \in {x \in 1..3 : Del(x) # 0}} :
     QLess(<<0, 1>>, t) /\ QLess(t, <<1, 1>>)}
RECURSIVE SortQ(_)
SortQ(S) == IF S = {} THEN <<>>
            ELSE LET m == CHOOSE a \in S : \A b \in S : QLeq(a, b)
                 IN <<m>> \o SortQ(S \ {m})
Cuts == SortQ(Breaks)
Pieces == {<<Cuts[i], Cuts[i + 1]>> : i \in 1..(Len(Cuts) - 1)}
Mid(pc) == QMul(QAdd(pc[1], pc[2]), <<1, 2>>)
Frac(pc) == QSub(pc[2], pc[1])
(* cell (0-based) containing rational doubled coordinate x along d; a point *)
(* on a node plane belongs to the upper cell (last cell at the end)         *)
CellQ(d, x) == CHOOSE c \in 0..(NN(Hh, d) - 1) :
   /\ Nd2(Hh, d, c) * x[2] <= x[1]
   /\ (x[1] < Nd2(Hh, d, c + 1) * x[2] \/ (c = NN(Hh, d) - 1 /\ x[1] = Nd2(Hh, d, c + 1) * x[2]))
(* hat weight of node j for rational coordinate x *)
HatQ(d, x, j) ==
  LET c == CellQ(d, x)
      w == 2 * HW(Hh, d, c)
  IN IF j = c THEN Norm(<<Nd2(Hh, d, c + 1) * x[2] - x[1], w * x[2]>>)
     ELSE IF j = c + 1 THEN Norm(<<x[1] - Nd2(Hh, d, c) * x[2], w * x[2]>>)
     ELSE <<0, 1>>
(* contribution of a piece to edge e of component c (fraction of length) *)
PieceW(pc, e) ==
  LET m == Mid(pc)
      w(d) == IF d = e[1] THEN (IF CellQ(d, Pos(d, m)) = e[d + 1] THEN <<1, 1>> ELSE <<0, 1>>)
              ELSE HatQ(d, Pos(d, m), e[d + 1])
  IN QMul(Frac(pc), QMul(w(1), QMul(w(2), w(3))))

QSumSetF(S, f(_)) == FoldSet(LAMBDA x, acc : QAdd(f(x), acc), <<0, 1>>, S)
(* reference entry (in units of length: doubled extent / 2) *)
RefDip(e) ==
  LET t(pc) == PieceW(pc, e)
  IN QMul(<<Del(e[1]), 2>>, QSumSetF(Pieces, t))

Ent == X.ent          \* <<c, i, j, k, num, den>> of the real _dipole_vector
EntriesAreRef ==
  \A k \in 1..Len(Ent) :
     Norm(<<Ent[k][5], Ent[k][6]>>) = RefDip(<<Ent[k][1], Ent[k][2], Ent[k][3], Ent[k][4]>>)
(* bounding box of cells the segment can touch *)
Lo(d) == IF P0[d] <= P1[d] THEN P0[d] ELSE P1[d]
Hi(d) == IF P0[d] <= P1[d] THEN P1[d] ELSE P0[d]
BoxEdges(c) ==
  {e \in {c} \X (0..NN(Hh, 1)) \X (0..NN(Hh, 2)) \X (0..NN(Hh, 3)) :
     /\ EdgeOK(Hh, e)
     /\ \A d \in 1..3 :
          LET lo == IF d = c THEN Nd2(Hh, d, e[d + 1]) ELSE Nd2(Hh, d, IF e[d+1] = 0 THEN 0 ELSE e[d + 1] - 1)
              hi == IF d = c THEN Nd2(Hh, d, e[d + 1] + 1)
                    ELSE Nd2(Hh, d, IF e[d+1] = NN(Hh, d) THEN e[d+1] ELSE e[d + 1] + 1)
          IN hi >= Lo(d) /\ lo <= Hi(d)}
RefEntriesPresent ==
  \A c \in {x \in 1..3 : Del(x) # 0} : \A e \in BoxEdges(c) :
     RefDip(e)[1] # 0 => \E k \in 1..Len(Ent) :
                            <<Ent[k][1], Ent[k][2], Ent[k][3], Ent[k][4]>> = e
(* laws on the code's own numbers *)
CompSum(c) ==
  LET S == {k \in 1..Len(Ent) : Ent[k][1] = c}
      f(k) == <<Ent[k][5], Ent[k][6]>>
  IN QSumSetF(S, f)
MomentConserved == \A c \in 1..3 : CompSum(c) = Norm(<<Del(c), 2>>)
SignOfExtent ==
  \A k \in 1..Len(Ent) : Ent[k][5] * Del(Ent[k][1]) >= 0 /\ Ent[k][6] > 0
(* an edge carries a contribution only if it belongs to a cell touched by   *)
(* the segment: some piece has its midpoint in (the closure of) such a cell *)
Touched(e) ==
  \E pc \in Pieces :
     LET m == Mid(pc) IN
       \A d \in 1..3 :
          LET x == Pos(d, m)
              c == CellQ(d, x)
              onplane == x[1] = Nd2(Hh, d, c) * x[2]
          IN IF d = e[1] THEN e[d + 1] = c \/ (onplane /\ e[d + 1] = c - 1)
             ELSE e[d + 1] \in {c, c + 1} \/ (onplane /\ e[d + 1] = c - 1)
SupportOnTouchedCells ==
  \A k \in 1..Len(Ent) :
     Ent[k][5] # 0 => Touched(<<Ent[k][1], Ent[k][2], Ent[k][3], Ent[k][4]>>)

InvTable == << <<"EntriesAreRef", EntriesAreRef>>,
               <<"RefEntriesPresent", RefEntriesPresent>>,
               <<"MomentConserved", MomentConserved>>,
               <<"SignOfExtent", SignOfExtent>>,
               <<"SupportOnTouchedCells", SupportOnTouchedCells>>,
               <<"Observations", X.obs>> >>
Failed == {InvTable[i][1] : i \in {j \in 1..Len(InvTable) : ~InvTable[j][2]}}
Accept ==
  /\ IF Failed # {} THEN TLCSet(3, TLCGet(3) \cup {<<iid, f>> : f \in Failed})
     ELSE TLCSet(1, TLCGet(1) \cup {iid})
Post ==
  /\ PrintT(<<"VP", "ntraces", Len(Insts)>>)
  /\ PrintT(<<"VP", "rejected", {}>>)
  /\ PrintT(<<"VP", "invfail", TLCGet(3)>>)
=============================================================================
