----------------------------- MODULE ProcessMap -----------------------------
(* emg3d._multiprocessing.process_map (four branches) and the three call     *)
(* sites in emg3d.simulations that build a task list from the                *)
(* source-frequency product and store the results back BY POSITION           *)
(* (_compute 835-880, _bcompute 1193-1233, jvec 1378-1397).                  *)
(*                                                                           *)
(* Tasks are identified by their position 1..N in the submitted list; the    *)
(* result of task i is the tag i.  The worker pool (concurrent.futures /     *)
(* tqdm) is the environment: workers take tasks in submission order, finish  *)
(* in ANY order; the mapping function hands results back in submission       *)
(* order (contract of Executor.map).                                         *)
EXTENDS Naturals, Sequences, FiniteSets, TLC

CONSTANTS N,          \* number of tasks (source-frequency pairs) per batch
          W,          \* max_workers
          Branches,   \* subset of {"pool", "tqdmpool", "seq", "tqdmseq"}
          MaxBatches  \* batches in a row (forward, back-propagation, J v ...)

VARIABLES branch,     \* branch of process_map taken for this batch
          phase,      \* "idle" | "run" | "returned" | "stored"
          queue,      \* tasks not yet started
          running,    \* worker -> task (0 = idle)
          done,       \* set of finished tasks
          nstart,     \* task -> how often it was started
          out,        \* the list process_map returned (task tags, in order)
          slots,      \* slot k (k-th source-frequency pair) -> tag stored
          batch       \* number of completed batches

vars == <<branch, phase, queue, running, done, nstart, out, slots, batch>>
Tasks == 1..N
Workers == 1..W
Parallel(b) == b \in {"pool", "tqdmpool"}

Init ==
  /\ branch \in Branches
  /\ phase = "idle"
  /\ queue = {}
  /\ running = [w \in Workers |-> 0]
  /\ done = {}
  /\ nstart = [t \in Tasks |-> 0]
  /\ out = <<>>
  /\ slots = [k \in Tasks |-> 0]
  /\ batch = 0

(* process_map(fn, list_of_inputs, max_workers=..): the whole list is handed *)
(* over at once; the branch follows max_workers and the presence of tqdm     *)
Submit(b) ==
  /\ phase \in {"idle", "stored"} /\ batch < MaxBatches
  /\ b \in Branches
  /\ Parallel(b) => W > 1
  /\ branch' = b
  /\ phase' = "run"
  /\ queue' = Tasks
  /\ done' = {} /\ out' = <<>>
  /\ nstart' = [t \in Tasks |-> 0]
  /\ UNCHANGED <<running, slots, batch>>

(* a worker takes a task (the pool hands them out in submission order, but  *)
(* the order in which workers get going is the scheduler's); the sequential *)
(* branches have one "worker", the calling process itself, going in order   *)
Start(w, t) ==
  /\ phase = "run" /\ t \in queue /\ running[w] = 0
  /\ Parallel(branch) \/ (w = 1 /\ \A u \in queue : t <= u)
  /\ running' = [running EXCEPT ![w] = t]
  /\ nstart' = [nstart EXCEPT ![t] = @ + 1]
  /\ queue' = queue \ {t}
  /\ UNCHANGED <<branch, phase, done, out, slots, batch>>

(* any running task may finish next: completion order is free *)
Finish(w) ==
  /\ phase = "run" /\ running[w] # 0
  /\ done' = done \cup {running[w]}
  /\ running' = [running EXCEPT ![w] = 0]
  /\ UNCHANGED <<branch, phase, queue, nstart, out, slots, batch>>

(* list(ex.map(..)) / process_map(..) / list(map(..)) returns when all are   *)
(* done, results in submission order                                         *)
Return ==
  /\ phase = "run" /\ done = Tasks
  /\ out' = [i \in 1..N |-> i]
  /\ phase' = "returned"
  /\ UNCHANGED <<branch, queue, running, done, nstart, slots, batch>>

(* for i, (src, freq) in enumerate(srcfreq): dict[src][freq] = out[i] *)
Store ==
  /\ phase = "returned"
  /\ slots' = [k \in Tasks |-> out[k]]
  /\ phase' = "stored"
  /\ batch' = batch + 1
  /\ UNCHANGED <<branch, queue, running, done, nstart, out>>

Next == (\E b \in Branches : Submit(b)) \/ (\E w \in Workers : Finish(w) \/ \E t \in Tasks : Start(w, t))
        \/ Return \/ Store

Spec == Init /\ [][Next]_vars
FairSpec == Spec /\ WF_vars(Next)

(* ============================ properties (C11) =========================== *)
TypeOK == /\ phase \in {"idle", "run", "returned", "stored"}
          /\ \A w \in Workers : running[w] \in 0..N
(* the returned list is ordered like the submitted one *)
OrderPreserved == \A i \in 1..Len(out) : out[i] = i
(* every slot holds the result of its own task *)
SlotOwnResult == phase = "stored" => \A k \in Tasks : slots[k] = k
(* every task is run exactly once per batch *)
ExactlyOnce == /\ \A t \in Tasks : nstart[t] <= 1
               /\ phase \in {"returned", "stored"} => \A t \in Tasks : nstart[t] = 1
(* no task runs on two workers at once *)
NoDoubleRun == \A v, w \in Workers : (v # w /\ running[v] # 0) => running[v] # running[w]
(* sequential branches never overlap tasks and keep submission order *)
SeqInOrder == ~Parallel(branch) =>
                 /\ \A w \in Workers : w # 1 => running[w] = 0
                 /\ \A t \in done : \A u \in Tasks : u < t => u \in done
(* repeating the computation leaves every slot as it was *)
Idempotent == [][(phase = "returned" /\ batch > 0 /\ Store) => slots' = slots]_vars
AllStored == <>(phase = "stored")
=============================================================================
