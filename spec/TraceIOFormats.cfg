SPECIFICATION TraceSpec
CONSTANTS
  Formats = {"h5", "npz", "json"}
  Classes = {}
  MaxDepth = 0
CONSTRAINT Accept
POSTCONDITION Post
CHECK_DEADLOCK FALSE
