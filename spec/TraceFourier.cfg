SPECIFICATION TraceSpec
CONSTANTS
  Ns = {}
  Deviations = {}
CONSTRAINT Accept
POSTCONDITION Post
CHECK_DEADLOCK FALSE
