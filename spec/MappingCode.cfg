SPECIFICATION SpecC
CONSTANT KMax = 6
CONSTRAINT Accept
POSTCONDITION Post
CHECK_DEADLOCK FALSE
