--------------------------- MODULE TraceModelState ---------------------------
EXTENDS ModelState, Json, IOUtils, TLCExt
ASSUME TLCSet(1, {})
ASSUME TLCSet(3, {})
Traces == JsonDeserialize(IOEnv.TRACE_FILE)
VARIABLES tid, l
tvars == <<vars, tid, l>>
T == Traces[tid]
Ev == T.ev[l]
More == l <= Len(T.ev)
TraceInit == tid \in 1..Len(Traces) /\ l = 1 /\ Init /\ mapping = Traces[tid].mapping
GivenSet(e) == {e.given[i] : i \in 1..Len(e.given)}
Cls(e) == [p \in Props |-> IF p \in DOMAIN e.cls THEN e.cls[p] ELSE "pos"]
TraceNext ==
  /\ More /\ l' = l + 1 /\ UNCHANGED tid
  /\ \/ /\ Ev.e = "construct" /\ Construct(T.mapping, GivenSet(Ev), Cls(Ev))
     \/ /\ Ev.e = "assign" /\ Assign(Ev.prop, Ev.c)
  /\ last'.ok = Ev.ok                       \* accepted / rejected as predicted
  /\ Ev.unchanged                           \* a rejection changed nothing
  /\ (last'.ok /\ Ev.e = "construct") => Ev.case = Case'
TraceSpec == TraceInit /\ [][TraceNext]_tvars
Accept == IF ~More THEN TLCSet(1, TLCGet(1) \cup {tid}) ELSE TRUE
Post == /\ PrintT(<<"VP", "ntraces", Len(Traces)>>)
        /\ PrintT(<<"VP", "rejected", (1..Len(Traces)) \ TLCGet(1)>>)
        /\ PrintT(<<"VP", "invfail", TLCGet(3)>>)
=============================================================================
