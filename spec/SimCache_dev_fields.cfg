SPECIFICATION Spec
CONSTANTS
  Pairs = {1, 2}
  MaxModel = 1
  FileMode = FALSE
  MaxOps = 4
  Layered = FALSE
  NObj = 1
  Deviations = {"FieldsNotRecomputed"}
INVARIANT TypeOK
INVARIANT SensAvailable
PROPERTY CopyIndependent
CHECK_DEADLOCK FALSE
