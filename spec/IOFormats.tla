------------------------------ MODULE IOFormats ------------------------------
(* emg3d.io: save / load / convert of nested dictionaries of numbers,        *)
(* strings, booleans, None, real / complex / integer arrays and instances    *)
(* of the registered classes, in the three file formats (io.py 41-632).      *)
(*                                                                           *)
(* Values are abstracted to typed trees.  A leaf is a kind; for objects the  *)
(* kind is <<"obj", class, variant>>.  Stored(fmt, k) is what the pipeline   *)
(* of that format returns for a leaf of kind k (transcribed from             *)
(* _dict_serialize / _dict_flatten / _dict_dearray_decomp / _hdf5_dump and   *)
(* their inverses, _nonetype_to_none, _dict_deserialize):                    *)
(*   h5   : Python scalars come back as NumPy scalars                        *)
(*   npz  : Python / NumPy scalars come back as 0-d arrays                   *)
(*   json : NumPy scalars come back as Python scalars, complex as complex128 *)
(* The property's equality (Equal) identifies a Python scalar, the NumPy     *)
(* scalar and the 0-d array of the same numeric kind.                        *)
EXTENDS Naturals, Sequences, FiniteSets, TLC

CONSTANTS Formats,     \* {"h5", "npz", "json"}
          Classes,     \* leaf kinds "Class#variant" of the registered classes
          MaxDepth     \* nesting depth of dictionaries

MaxChain == IF MaxDepth = 0 THEN 100 ELSE 3
Scalars == {"none", "bool", "int", "float", "complex", "str"}
Arrays == {"arr_f", "arr_c", "arr_i"}
NpKinds == {"npint", "npfloat", "npcomplex", "arr0_i", "arr0_f", "arr0_c"}
ObjKinds == Classes             \* strings "Class#variant"
LeafKinds == Scalars \cup Arrays \cup ObjKinds
IsObj(k) == k \notin Scalars \cup Arrays \cup NpKinds
(* every tree is a function: a leaf is [leaf |-> kind], a dictionary maps   *)
(* its keys to trees                                                        *)
L(k) == [leaf |-> k]
Leaves == {L(k) : k \in LeafKinds}

(* what a leaf of kind k comes back as *)
Stored(fmt, k) ==
  CASE k \in {"none", "bool", "str"} \cup Arrays -> k
    [] IsObj(k) -> k
    [] k \in {"int", "npint", "arr0_i"} ->
         (CASE fmt = "h5" -> "npint" [] fmt = "npz" -> "arr0_i"
            [] fmt = "json" -> (IF k = "arr0_i" THEN "arr0_i" ELSE "int"))
    [] k \in {"float", "npfloat", "arr0_f"} ->
         (CASE fmt = "h5" -> "npfloat" [] fmt = "npz" -> "arr0_f"
            [] fmt = "json" -> (IF k = "arr0_f" THEN "arr0_f" ELSE "float"))
    [] k \in {"complex", "npcomplex", "arr0_c"} ->
         (CASE fmt = "h5" -> "npcomplex" [] fmt = "npz" -> "arr0_c"
            [] fmt = "json" -> "npcomplex")   \* also a 0-d complex array

Class(k) == CASE k \in {"int", "npint", "arr0_i"} -> "int"
              [] k \in {"float", "npfloat", "arr0_f"} -> "float"
              [] k \in {"complex", "npcomplex", "arr0_c"} -> "complex"
              [] OTHER -> k
Keys == {"a", "b"}
IsLeaf(t) == DOMAIN t = {"leaf"}
RECURSIVE Trees(_)
Trees(d) == IF d = 0 THEN Leaves
            ELSE Leaves \cup UNION {[K -> Trees(d - 1)] : K \in (SUBSET Keys) \ {{}}}
RECURSIVE Map(_, _)
Map(fmt, t) == IF IsLeaf(t) THEN L(Stored(fmt, t.leaf))
               ELSE [k \in DOMAIN t |-> Map(fmt, t[k])]
RECURSIVE Equal(_, _)
Equal(a, b) == IF IsLeaf(a) \/ IsLeaf(b)
               THEN IsLeaf(a) /\ IsLeaf(b) /\ Class(a.leaf) = Class(b.leaf)
               ELSE DOMAIN a = DOMAIN b /\ \A k \in DOMAIN a : Equal(a[k], b[k])

VARIABLES val,     \* the tree currently held (in memory or in the file)
          orig,    \* the tree that was first saved
          where,   \* "memory" | a format (content of the file)
          hist     \* formats the content went through
vars == <<val, orig, where, hist>>

Init == /\ val \in Trees(MaxDepth) /\ ~IsLeaf(val)      \* save(**kwargs): a dict
        /\ orig = val /\ where = "memory" /\ hist = <<>>
Save(f) == /\ where = "memory" /\ Len(hist) < MaxChain
           /\ where' = f /\ hist' = Append(hist, f)
           /\ UNCHANGED <<val, orig>>
Load == /\ where \in Formats
        /\ val' = Map(where, val) /\ where' = "memory"
        /\ UNCHANGED <<orig, hist>>
(* convert(f1 -> f2) = save(f2, **load(f1)) *)
Convert(f) == /\ where \in Formats /\ f # where /\ Len(hist) < MaxChain
              /\ val' = Map(where, val) /\ where' = f /\ hist' = Append(hist, f)
              /\ UNCHANGED orig
Next == (\E f \in Formats : Save(f) \/ Convert(f)) \/ Load
Spec == Init /\ [][Next]_vars

(* whatever was saved is returned as an equal object with equal dtypes, in  *)
(* every format and through every chain of conversions                      *)
RoundTrip == where = "memory" => Equal(val, orig)
ContentPreserved == where \in Formats => Equal(Map(where, val), orig)
=============================================================================
