-------------------------- MODULE TraceProcessMap --------------------------
(* Recorded batches of the real process_map / result storing, validated      *)
(* against ProcessMap.  Events: Submit{branch,names}, Start{t,w}, Finish{t,w}*)
(* (appended by the worker processes themselves, per-process order kept),    *)
(* Return{out} (tags of the returned list), Store{slots} (tag found in each  *)
(* source-frequency slot of the simulation afterwards).                      *)
EXTENDS ProcessMap, Json, IOUtils, TLCExt

ASSUME TLCSet(1, {})
ASSUME TLCSet(2, <<0, "none">>)
ASSUME TLCSet(3, {})
Traces == JsonDeserialize(IOEnv.TRACE_FILE)
Diag == "TRACE_DIAG" \in DOMAIN IOEnv

VARIABLES tid, l
tvars == <<vars, tid, l>>
T == Traces[tid]
Ev == T.ev[l]
More == l <= Len(T.ev)

TraceInit ==
  /\ tid \in 1..Len(Traces) /\ l = 1
  /\ Init

Step(a) == More /\ a /\ l' = l + 1 /\ UNCHANGED tid

TSubmit == /\ More /\ Ev.e = "Submit" /\ Step(Submit(Ev.branch))
           /\ Ev.n = N /\ Ev.names = N     \* one distinct hand-over name per task
           /\ Parallel(Ev.branch) = (T.maxworkers > 1)
           /\ (Ev.branch \in {"tqdmpool", "tqdmseq"}) = T.tqdm
TStart == More /\ Ev.e = "Start" /\ Ev.w <= T.maxworkers /\ Step(Start(Ev.w, Ev.t))
TFinish == More /\ Ev.e = "Finish" /\ running[Ev.w] = Ev.t /\ Step(Finish(Ev.w))
TReturn == More /\ Ev.e = "Return" /\ Step(Return) /\ out' = Ev.out
TStore == More /\ Ev.e = "Store" /\ Step(Store)
            /\ slots' = [k \in Tasks |-> Ev.slots[k]]

TraceNext == TSubmit \/ TStart \/ TFinish \/ TReturn \/ TStore
TraceSpec == TraceInit /\ [][TraceNext]_tvars

Complete == ~More /\ phase = "stored"

InvTable == << <<"TypeOK", TypeOK>>, <<"OrderPreserved", OrderPreserved>>,
               <<"SlotOwnResult", SlotOwnResult>>, <<"ExactlyOnce", ExactlyOnce>>,
               <<"NoDoubleRun", NoDoubleRun>>, <<"SeqInOrder", SeqInOrder>> >>
Failed == {InvTable[i][1] : i \in {j \in 1..Len(InvTable) : ~InvTable[j][2]}}

Accept ==
  /\ IF Failed # {}
     THEN TLCSet(3, TLCGet(3) \cup {<<tid, f>> : f \in Failed}) ELSE TRUE
  /\ IF Complete THEN TLCSet(1, TLCGet(1) \cup {tid}) ELSE TRUE
  /\ IF Diag /\ l > TLCGet(2)[1]
     THEN TLCSet(2, <<l, [phase |-> phase, queue |-> queue, running |-> running,
                         done |-> done, out |-> out, slots |-> slots]>>)
     ELSE TRUE

Post ==
  /\ PrintT(<<"VP", "ntraces", Len(Traces)>>)
  /\ PrintT(<<"VP", "rejected", (1..Len(Traces)) \ TLCGet(1)>>)
  /\ PrintT(<<"VP", "invfail", TLCGet(3)>>)
  /\ IF Diag THEN PrintT(<<"VP", "maxl", TLCGet(2)[1]>>)
                  /\ PrintT(<<"VP", "laststate", TLCGet(2)[2]>>)
     ELSE TRUE
=============================================================================
