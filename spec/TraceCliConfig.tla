--------------------------- MODULE TraceCliConfig ---------------------------
(* Real runs of the emg3d command-line interface, validated against          *)
(* CliConfig.tla: the configuration of each run initialises the model, the   *)
(* model runs to its end and must agree with what the run did (error stage,  *)
(* keys of the output file, saved simulation, whether anything was computed, *)
(* which source - terminal, file or default - every option took its value    *)
(* from) and the run must have produced what the equivalent Python API calls *)
(* produce (apiEqual, computed by the harness).                              *)
EXTENDS CliConfig, Json, IOUtils, TLCExt

ASSUME TLCSet(1, {})
ASSUME TLCSet(2, <<0, "none">>)
ASSUME TLCSet(3, {})
Traces == JsonDeserialize(IOEnv.TRACE_FILE)
Diag == "TRACE_DIAG" \in DOMAIN IOEnv
VARIABLES tid
tvars == <<vars, tid>>
T == Traces[tid]
ToSet(q) == {<<q[i][1], q[i][2]>> : i \in 1..Len(q)}

TraceInit ==
  /\ tid \in 1..Len(Traces)
  /\ file = ToSet(Traces[tid].file) /\ usec = Traces[tid].usec
  /\ term = ToSet(Traces[tid].term)
  /\ fn = Traces[tid].fn /\ dry = Traces[tid].dry /\ clean = Traces[tid].clean
  /\ pc = "start"
  /\ eff = [k \in DocKeys |-> "default"]
  /\ errAt = "" /\ outKeys = {} /\ simSaved = FALSE /\ computed = FALSE
TraceSpec == TraceInit /\ [][Next /\ UNCHANGED tid]_tvars

Obs == T.obs
Agrees ==
  /\ errAt = Obs.errAt
  /\ outKeys = {Obs.outKeys[i] : i \in 1..Len(Obs.outKeys)}
  /\ simSaved = Obs.simSaved
  /\ computed = Obs.computed
  /\ \A i \in 1..Len(Obs.eff) :
        eff[<<Obs.eff[i][1], Obs.eff[i][2]>>] = Obs.eff[i][3]
  /\ Obs.apiEqual
Complete == pc \in {"done", "error"} /\ Agrees

InvTable == << <<"DocKeysParsed", DocKeysParsed>>,
               <<"EveryDocKeyAccepted", EveryDocKeyAccepted>>,
               <<"UnknownRejected", UnknownRejected>>, <<"Precedence", Precedence>>,
               <<"OutputKeys", OutputKeys>>,
               <<"DryRunComputesNothing", DryRunComputesNothing>>,
               <<"CacheIsLoadAndSave", CacheIsLoadAndSave>> >>
Failed == {InvTable[i][1] : i \in {j \in 1..Len(InvTable) : ~InvTable[j][2]}}
Accept ==
  /\ IF Failed # {}
     THEN TLCSet(3, TLCGet(3) \cup {<<tid, f>> : f \in Failed}) ELSE TRUE
  /\ IF Complete THEN TLCSet(1, TLCGet(1) \cup {tid}) ELSE TRUE
  /\ IF Diag /\ pc \in {"done", "error"}
     THEN TLCSet(2, <<1, [pc |-> pc, errAt |-> errAt, outKeys |-> outKeys,
                         simSaved |-> simSaved, computed |-> computed]>>)
     ELSE TRUE
Post ==
  /\ PrintT(<<"VP", "ntraces", Len(Traces)>>)
  /\ PrintT(<<"VP", "rejected", (1..Len(Traces)) \ TLCGet(1)>>)
  /\ PrintT(<<"VP", "invfail", TLCGet(3)>>)
  /\ IF Diag THEN PrintT(<<"VP", "maxl", TLCGet(2)[1]>>)
                  /\ PrintT(<<"VP", "laststate", TLCGet(2)[2]>>)
     ELSE TRUE
=============================================================================
