---------------------------- MODULE MGParams ----------------------------
(* Integer control logic of emg3d.solver.MGParameters and the per-level      *)
(* adaptation helpers.  Code anchors (emg3d/solver.py):                      *)
(*   _max_level            1202-1270   DirLevels, ClevelTab, ReprShape       *)
(*   _semicoarsening       1272-1304   patterns are digit sequences          *)
(*   _linerelaxation       1306-1339                                         *)
(*   _solver_and_cycle     1341-1381   VarCycmax, MaxCycle, mg maxit         *)
(*   _current_sc_dir       1482-1531   CScDir (seven-way case analysis)      *)
(*   _current_lr_dir       1534-1588   CLrDir (three sequential rewrites)    *)
(*   restriction() grid    888-905     Coarse ("every second node")          *)
(* Each operator below is a transcription of what the code does; the        *)
(* operators named *Ref are independent first-principles definitions the     *)
(* properties are stated with.                                               *)
EXTENDS Naturals, Integers, Sequences, FiniteSets

Max2(a, b) == IF a >= b THEN a ELSE b
Max3(a, b, c) == Max2(a, Max2(b, c))
Min2(a, b) == IF a <= b THEN a ELSE b

RECURSIVE Pow2(_)
Pow2(n) == IF n = 0 THEN 1 ELSE 2 * Pow2(n - 1)

(* while n % 2 == 0 and n > 2: clevel += 1; n /= 2 *)
RECURSIVE Halvings(_)
Halvings(n) == IF n % 2 = 0 /\ n > 2 THEN 1 + Halvings(n \div 2) ELSE 0

(* per-direction level after "restrict to max coarsening level by user" *)
DirLevels(shape, cl) ==
  [i \in 1..3 |-> LET h == Halvings(shape[i])
                  IN IF cl > -1 /\ cl < h THEN cl ELSE h]

(* self.clevel = [max(all), max(y,z), max(x,z), max(x,y)] indexed by sc_dir *)
ClevelTab(shape, cl) ==
  LET d == DirLevels(shape, cl) IN
  [s \in 0..3 |-> CASE s = 0 -> Max3(d[1], d[2], d[3])
                    [] s = 1 -> Max2(d[2], d[3])
                    [] s = 2 -> Max2(d[1], d[3])
                    [] s = 3 -> Max2(d[1], d[2])]

(* header: "Coarsest grid" = int(shape/2**clevel) per direction *)
ReprShape(shape, cl) ==
  LET d == DirLevels(shape, cl) IN [i \in 1..3 |-> shape[i] \div Pow2(d[i])]

(* "Grid not optimal for MG solver" message (max_low or min_div) *)
NotOptimal(shape, cl) ==
  LET d == DirLevels(shape, cl)
      r == ReprShape(shape, cl)
      lim3 == IF cl < 0 THEN 3 ELSE Min2(cl, 3)
  IN (\E i \in 1..3 : (cl < 0 \/ d[i] < cl) /\ r[i] > 7)
     \/ (\E i \in 1..3 : d[i] < lim3)

(* -------- _current_sc_dir: transcription ---------------------------------*)
NoHalve(n) == n % 2 # 0 \/ n < 3
CScDir(sc, shape) ==
  LET x == NoHalve(shape[1]) \/ sc = 1
      y == NoHalve(shape[2]) \/ sc = 2
      z == NoHalve(shape[3]) \/ sc = 3
  IN IF x THEN (IF y THEN 6 ELSE IF z THEN 5 ELSE 1)
     ELSE IF y THEN (IF z THEN 4 ELSE 2)
     ELSE IF z THEN 3 ELSE 0

(* directions NOT coarsened for a (current) sc code, as restriction() reads it *)
KeptAxes(csc) == CASE csc = 0 -> {}  [] csc = 1 -> {1} [] csc = 2 -> {2}
                   [] csc = 3 -> {3} [] csc = 4 -> {2, 3}
                   [] csc = 5 -> {1, 3} [] csc = 6 -> {1, 2}

(* nodes[::r] then diff: cell count becomes n div 2 in coarsened directions *)
Coarse(shape, csc) ==
  [i \in 1..3 |-> IF i \in KeptAxes(csc) THEN shape[i] ELSE shape[i] \div 2]

(* first-principles reference: coarsen exactly the directions that are even, *)
(* larger than two and not excluded by the pattern                           *)
CanHalveRef(n) == n > 2 /\ n % 2 = 0
CoarseRef(sc, shape) ==
  [i \in 1..3 |-> IF CanHalveRef(shape[i]) /\ sc # i
                  THEN shape[i] \div 2 ELSE shape[i]]

(* -------- _current_lr_dir: transcription ---------------------------------*)
LrX(c) == CASE c = 1 -> 0 [] c = 5 -> 3 [] c = 6 -> 2 [] c = 7 -> 4 [] OTHER -> c
LrY(c) == CASE c = 2 -> 0 [] c = 4 -> 3 [] c = 6 -> 1 [] c = 7 -> 5 [] OTHER -> c
LrZ(c) == CASE c = 3 -> 0 [] c = 4 -> 2 [] c = 5 -> 1 [] c = 7 -> 6 [] OTHER -> c
CLrDir(lr, shape) ==
  LET a == IF shape[1] = 2 THEN LrX(lr) ELSE lr
      b == IF shape[2] = 2 THEN LrY(a) ELSE a
  IN IF shape[3] = 2 THEN LrZ(b) ELSE b

(* axes along which smoothing() runs a line kernel for a current lr code *)
LrAxes(c) == CASE c = 0 -> {} [] c = 1 -> {1} [] c = 2 -> {2} [] c = 3 -> {3}
               [] c = 4 -> {2, 3} [] c = 5 -> {1, 3} [] c = 6 -> {1, 2}
               [] c = 7 -> {1, 2, 3}
(* reference: drop exactly the two-cell directions *)
LrAxesRef(lr, shape) == {a \in LrAxes(lr) : shape[a] # 2}

(* -------- _solver_and_cycle ---------------------------------------------- *)
VarCycmax(cycle) == IF cycle \in {"F", "W"} THEN 2 ELSE 1
MaxCycle(scPat, lrPat) == Max2(Len(scPat), Len(lrPat))

(* -------- meshes.good_mg_cell_nr (integer part of C16, extra coverage) ---- *)
(* lowest = {2,3,5,...,19} <= max_lowest;  lowest x 2**arange(min_div, 30),   *)
(* unique, <= max_nr                                                          *)
GoodNr(maxNr, maxLowest, minDiv) ==
  {n \in 1..maxNr : \E p \in {2, 3, 5, 7, 9, 11, 13, 15, 17, 19} :
     \E k \in minDiv..12 : p <= maxLowest /\ n = p * Pow2(k)}
=============================================================================
