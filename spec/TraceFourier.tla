---------------------------- MODULE TraceFourier ----------------------------
(* Recorded setter / interpolate / freq2time histories of real               *)
(* emg3d.Fourier objects, validated against Fourier.tla.  Every event        *)
(* carries the observed frequency bookkeeping as positions relative to the   *)
(* object's own required frequencies.                                        *)
EXTENDS Fourier, Json, IOUtils, TLCExt

ASSUME TLCSet(1, {})
ASSUME TLCSet(2, <<0, "none">>)
ASSUME TLCSet(3, {})
Traces == JsonDeserialize(IOEnv.TRACE_FILE)
Diag == "TRACE_DIAG" \in DOMAIN IOEnv
VARIABLES tid, l, ph     \* ph = 0: re-rank to the event's own axis; 1: act
tvars == <<vars, tid, l, ph>>
T == Traces[tid]
Ev == T.ev[l]
More == l <= Len(T.ev)

TraceInit ==
  /\ tid \in 1..Len(Traces) /\ l = 1 /\ ph = 0
  /\ req = Traces[tid].init.req /\ fmin = Traces[tid].init.fmin
  /\ fmax = Traces[tid].init.fmax
  /\ everyx = Traces[tid].init.everyx /\ inp = Traces[tid].init.inp
  /\ signal = Traces[tid].init.signal /\ argSignal = signal
  /\ last = [op |-> "init"]

(* the observed bookkeeping after the step equals the specification's *)
Observed(e) ==
  /\ req' = e.req /\ fmin' = e.fmin /\ fmax' = e.fmax /\ everyx' = e.everyx
  /\ inp' = e.inp /\ signal' = e.signal
  /\ Compute' = e.compute
  /\ Extrapolate' = {e.extrap[i] : i \in 1..Len(e.extrap)}
  /\ Interpolate' = {e.interp[i] : i \in 1..Len(e.interp)}
  /\ Above' = {e.above[i] : i \in 1..Len(e.above)}

(* Ranks are relative to the values present; every setter changes that set. *)
(* Each event therefore gives the state before and after the call as ranks  *)
(* on ONE common axis.  Before acting, the current state is re-labelled to  *)
(* the event's "pre" ranks, which must be order-isomorphic to it.           *)
Vals(r, a, b, q) == Range(r) \cup {a, b} \cup Range(q)
Dense(S, x) == Cardinality({y \in S : y < x})
Iso(r1, a1, b1, q1, r2, a2, b2, q2) ==
  /\ Len(r1) = Len(r2) /\ Len(q1) = Len(q2)
  /\ LET S1 == Vals(r1, a1, b1, q1)
         S2 == Vals(r2, a2, b2, q2)
     IN /\ Cardinality(S1) = Cardinality(S2)
        /\ \A i \in 1..Len(r1) : Dense(S1, r1[i]) = Dense(S2, r2[i])
        /\ \A i \in 1..Len(q1) : Dense(S1, q1[i]) = Dense(S2, q2[i])
        /\ Dense(S1, a1) = Dense(S2, a2) /\ Dense(S1, b1) = Dense(S2, b2)
Rerank ==
  /\ More /\ ph = 0
  /\ Iso(req, fmin, fmax, inp, Ev.pre.req, Ev.pre.fmin, Ev.pre.fmax, Ev.pre.inp)
  /\ req' = Ev.pre.req /\ fmin' = Ev.pre.fmin /\ fmax' = Ev.pre.fmax
  /\ inp' = Ev.pre.inp
  /\ ph' = 1
  /\ UNCHANGED <<everyx, signal, argSignal, last, tid, l>>

Step(a) == More /\ ph = 1 /\ a /\ Observed(Ev) /\ l' = l + 1 /\ ph' = 0
           /\ UNCHANGED tid

(* observed content class of out[p]: 0 exactly zero; 1 equal to the datum   *)
(* supplied for that very frequency; 2 equal to the datum supplied for      *)
(* ANOTHER frequency; 3 anything else                                       *)
FilledAgrees(e) ==
  /\ e.ok = last'.ok
  /\ e.ok => LET cc == Compute IN \A i \in 1..n :
       LET f == last'.filled[req[i]]
           c == e.codes[i]
       IN CASE f[1] = "zero" -> c = 0
            [] f[1] = "pass" -> (IF cc[f[2]] = req[i] THEN c = 1 ELSE c = 2)
            [] OTHER -> c = 3
  /\ e.ok => (e.extrapOK /\ e.knotsOK)

TNext ==
  \/ (Ev.e = "time" /\ Step(SetTime(Ev.req, Ev.fmin, Ev.fmax, Ev.inp)))
  \/ (Ev.e = "ftarg" /\ Step(SetTime(Ev.req, Ev.fmin, Ev.fmax, Ev.inp)))
  \/ (Ev.e = "fmin" /\ Step(SetFmin(Ev.fmin)))
  \/ (Ev.e = "fmax" /\ Step(SetFmax(Ev.fmax)))
  \/ (Ev.e = "signal" /\ Step(SetSignal(Ev.signal)))
  \/ (Ev.e = "every_x" /\ Step(SetEveryX(Ev.everyx)))
  \/ (Ev.e = "input_freq" /\ Step(SetInput(Ev.inp)))
  \/ (Ev.e = "interpolate" /\ Step(DoInterpolate) /\ FilledAgrees(Ev))
  \/ (Ev.e = "freq2time" /\ Step(DoFreq2Time)
        /\ Ev.matchesReference = (last'.args = last'.signal)
        /\ Ev.matchesOwnArgs)
TraceNext == Rerank \/ (More /\ TNext)
TraceSpec == TraceInit /\ [][TraceNext]_tvars
Complete == ~More

InvTable == << <<"TypeOK", TypeOK>>, <<"Partition", Partition>>,
               <<"ComputeInBand", ComputeInBand>>,
               <<"MutualExclusion", MutualExclusion>>,
               <<"FilledCorrectly", FilledCorrectly>>,
               <<"TransformArgsCurrent", TransformArgsCurrent>> >>
Failed == {InvTable[i][1] : i \in {j \in 1..Len(InvTable) : ~InvTable[j][2]}}
Accept ==
  /\ IF Failed # {}
     THEN TLCSet(3, TLCGet(3) \cup {<<tid, f>> : f \in Failed}) ELSE TRUE
  /\ IF Complete THEN TLCSet(1, TLCGet(1) \cup {tid}) ELSE TRUE
  /\ IF Diag /\ l > TLCGet(2)[1]
     THEN TLCSet(2, <<l, [req |-> req, fmin |-> fmin, fmax |-> fmax,
                         everyx |-> everyx, inp |-> inp, signal |-> signal,
                         argSignal |-> argSignal, compute |-> Compute]>>)
     ELSE TRUE
Post ==
  /\ PrintT(<<"VP", "ntraces", Len(Traces)>>)
  /\ PrintT(<<"VP", "rejected", (1..Len(Traces)) \ TLCGet(1)>>)
  /\ PrintT(<<"VP", "invfail", TLCGet(3)>>)
  /\ IF Diag THEN PrintT(<<"VP", "maxl", TLCGet(2)[1]>>)
                  /\ PrintT(<<"VP", "laststate", TLCGet(2)[2]>>)
     ELSE TRUE
=============================================================================
