SPECIFICATION SpecC
CONSTANT MaxNode = 0
CONSTRAINT Accept
POSTCONDITION Post
CHECK_DEADLOCK FALSE
