SPECIFICATION SpecC
CONSTANTS
  Nodes1 = {0}
  Pts = {0}
  Rads = {0}
  Facs = {0}
  Mnrs = {0}
CONSTRAINT Accept
POSTCONDITION Post
CHECK_DEADLOCK FALSE
