SPECIFICATION TraceSpec
CONSTANTS NS = 2 NR = 3 NF = 2 NZ = 5 Deviations = {}
CONSTRAINT Accept
POSTCONDITION Post
CHECK_DEADLOCK FALSE
