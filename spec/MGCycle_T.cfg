SPECIFICATION Spec
CONSTANTS
  Shapes <- T_Shapes
  Cycles <- T_Cycles
  ScPats <- T_ScPats
  LrPats <- T_LrPats
  CLevels <- T_CLevels
  MaxIts <- T_MaxIts
  NuSets <- T_NuSets
  MaxCalls = 1
INVARIANT TypeOK
INVARIANT AtLeastTwo
INVARIANT StackShape
INVARIANT HalveOnlyEvenGT2
INVARIANT Progress
INVARIANT NoLRAlongTwoCells
INVARIANT DepthBound
INVARIANT BottomExact
INVARIANT NotBottomCanCoarsen
INVARIANT HeaderShape
INVARIANT CycmaxRule
INVARIANT DocOrder
INVARIANT DocDepth
INVARIANT QCIsFirstCycle
INVARIANT ItBound
PROPERTY AdvanceOncePerCycle
CHECK_DEADLOCK FALSE
