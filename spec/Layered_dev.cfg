SPECIFICATION Spec
CONSTANTS NS = 2 NR = 2 NF = 2 NZ = 2 Deviations = {"AllFreqs"}
INVARIANT NeverUnwanted
CHECK_DEADLOCK FALSE
