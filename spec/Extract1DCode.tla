--------------------------- MODULE Extract1DCode ---------------------------
(* Part 2 of Extract1D: output of the real code checked by TLC against the  *)
(* reference.  An instance (harness/c19.py) holds the inputs (see           *)
(* Extract1D), and from the REAL code                                       *)
(*   use  cells <<i,j>> (1-based) selected by maps.ellipse_indices          *)
(*   ent  non-zero entries <<i,j,num,den>> of the interpolation matrix      *)
(*        returned by Model.extract_1d(..., return_imat=True)               *)
(*   ext  <<x0, x1, y0, y1>> horizontal extent of the returned 1-D model    *)
(*   obs  floating-point observations (range, lateral invariance)           *)
EXTENDS Extract1D, Json, IOUtils, TLCExt

ASSUME TLCSet(1, {})
ASSUME TLCSet(3, {})
Insts == JsonDeserialize(IOEnv.TRACE_FILE)
VARIABLE iid
X == Insts[iid]
InitC == iid \in 1..Len(Insts) /\ inst = [ready |-> FALSE]
SpecC == InitC /\ [][UNCHANGED <<iid, inst>>]_<<iid, inst>>

I == [nx |-> X.nx, ny |-> X.ny, p0 |-> X.p0, p1 |-> X.p1, rad |-> X.rad,
      fac |-> <<X.fac[1], X.fac[2]>>, mnr |-> <<X.mnr[1], X.mnr[2]>>,
      foci |-> X.foci, method |-> X.method]
Use == {<<X.use[k][1], X.use[k][2]>> : k \in 1..Len(X.use)}
Ent(c) == LET ks == {k \in 1..Len(X.ent) : X.ent[k][1] = c[1] /\ X.ent[k][2] = c[2]}
          IN IF ks = {} THEN <<0, 1>>
             ELSE LET k == CHOOSE k \in ks : TRUE IN <<X.ent[k][3], X.ent[k][4]>>

(* the code's selection is the ellipse of the documentation (cells exactly  *)
(* on the ellipse may go either way) *)
MaskOK ==
  X.method = "midpoint" \/
  \A c \in Cells(I) : /\ Inside(I, c) => c \in Use
                      /\ c \in Use => (Inside(I, c) \/ OnEdge(I, c))
(* the code's weights are the area weights of the reference for that mask   *)
WeightsOK ==
  /\ \A c \in Cells(I) :
       LET w == RefW(I, Use, c) IN Ent(c)[1] * w[2] = w[1] * Ent(c)[2]
  /\ \A k \in 1..Len(X.ent) : <<X.ent[k][1], X.ent[k][2]>> \in Cells(I)
(* laws of C19 on the code's own numbers *)
RECURSIVE QSum(_, _)
QSum(q, k) == IF k = 0 THEN <<0, 1>> ELSE QAdd(QSum(q, k - 1), <<q[k][3], q[k][4]>>)
NonNegSumOne ==
  /\ \A k \in 1..Len(X.ent) : X.ent[k][3] > 0 /\ X.ent[k][4] > 0
  /\ QSum(X.ent, Len(X.ent)) = <<1, 1>>
ExtentOK ==
  LET Sp == Support(I, Use)
      xs == {c[1] : c \in Sp}
      ys == {c[2] : c \in Sp}
  IN X.ext = <<X.nx[MinOf(xs)], X.nx[MaxOf(xs) + 1], X.ny[MinOf(ys)], X.ny[MaxOf(ys) + 1]>>

Table == << <<"MaskOK", MaskOK>>, <<"WeightsOK", WeightsOK>>,
            <<"NonNegSumOne", NonNegSumOne>>, <<"ExtentOK", ExtentOK>>,
            <<"Observations", X.obs>> >>
Failed == {Table[i][1] : i \in {j \in 1..Len(Table) : ~Table[j][2]}}
Accept ==
  /\ IF Failed # {} THEN TLCSet(3, TLCGet(3) \cup {<<iid, f>> : f \in Failed})
     ELSE TLCSet(1, TLCGet(1) \cup {iid})
Post ==
  /\ PrintT(<<"VP", "ntraces", Len(Insts)>>)
  /\ PrintT(<<"VP", "rejected", {}>>)
  /\ PrintT(<<"VP", "invfail", TLCGet(3)>>)
=============================================================================
