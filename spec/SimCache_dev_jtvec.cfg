SPECIFICATION Spec
CONSTANTS
  Pairs = {1, 2}
  MaxModel = 1
  FileMode = FALSE
  MaxOps = 4
  Layered = FALSE
  NObj = 1
  Deviations = {"JtvecLeavesState"}
INVARIANT TypeOK
INVARIANT FreshResults
INVARIANT CachesCoherent
INVARIANT TolRestored
PROPERTY CopyIndependent
CHECK_DEADLOCK FALSE
