------------------------------ MODULE Operator ------------------------------
(* The finite-integration system operator on a tensor grid, from first       *)
(* principles and in exact rational arithmetic:                              *)
(*     A = 1/2 D^T diag(zeta_a + zeta_b) D  -  1/4 diag(sum_4 eta)           *)
(* D: difference-quotient curl (faces x edges) built from the grid widths,   *)
(* zeta_a + zeta_b: the two cells adjacent to a face, sum_4 eta: the four    *)
(* cells around an edge with the direction-dependent eta (eta_x on x-edges,  *)
(* ...).  With zeta = V/mu_r and eta = -s mu_0 V (sigma + s eps) this is     *)
(* curl^T M_face(V/mu_r) curl + s mu_0 M_edge(V (sigma + s eps)).            *)
(* Code anchor: emg3d/core.py amat_x 57-206 (the code is NOT transcribed     *)
(* here; its matrix is extracted and checked in OperatorCode.tla).           *)
(* Part 1: TLC checks D G = 0 (curl of a gradient) on the reference for all  *)
(* small grids.                                                              *)
EXTENDS Naturals, Integers, Sequences, FiniteSets, FiniteSetsExt, TLC

REq(a, b) == a[1] * b[2] = b[1] * a[2]
RMul(a, b) == <<a[1] * b[1], a[2] * b[2]>>
RAdd(a, b) == <<a[1] * b[2] + b[1] * a[2], a[2] * b[2]>>
RNeg(a) == <<0 - a[1], a[2]>>
RZero == <<0, 1>>
RInv(n) == <<1, n>>

(* Grid: h = <<hx, hy, hz>>, each a sequence of positive integer widths.     *)
(* Indices are 0-based; edge <<c,i,j,k>>: along direction c the index counts *)
(* cells, across it nodes.  Face <<c,i,j,k>>: normal c; along c it counts    *)
(* nodes, across it cells.                                                   *)
NN(h, d) == Len(h[d])
HW(h, d, i) == h[d][i + 1]                     \* width of cell i (0-based)
EdgeOK(h, e) == \A d \in 1..3 : e[d + 1] >= 0 /\
                   e[d + 1] <= (IF d = e[1] THEN NN(h, d) - 1 ELSE NN(h, d))
FaceOK(h, f) == \A d \in 1..3 : f[d + 1] >= 0 /\
                   f[d + 1] <= (IF d = f[1] THEN NN(h, d) ELSE NN(h, d) - 1)
InteriorEdge(h, e) == EdgeOK(h, e) /\
   \A d \in 1..3 : d = e[1] \/ (e[d + 1] >= 1 /\ e[d + 1] <= NN(h, d) - 1)
Shift(x, d, s) == [m \in 1..4 |-> IF m = d + 1 THEN x[m] + s ELSE x[m]]

(* curl: for the face with normal c, with (a, b) the next two directions in  *)
(* cyclic order:  (curl E)_c = d_a E_b - d_b E_a                             *)
NextDir(c) == (c % 3) + 1
(* coefficient of edge e in the curl at face f (0 if e is not on f) *)
D(h, f, e) ==
  LET c == f[1]
      a == NextDir(c)
      b == NextDir(a)
      cell == f        \* indices of the face: cells across, node along c
  IN IF e[1] = b /\ e = [f EXCEPT ![1] = b]
        THEN RNeg(RInv(HW(h, a, f[a + 1])))              \* - E_b(.) / h_a
     ELSE IF e[1] = b /\ e = Shift([f EXCEPT ![1] = b], a, 1)
        THEN RInv(HW(h, a, f[a + 1]))                    \* + E_b(. + a) / h_a
     ELSE IF e[1] = a /\ e = [f EXCEPT ![1] = a]
        THEN RInv(HW(h, b, f[b + 1]))                    \* + E_a(.) / h_b
     ELSE IF e[1] = a /\ e = Shift([f EXCEPT ![1] = a], b, 1)
        THEN RNeg(RInv(HW(h, b, f[b + 1])))              \* - E_a(. + b) / h_b
     ELSE RZero
FaceEdges(f) ==
  LET a == NextDir(f[1])
      b == NextDir(a)
  IN {[f EXCEPT ![1] = b], Shift([f EXCEPT ![1] = b], a, 1),
      [f EXCEPT ![1] = a], Shift([f EXCEPT ![1] = a], b, 1)}
(* the (up to four) faces an edge belongs to *)
EdgeFaces(h, e) ==
  LET c == e[1]
      a == NextDir(c)
      b == NextDir(a)
      \* faces with normal a contain E_c via d_b ... ; faces with normal b via d_a
      cands == {[e EXCEPT ![1] = a], Shift([e EXCEPT ![1] = a], b, -1),
                [e EXCEPT ![1] = b], Shift([e EXCEPT ![1] = b], a, -1)}
  IN {f \in cands : FaceOK(h, f)}

(* gradient: E = grad phi as difference quotient, node n = <<i, j, k>> *)
G(h, e, n) ==
  LET c == e[1]
      lo == <<e[2], e[3], e[4]>>
      hi == [m \in 1..3 |-> IF m = c THEN lo[m] + 1 ELSE lo[m]]
  IN IF n = hi THEN RInv(HW(h, c, e[c + 1]))
     ELSE IF n = lo THEN RNeg(RInv(HW(h, c, e[c + 1])))
     ELSE RZero

RSumSet(S, f(_)) == FoldSet(LAMBDA x, acc : RAdd(f(x), acc), RZero, S)

(* ---- Part 1: curl of a gradient vanishes, on every face, for every node - *)
CONSTANTS Shapes1, Widths1
SmallShapes == {<<2, 2, 2>>, <<2, 3, 2>>, <<3, 2, 3>>, <<3, 3, 2>>}
QuickShapes == {<<2, 2, 2>>, <<2, 3, 2>>, <<3, 2, 2>>}
VARIABLE hg
Init1 == \E s \in Shapes1 :
            \E a \in [1..s[1] -> Widths1], b \in [1..s[2] -> Widths1],
               c \in [1..s[3] -> Widths1] : hg = <<a, b, c>>
Spec1 == Init1 /\ [][UNCHANGED hg]_hg
AllFaces(h) == {f \in (1..3) \X (0..NN(h, 1)) \X (0..NN(h, 2)) \X (0..NN(h, 3)) : FaceOK(h, f)}
AllNodes(h) == (0..NN(h, 1)) \X (0..NN(h, 2)) \X (0..NN(h, 3))
(* only the corner nodes of a face have a non-zero gradient on its edges *)
EdgeEnds(e) == {<<e[2], e[3], e[4]>>,
                [m \in 1..3 |-> IF m = e[1] THEN e[m + 1] + 1 ELSE e[m + 1]]}
FaceNodes(f) == UNION {EdgeEnds(e) : e \in FaceEdges(f)}
CurlGradZeroRef ==
  \A f \in AllFaces(hg) : \A n \in FaceNodes(f) :
     LET t(e) == RMul(D(hg, f, e), G(hg, e, n))
     IN RSumSet(FaceEdges(f), t)[1] = 0
EveryInteriorEdgeHasFourFaces ==
  \A c \in 1..3, i \in 0..NN(hg, 1), j \in 0..NN(hg, 2), k \in 0..NN(hg, 3) :
     InteriorEdge(hg, <<c, i, j, k>>) => Cardinality(EdgeFaces(hg, <<c, i, j, k>>)) = 4
=============================================================================
