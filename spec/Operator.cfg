SPECIFICATION Spec1
CONSTANTS
  Shapes1 <- QuickShapes
  Widths1 = {1, 2, 4}
INVARIANT CurlGradZeroRef
INVARIANT EveryInteriorEdgeHasFourFaces
CHECK_DEADLOCK FALSE
