SPECIFICATION Spec1
CONSTANTS
  Widths = {1, 2, 3, 5}
  Ncells = {2, 4, 6}
INVARIANT WeightsAreTranspose
INVARIANT InterpolationSumsToOne
INVARIANT NonNegative
INVARIANT CoarseNodesEverySecond
CHECK_DEADLOCK FALSE
