SPECIFICATION Spec
CONSTANTS
  Shapes <- B_Shapes
  Cycles <- B_Cycles
  ScPats <- B_ScPats
  LrPats <- B_LrPats
  CLevels <- B_CLevels
  MaxIts <- B_MaxIts
  NuSets <- B_NuSets
  MaxCalls = 1
INVARIANT TypeOK
INVARIANT AtLeastTwo
INVARIANT StackShape
INVARIANT HalveOnlyEvenGT2
INVARIANT Progress
INVARIANT NoLRAlongTwoCells
INVARIANT DepthBound
INVARIANT BottomExact
INVARIANT NotBottomCanCoarsen
INVARIANT HeaderShape
INVARIANT CycmaxRule
INVARIANT DocOrder
INVARIANT DocDepth
INVARIANT QCIsFirstCycle
INVARIANT ItBound
PROPERTY AdvanceOncePerCycle
CHECK_DEADLOCK FALSE
