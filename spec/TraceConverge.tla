--------------------------- MODULE TraceConverge ---------------------------
(* Recorded stand-alone multigrid solves of the C06 reference problems       *)
(* validated against Converge.  harness/c06.py: events Cycle{good} (factor   *)
(* of that cycle, from info['error_at_cycle'], below the cap of its medium   *)
(* and smoothing count) and End{conv}.  Need is the constant of the group    *)
(* (medium, nu); T.hindep: worst factor <= Slack x worst factor at 16^3 and  *)
(* cycles <= cycles at 16^3 + 2.                                             *)
EXTENDS Converge, Json, IOUtils, TLCExt
ASSUME TLCSet(1, {})
ASSUME TLCSet(2, <<0, "none">>)
ASSUME TLCSet(3, {})
Traces == JsonDeserialize(IOEnv.TRACE_FILE)
Diag == "TRACE_DIAG" \in DOMAIN IOEnv
VARIABLES tid, l
tvars == <<vars, tid, l>>
T == Traces[tid]
Ev == T.ev[l]
More == l <= Len(T.ev)
TraceInit == tid \in 1..Len(Traces) /\ l = 1 /\ Init
Step(a) == More /\ a /\ l' = l + 1 /\ UNCHANGED tid
(* recorded runs are validated with the environment assumption dropped      *)
(* (a cycle may be bad); the properties then say whether it was kept         *)
TCycle == /\ More /\ Ev.e = "Cycle" /\ st = "run" /\ it < MaxIt
          /\ it' = it + 1
          /\ lvl' = IF Ev.good THEN Min2(lvl + 1, Need) ELSE lvl
          /\ allgood' = (allgood /\ Ev.good) /\ st' = st
          /\ l' = l + 1 /\ UNCHANGED tid
TEnd == /\ More /\ Ev.e = "End" /\ st = "run" /\ it > 0
        /\ st' = (IF Ev.conv THEN "conv" ELSE "fail")
        /\ UNCHANGED <<it, lvl, allgood>> /\ l' = l + 1 /\ UNCHANGED tid
TraceNext == TCycle \/ TEnd
TraceSpec == TraceInit /\ [][TraceNext]_tvars
Complete == ~More /\ st # "run"
HIndep == st # "run" => T.hindep
InvTable == << <<"EveryCycleContracts", EveryCycleContracts>>,
               <<"BoundedCycles", BoundedCycles>>, <<"MustConverge", MustConverge>>,
               <<"NoGiveUp", NoGiveUp>>, <<"HIndep", HIndep>> >>
Failed == {InvTable[i][1] : i \in {j \in 1..Len(InvTable) : ~InvTable[j][2]}}
Accept ==
  /\ IF Failed # {}
     THEN TLCSet(3, TLCGet(3) \cup {<<tid, f>> : f \in Failed}) ELSE TRUE
  /\ IF Complete THEN TLCSet(1, TLCGet(1) \cup {tid}) ELSE TRUE
  /\ IF Diag /\ l > TLCGet(2)[1]
     THEN TLCSet(2, <<l, [it |-> it, lvl |-> lvl, st |-> st]>>) ELSE TRUE
Post ==
  /\ PrintT(<<"VP", "ntraces", Len(Traces)>>)
  /\ PrintT(<<"VP", "rejected", (1..Len(Traces)) \ TLCGet(1)>>)
  /\ PrintT(<<"VP", "invfail", TLCGet(3)>>)
  /\ IF Diag THEN PrintT(<<"VP", "maxl", TLCGet(2)[1]>>)
                  /\ PrintT(<<"VP", "laststate", TLCGet(2)[2]>>)
     ELSE TRUE
=============================================================================
