----------------------------- MODULE TraceSolve -----------------------------
(* Trace validation of recorded emg3d.solve() calls against Solve.tla.       *)
(* Visible events: SuppliedField, DtypeError, MGCycle, Psolve, Callback,     *)
(* KReturn; everything else the code does between them (creating a fresh     *)
(* field, the zero-source branch, dispatch, SciPy's internal updates of x)   *)
(* is taken by the original Solve actions with TLC choosing what was not     *)
(* logged.  The final state must agree with what the caller observed, and    *)
(* the C01 properties are also checked directly on those observations.       *)
EXTENDS Solve, Json, IOUtils, TLCExt

ASSUME TLCSet(1, {})
ASSUME TLCSet(2, <<0, "none">>)
ASSUME TLCSet(3, {})

Traces == JsonDeserialize(IOEnv.TRACE_FILE)
Diag == "TRACE_DIAG" \in DOMAIN IOEnv

VARIABLES tid, l
tvars == <<vars, tid, l>>
T == Traces[tid]
Ev == T.ev[l]
Fin == T.fin
More == l <= Len(T.ev)

TraceInit ==
  /\ tid \in 1..Len(Traces)
  /\ l = 1
  /\ InitWith(Traces[tid].cfg)

Step(a) == a /\ l' = l + 1 /\ UNCHANGED tid
Silent(a) == a /\ UNCHANGED <<tid, l>>

TSupplied == More /\ Ev.e = "SuppliedField" /\ Step(SuppliedField)
               /\ (objs'["supplied"].cls = "ok") = (Ev.cls = "ok")
TDtype == More /\ Ev.e = "DtypeError" /\ Step(DtypeError)
TMGCycle ==
  /\ More /\ Ev.e = "MGCycle"
  /\ Step(MGCycleStep(Ev.cls, Ev.stag))
  /\ (pc' = "finish") = Ev.stop
  /\ Ev.stop => msg' = Ev.msg
  /\ mgit' = Ev.it
TPsolve ==
  /\ More /\ Ev.e = "Psolve" /\ pc = "kry" /\ kpc \in {"p1", "p2"}
  /\ Step(KP1 \/ KP2)
  /\ runMg
  /\ \/ pc' = "finish" /\ Ev.outcome \in {"DIVERGED", "STAGNATED"}
        /\ msg' = IF Ev.outcome = "DIVERGED"
                  THEN "DIVERGED (returned field is zero)"
                  ELSE "STAGNATED (returned field is zero)"
     \/ pc' = "kry" /\ Ev.outcome = "converged" /\ msg' = "CONVERGED"
        /\ innerConv'
     \/ pc' = "kry" /\ Ev.outcome = "ran" /\ msg' = msg
        /\ innerConv' = innerConv
TCallback == /\ More /\ Ev.e = "Callback" /\ Step(KCallback)
             /\ (x.cls = "ok") = (Ev.cls = "ok")
TKReturn ==
  /\ More /\ Ev.e = "KReturn"
  /\ Step(KTop \/ KMid \/ GTop \/ GTest)
  /\ pc' = "finish"
  /\ (objs'[fobj].cls = "ok") = (Ev.cls = "ok")
  /\ CASE Ev.i = 0 -> msg' = (IF objs'[fobj].cls = "ok" THEN "CONVERGED"
                              ELSE "MAX. ITERATION REACHED, NOT CONVERGED")
       [] Ev.i > 0 -> msg' = "MAX. ITERATION REACHED, NOT CONVERGED"
       [] OTHER -> (msg' = "Error in solver" \/ (msg' = msg /\ msg # ""))

(* steps that leave no record *)
TSilent ==
  \/ Silent(FreshField) \/ Silent(ZeroSource) \/ Silent(Dispatch)
  \/ Silent(KUpdate) \/ Silent(GNext)
  \/ (~runMg /\ Silent(KP1 \/ KP2))
  \/ (Silent(KTop \/ KMid \/ GTop \/ GTest) /\ pc' = "kry")
  \/ (Silent(Finish) /\ ~More)

TraceNext == TSupplied \/ TDtype \/ TMGCycle \/ TPsolve \/ TCallback
             \/ TKReturn \/ TSilent
TraceSpec == TraceInit /\ [][TraceNext]_tvars

(* the final state agrees with what the caller observed *)
FinalAgrees ==
  /\ ret.exit = Fin.exit
  /\ msg = Fin.msg
  /\ (ret.field # "none") = Fin.returned
  /\ (CallerField.cls = "ok") = (Fin.cls = "ok")
  /\ CallerField.pec = Fin.pec
  /\ CallerField.zero = Fin.zero
  /\ cfg.given => (objs["supplied"].zero = Fin.supZero)
  /\ (ret.field = "supplied") = Fin.retSame
  /\ sslit = Fin.it_ssl
  /\ (cfg.ssl = "none") => (it = Fin.it_mg)
  /\ (Fin.exit = 0) =>
        (Describes(l2.src, CallerObj, CallerField) = Fin.absMatches)

Complete ==
  /\ ~More
  /\ \/ pc = "raised" /\ T.err # "none"
     \/ pc = "returned" /\ T.err = "none" /\ FinalAgrees

(* C01 stated directly on the observations of the real run *)
ObsP1 == (Returned /\ ~More /\ Fin.exit = 0 /\ ~cfg.zeroSrc) => Fin.cls = "ok"
ObsP2 == (Returned /\ ~More) => Fin.pec
ObsP3 == (Returned /\ ~More) => Fin.dtypeOk
ObsP4 == (Returned /\ ~More /\ Fin.exit = 0) =>
            (Fin.absMatches /\ Fin.relMatches /\ Fin.refMatches)
ObsP5 == (Returned /\ ~More /\ cfg.zeroSrc) =>
            (Fin.zero /\ Fin.exit = 0 /\ (cfg.given => Fin.supZero))
ObsP6 == (Returned /\ ~More /\ ~cfg.zeroSrc /\ Fin.cls # "ok") =>
            (Fin.exit = 1 /\ Fin.msg # "")
ObsP7 == (Returned /\ ~More) => (Fin.retInfo = cfg.retInfo)

(* every invariant of Solve.tla and every observation-level statement of   *)
(* C01 is evaluated in every state of every recorded execution; failures    *)
(* are collected per trace instead of stopping TLC at the first one         *)
InvTable == <<
  <<"P1_SuccessMeansSmallResidual", P1_SuccessMeansSmallResidual>>,
  <<"P2_PEC", P2_PEC>>, <<"P3_Dtype", P3_Dtype>>,
  <<"P4_FiguresDescribeField", P4_FiguresDescribeField>>,
  <<"P5_ZeroSource", P5_ZeroSource>>,
  <<"P5b_SuppliedZeroed", P5b_SuppliedZeroed>>,
  <<"P6_FailureReported", P6_FailureReported>>,
  <<"P7_ReturnShape", P7_ReturnShape>>, <<"P8_InPlace", P8_InPlace>>,
  <<"ObsP1", ObsP1>>, <<"ObsP2", ObsP2>>, <<"ObsP3", ObsP3>>,
  <<"ObsP4", ObsP4>>, <<"ObsP5", ObsP5>>, <<"ObsP6", ObsP6>>,
  <<"ObsP7", ObsP7>> >>
Failed == {InvTable[i][1] : i \in {j \in 1..Len(InvTable) : ~InvTable[j][2]}}

(* TLC chooses what was not logged; a branch whose final state disagrees    *)
(* with what the caller observed is not the recorded execution, so          *)
(* properties of returned states are judged on agreeing final states only   *)
FailedNow == IF pc = "returned" /\ ~Complete THEN {} ELSE Failed
Accept ==
  /\ IF FailedNow # {}
     THEN TLCSet(3, TLCGet(3) \cup {<<tid, f>> : f \in FailedNow}) ELSE TRUE
  /\ IF Complete THEN TLCSet(1, TLCGet(1) \cup {tid}) ELSE TRUE
  /\ IF Diag /\ l > TLCGet(2)[1]
     THEN TLCSet(2, <<l, [pc |-> pc, kpc |-> kpc, msg |-> msg, l2 |-> l2,
                         objs |-> objs, fobj |-> fobj, x |-> x, kit |-> kit,
                         mgit |-> mgit, ret |-> ret, inner |-> inner]>>)
     ELSE TRUE

Post ==
  /\ PrintT(<<"VP", "ntraces", Len(Traces)>>)
  /\ PrintT(<<"VP", "rejected", (1..Len(Traces)) \ TLCGet(1)>>)
  /\ PrintT(<<"VP", "invfail", TLCGet(3)>>)
  /\ IF Diag THEN PrintT(<<"VP", "maxl", TLCGet(2)[1]>>)
                  /\ PrintT(<<"VP", "laststate", TLCGet(2)[2]>>)
     ELSE TRUE
=============================================================================
