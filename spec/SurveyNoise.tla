----------------------------- MODULE SurveyNoise -----------------------------
(* Noise bookkeeping of emg3d.surveys.Survey (surveys.py): storage of        *)
(* noise_floor / relative_error as scalar attribute or broadcast data array  *)
(* (_set_nf_re 655-681), explicit standard_deviation (465-560), add_noise    *)
(* (590-653: amplitude cut, offset cut, noise), select incl. remove_empty    *)
(* recursion (316-400), copy / dict / file round trips, and the data the     *)
(* misfit is computed from (simulations.py 1159-1191).                       *)
(*                                                                           *)
(* A fixed 2 x 2 x 2 base survey; all numbers are small integers:            *)
(*   |d_obs| = Abs[s][r][f] (one entry NaN), offsets Off[s][r],              *)
(*   noise floor values and 4 x relative error values from the menus below.  *)
(* 16 * std^2 = 16 * nf^2 + (4 re)^2 * |d|^2  is an integer (StdSq16).       *)
EXTENDS Naturals, Integers, Sequences, FiniteSets, TLC

CONSTANTS MaxOps, Deviations   \* "AddNoiseHalvesArray": add_noise() with the
                               \* default min_amplitude halves an array-valued
                               \* stored noise floor in place
                               \* "CleanKeepsWeights": Simulation.clean(
                               \* 'computed') leaves data['weights'] in place

Idx == {1, 2}
Abs == << << <<5, 13>>, <<2, 5>> >>, << <<13, 0>>, <<5, 2>> >> >>  \* 0 = NaN
Off == << <<100, 200>>, <<300, 400>> >>          \* |receiver - source|
Inf == 100000

(* menus: value of an array-valued setting at original indices (s, r, f)    *)
(* pattern 1: per source, 2: per receiver, 3: per frequency, 4: full array  *)
NFVal(pat, s, r, f) == CASE pat = 1 -> <<1, 8>>[s] [] pat = 2 -> <<8, 30>>[r]
                         [] pat = 3 -> <<30, 1>>[f] [] pat = 4 -> s + 2*r + 4*f
REVal(pat, s, r, f) == CASE pat = 1 -> <<1, 2>>[s] [] pat = 2 -> <<2, 4>>[r]
                         [] pat = 3 -> <<4, 1>>[f] [] pat = 4 -> s + r + f
NoSet == [k |-> "none", v |-> 0, h |-> 0]
Settings == {NoSet} \cup {[k |-> "scalar", v |-> x, h |-> 0] : x \in {1, 8}}
              \cup {[k |-> "array", v |-> p, h |-> 0] : p \in 1..4}
KeyLists == {<<1, 2>>, <<1>>, <<2>>, <<2, 1>>}

VARIABLES keys,   \* [s, r, f]: current source / receiver / frequency key lists
          nan,    \* NaN mask of data.observed over original indices
          noisy,  \* noise has been added to data.observed
          extra,  \* a second data set exists (add_to='noise'): its NaN mask
          nf, re, \* noise_floor / relative_error storage
          stdx,   \* explicit standard_deviation: 0 = not set, 1 = set (array)
          wc,     \* data['weights'] = 1/std^2 as cached in the survey by a
                  \* long-lived Simulation: "none" | "cur" (computed from the
                  \* current noise settings and data) | "stale"
          nops, last

vars == <<keys, nan, noisy, extra, nf, re, stdx, wc, nops, last>>
NoExtra == [on |-> FALSE, nan |-> [t \in Idx \X Idx \X Idx |-> FALSE]]

Init ==
  /\ keys = [s |-> <<1, 2>>, r |-> <<1, 2>>, f |-> <<1, 2>>]
  /\ nan = [t \in Idx \X Idx \X Idx |-> Abs[t[1]][t[2]][t[3]] = 0]
  /\ noisy = FALSE /\ extra = NoExtra
  /\ nf = NoSet /\ re = NoSet /\ stdx = 0 /\ wc = "none"
  /\ nops = 0
  /\ last = [op |-> "init", a |-> <<>>, ok |-> TRUE]

Range(q) == {q[i] : i \in 1..Len(q)}
Cur == Range(keys.s) \X Range(keys.r) \X Range(keys.f)   \* current sub-cube
Step == IF MaxOps = 0 THEN nops' = nops ELSE (nops < MaxOps /\ nops' = nops + 1)

(* value of a setting at (s, r, f); x2 is twice the value after halvings    *)
Val(set, fn(_, _, _, _), t) ==
  IF set.k = "scalar" THEN set.v ELSE fn(set.v, t[1], t[2], t[3])
NFAt(t) == Val(nf, NFVal, t)
REAt(t) == Val(re, REVal, t)

(* 16 std^2 as the getter computes it (explicit std has priority) *)
StdDefined == stdx = 1 \/ nf.k # "none" \/ re.k # "none"
StdSq16(t) ==
  IF stdx = 1 THEN 16 * (t[1] + t[2] + t[3]) * (t[1] + t[2] + t[3])
  ELSE (IF nf.k = "none" THEN 0 ELSE 16 * NFAt(t) * NFAt(t))
       + (IF re.k = "none" THEN 0
          ELSE REAt(t) * REAt(t) * Abs[t[1]][t[2]][t[3]] * Abs[t[1]][t[2]][t[3]])

(* cached weights do not follow a change of what the std is computed from *)
Outdate == wc' = IF wc = "cur" THEN "stale" ELSE wc

(* ---- explicit assignments ---- *)
SetNF(x) == /\ Step /\ x \in Settings /\ nf' = x
            /\ last' = [op |-> "set_nf", a |-> <<x.k, x.v>>, ok |-> TRUE]
            /\ Outdate
            /\ UNCHANGED <<keys, nan, noisy, extra, re, stdx>>
SetRE(x) == /\ Step /\ x \in Settings /\ re' = x
            /\ last' = [op |-> "set_re", a |-> <<x.k, x.v>>, ok |-> TRUE]
            /\ Outdate
            /\ UNCHANGED <<keys, nan, noisy, extra, nf, stdx>>
(* a value <= 0 anywhere is refused and nothing changes *)
SetBad(which) == /\ Step /\ which \in {"set_nf", "set_re", "set_std"}
                 /\ last' = [op |-> which, a |-> <<"bad", 0>>, ok |-> FALSE]
                 /\ UNCHANGED <<keys, nan, noisy, extra, nf, re, stdx, wc>>
SetStd(x) == /\ Step /\ x \in {0, 1} /\ stdx' = x
             /\ last' = [op |-> "set_std", a |-> <<"std", x>>, ok |-> TRUE]
             /\ Outdate
             /\ UNCHANGED <<keys, nan, noisy, extra, nf, re>>

(* ---- add_noise(min_offset, max_offset, min_amplitude, add_to) ---- *)
AmpCut(minamp, t) ==      \* abs(d) < min_amplitude  (NaN compares False)
  /\ ~nan[t]               \* abs(NaN) < x is False (also after earlier cuts)
  /\ CASE minamp = "none" -> FALSE
       [] minamp = "v6" -> Abs[t[1]][t[2]][t[3]] < 6
       [] minamp = "half_nf" -> nf.k # "none" /\ 2 * Abs[t[1]][t[2]][t[3]] < NFAt(t)
OffCut(o, t) == Off[t[1]][t[2]] < o[1] \/ Off[t[1]][t[2]] > o[2]
AddNoise(minamp, addto, o) ==
  /\ Step
  /\ minamp \in {"half_nf", "none", "v6"} /\ addto \in {"observed", "noise"}
  /\ o \in {<<0, Inf>>, <<150, Inf>>, <<0, 350>>, <<250, 350>>}
  /\ noisy => minamp = "none"      \* magnitudes are abstract after noise
  /\ LET cut(t) == t \in Cur /\ (AmpCut(minamp, t) \/ OffCut(o, t))
     IN IF addto = "observed"
        THEN /\ nan' = [t \in Idx \X Idx \X Idx |-> nan[t] \/ cut(t)]
             /\ noisy' = (noisy \/ StdDefined)
             /\ extra' = extra
        ELSE /\ extra' = [on |-> TRUE,
                          nan |-> [t \in Idx \X Idx \X Idx |->
                                     (extra.on /\ extra.nan[t]) \/ cut(t)
                                     \/ (stdx = 0 /\ re.k # "none" /\ nan[t])]]
                          \* std (hence the noise) is NaN where |d_obs| enters
                          \* the formula and d_obs is NaN
             /\ UNCHANGED <<nan, noisy>>
  /\ nf' = IF "AddNoiseHalvesArray" \in Deviations /\ minamp = "half_nf"
              /\ nf.k = "array" THEN [nf EXCEPT !.h = @ + 1] ELSE nf
  /\ last' = [op |-> "add_noise", a |-> <<minamp, addto, o[1], o[2]>>, ok |-> TRUE]
  /\ IF addto = "observed" THEN Outdate ELSE wc' = wc
  /\ UNCHANGED <<keys, re, stdx>>

(* ---- select(sources, receivers, frequencies, remove_empty) ---- *)
(* transcription: first restrict to the chosen keys; if remove_empty and    *)
(* the restricted observed data has any finite entry, keep only the keys    *)
(* that have at least one non-NaN entry, in the order of the restricted     *)
(* survey (recursive select with remove_empty=False)                        *)
Pick(cur, sel) == IF sel = <<>> THEN cur ELSE sel      \* <<>> = None
SelSeq(q, keep) == SelectSeq(q, LAMBDA x : x \in keep)
Select(ss, rr, ff, rem) ==
  /\ Step
  /\ ss \in KeyLists \cup {<<>>} /\ rr \in KeyLists \cup {<<>>}
  /\ ff \in KeyLists \cup {<<>>}
  /\ Range(ss) \subseteq Range(keys.s) /\ Range(rr) \subseteq Range(keys.r)
  /\ Range(ff) \subseteq Range(keys.f)
  /\ LET k1 == [s |-> Pick(keys.s, ss), r |-> Pick(keys.r, rr),
                f |-> Pick(keys.f, ff)]
         cube == Range(k1.s) \X Range(k1.r) \X Range(k1.f)
         anyfinite == \E t \in cube : ~nan[t]
         ks == {s \in Range(k1.s) : \E t \in cube : t[1] = s /\ ~nan[t]}
         kr == {r \in Range(k1.r) : \E t \in cube : t[2] = r /\ ~nan[t]}
         kf == {f \in Range(k1.f) : \E t \in cube : t[3] = f /\ ~nan[t]}
     IN keys' = IF rem /\ anyfinite
                THEN [s |-> SelSeq(k1.s, ks), r |-> SelSeq(k1.r, kr),
                      f |-> SelSeq(k1.f, kf)]
                ELSE k1
  /\ last' = [op |-> "select", a |-> <<ss, rr, ff, rem>>, ok |-> TRUE]
  /\ UNCHANGED <<nan, noisy, extra, nf, re, stdx, wc>>

(* copy(), from_dict(to_dict()), from_file(to_file()): nothing changes *)
RoundTrip(how) ==
  /\ Step /\ how \in {"copy", "dict", "h5", "npz", "json"}
  /\ last' = [op |-> "roundtrip", a |-> <<how>>, ok |-> TRUE]
  /\ UNCHANGED <<keys, nan, noisy, extra, nf, re, stdx, wc>>

(* Simulation.misfit on a copy of the survey (cleaned first): reads,        *)
(* changes nothing                                                          *)
Misfit ==
  /\ Step /\ StdDefined
  /\ last' = [op |-> "misfit", a |-> <<>>, ok |-> TRUE]
  /\ UNCHANGED <<keys, nan, noisy, extra, nf, re, stdx, wc>>
(* a Simulation bound to THIS survey: clean('computed'), then misfit.  The   *)
(* clean drops the cached weights, the misfit recomputes them from the      *)
(* current noise settings and leaves them cached in the survey's data.      *)
SimMisfit ==
  /\ Step /\ StdDefined
  /\ wc' = IF "CleanKeepsWeights" \in Deviations /\ wc # "none" THEN wc ELSE "cur"
  /\ last' = [op |-> "sim_misfit", a |-> <<>>, ok |-> TRUE]
  /\ UNCHANGED <<keys, nan, noisy, extra, nf, re, stdx>>

(* a NEW Simulation created on THIS survey object (which may carry the      *)
(* weights an earlier Simulation cached in it), no clean: its misfit.  Named *)
(* deviation NewSimReusesWeights: misfit took data['weights'] as found.     *)
NewSimMisfit ==
  /\ Step /\ StdDefined
  /\ wc' = IF "NewSimReusesWeights" \in Deviations /\ wc # "none" THEN wc ELSE "cur"
  /\ last' = [op |-> "newsim_misfit", a |-> <<>>, ok |-> TRUE]
  /\ UNCHANGED <<keys, nan, noisy, extra, nf, re, stdx>>

Next ==
  \/ Misfit \/ SimMisfit \/ NewSimMisfit
  \/ \E x \in Settings : SetNF(x) \/ SetRE(x)
  \/ \E w \in {"set_nf", "set_re", "set_std"} : SetBad(w)
  \/ \E x \in {0, 1} : SetStd(x)
  \/ \E m \in {"half_nf", "none", "v6"}, a \in {"observed", "noise"},
       o \in {<<0, Inf>>, <<150, Inf>>, <<0, 350>>, <<250, 350>>} : AddNoise(m, a, o)
  \/ \E ss, rr, ff \in KeyLists \cup {<<>>}, rem \in BOOLEAN : Select(ss, rr, ff, rem)
  \/ \E h \in {"copy", "dict", "h5", "npz", "json"} : RoundTrip(h)

Spec == Init /\ [][Next]_vars

(* a sub-alphabet for random walks that dwell on the life of one Simulation *)
(* bound to the survey (every behaviour of SpecW is a behaviour of Spec)    *)
SetsW == {NoSet, [k |-> "scalar", v |-> 1, h |-> 0], [k |-> "array", v |-> 4, h |-> 0],
          [k |-> "array", v |-> 2, h |-> 0]}
NextW ==
  \/ SimMisfit \/ Misfit \/ NewSimMisfit
  \/ \E x \in SetsW : SetNF(x) \/ SetRE(x)
  \/ \E x \in {0, 1} : SetStd(x)
  \/ RoundTrip("copy") \/ RoundTrip("json")
  \/ \E a \in {"observed", "noise"}, o \in {<<0, Inf>>, <<150, Inf>>, <<250, 350>>} :
        AddNoise("none", a, o)     \* with cuts: the finiteness pattern changes
SpecW == Init /\ [][NextW]_vars

(* ============================ properties (C13) =========================== *)
TypeOK == /\ keys.s # <<>> /\ keys.r # <<>> /\ keys.f # <<>>
          /\ nf.k \in {"none", "scalar", "array"} /\ stdx \in {0, 1}

(* only explicit assignments change noise floor, relative error, std *)
OnlyAssignmentsChangeNoise ==
  [][(last'.op \notin {"set_nf", "set_re", "set_std"} \/ ~last'.ok)
        => UNCHANGED <<nf, re, stdx>>]_vars
NeverHalved == nf.h = 0 /\ re.h = 0
(* after the documented refresh (clean) the misfit of a long-lived          *)
(* simulation is computed from the current noise settings                   *)
SimMisfitFollowsNoise == last.op = "sim_misfit" => wc = "cur"
(* so is the misfit of a newly created simulation, whatever the survey      *)
(* object was used for before                                               *)
NewSimFollowsNoise == last.op = "newsim_misfit" => wc = "cur"

(* a selection contains exactly the chosen sub-cube (reference definition,  *)
(* independent of the transcription above): chosen keys in the chosen       *)
(* order; with remove_empty, minus the keys all of whose data are NaN -     *)
(* unless there is no finite datum at all                                   *)
IsSubSeqOf(a, b) == Range(a) \subseteq Range(b) /\ Len(a) = Cardinality(Range(a))
SelectIsSubcube ==
  [][last'.op = "select" =>
       LET a == last'.a
           want == [s |-> Pick(keys.s, a[1]), r |-> Pick(keys.r, a[2]),
                    f |-> Pick(keys.f, a[3])]
           cube == Range(want.s) \X Range(want.r) \X Range(want.f)
           dead(dim, x) == \A t \in cube : t[dim] = x => nan[t]
       IN IF a[4] /\ \E t \in cube : ~nan[t]
          THEN /\ keys'.s = SelSeq(want.s, {x \in Range(want.s) : ~dead(1, x)})
               /\ keys'.r = SelSeq(want.r, {x \in Range(want.r) : ~dead(2, x)})
               /\ keys'.f = SelSeq(want.f, {x \in Range(want.f) : ~dead(3, x)})
          ELSE keys' = want]_vars

(* data are only ever removed (set to NaN), never resurrected; and only by  *)
(* add_noise                                                                *)
NaNMonotone ==
  [][/\ \A t \in Idx \X Idx \X Idx : nan[t] => nan'[t]
     /\ (last'.op # "add_noise") => nan' = nan]_vars
=============================================================================
