------------------------------ MODULE Converge ------------------------------
(* Stand-alone multigrid on the reference problems of C06 as an iteration on *)
(* the residual norm: every fine-grid cycle multiplies it by a factor.  The  *)
(* factors themselves are real numbers (environment); what is discrete - and *)
(* what the O(N) claim of the documentation rests on - is the consequence:   *)
(* if every cycle contracts by at most the cap of its smoothing count, the   *)
(* number of cycles to reach the tolerance is at most Need (the smallest K   *)
(* with cap^K <= tol, an integer computed from cap and tol), whatever the    *)
(* number of unknowns.                                                       *)
(*   Cycle(good)   one fine-grid cycle; good: its factor is below the cap    *)
(*   Converge      the solver reports CONVERGED (possibly earlier than Need: *)
(*                 cycles may contract more than the cap)                    *)
(*   GiveUp        maxit reached / stagnation / divergence reported          *)
(* Properties:                                                               *)
(*   EveryCycleContracts  every cycle's factor is below the cap (in the      *)
(*                   exhaustive model: the environment assumption; deviation *)
(*                   Stall drops it)                                         *)
(*   BoundedCycles   converged => it <= Need                                 *)
(*   MustConverge    the run is never still going after Need cycles          *)
(*   NoGiveUp        the run never ends unconverged before maxit             *)
(* In traces (TraceConverge) the flags come from the recorded                *)
(* error_at_cycle of real solves; T.hindep says that the worst factor is not *)
(* larger than Slack times the one of the 16^3 grid (h-independence).        *)
EXTENDS Naturals, Integers, Sequences, TLC

CONSTANTS Need, MaxIt, Deviations

VARIABLES it, lvl, st, allgood
vars == <<it, lvl, st, allgood>>
Init == it = 0 /\ lvl = 0 /\ st = "run" /\ allgood = TRUE
Min2(a, b) == IF a <= b THEN a ELSE b

Cycle(good) ==
  /\ st = "run" /\ it < MaxIt
  /\ lvl < Need     \* the solver tests after every cycle: once Need good
                    \* cycles are done the residual IS below the tolerance
  /\ (good \/ "Stall" \in Deviations)
  /\ it' = it + 1
  /\ lvl' = IF good THEN Min2(lvl + 1, Need) ELSE lvl
  /\ allgood' = (allgood /\ good)
  /\ st' = st
Converge ==
  /\ st = "run" /\ it > 0
  /\ st' = "conv" /\ UNCHANGED <<it, lvl, allgood>>
GiveUp ==
  /\ st = "run" /\ it > 0
  /\ ~allgood            \* maxit is not reached with contracting cycles
  /\ st' = "fail" /\ UNCHANGED <<it, lvl, allgood>>
Next == \/ \E g \in BOOLEAN : Cycle(g)
        \/ Converge \/ GiveUp
Spec == Init /\ [][Next]_vars /\ WF_vars(Next)

TypeOK == it \in 0..MaxIt /\ lvl \in 0..Need /\ st \in {"run", "conv", "fail"}
EveryCycleContracts == allgood
BoundedCycles == st = "conv" => it <= Need
MustConverge == st = "run" => it <= Need
NoGiveUp == st # "fail"
Terminates == <>(st # "run")
=============================================================================
