------------------------------- MODULE GoodNr -------------------------------
(* meshes.good_mg_cell_nr against the grid-hierarchy specification:          *)
(* (i) exhaustive: every number p * 2^k the reference GoodNr admits can be   *)
(* halved at least min_div times (MGParams.Halvings) down to a coarsest      *)
(* count p <= max_lowest; (ii) the lists the REAL function returns for many  *)
(* parameter triples (file written by harness/c05.py) equal GoodNr.          *)
EXTENDS MGParams, TLC, Json, IOUtils, TLCExt

ASSUME TLCSet(1, {})
ASSUME TLCSet(3, {})
VARIABLES mx, ml, md, iid
vars == <<mx, ml, md, iid>>
Insts == IF "TRACE_FILE" \in DOMAIN IOEnv THEN JsonDeserialize(IOEnv.TRACE_FILE) ELSE <<>>

Init1 == mx \in {16, 100, 384, 1024} /\ ml \in {2, 3, 5, 7, 9, 19} /\ md \in 0..5 /\ iid = 0
Spec1 == Init1 /\ [][UNCHANGED vars]_vars
RECURSIVE Lowest(_)
Lowest(n) == IF n % 2 = 0 /\ n > 2 THEN Lowest(n \div 2) ELSE n
GoodNumbersAreGood ==
  \A n \in GoodNr(mx, ml, md) :
     /\ Halvings(n) >= (IF Lowest(n) = 2 THEN md - 1 ELSE md)
     /\ Lowest(n) <= (IF ml < 2 THEN 2 ELSE ml) \/ Lowest(n) = 2

InitC == iid \in 1..Len(Insts) /\ mx = 0 /\ ml = 0 /\ md = 0
SpecC == InitC /\ [][UNCHANGED vars]_vars
X == Insts[iid]
CodeEqualsRef == {X.out[i] : i \in 1..Len(X.out)} = GoodNr(X.mx, X.ml, X.md)
                 /\ \A i \in 1..(Len(X.out) - 1) : X.out[i] < X.out[i + 1]
Accept == IF CodeEqualsRef THEN TLCSet(1, TLCGet(1) \cup {iid})
          ELSE TLCSet(3, TLCGet(3) \cup {<<iid, "GoodNr">>})
Post ==
  /\ PrintT(<<"VP", "ntraces", Len(Insts)>>)
  /\ PrintT(<<"VP", "rejected", {}>>)
  /\ PrintT(<<"VP", "invfail", TLCGet(3)>>)
=============================================================================
