--------------------------- MODULE TraceMGCycle ---------------------------
(* Trace validation of recorded executions of emg3d.solver.multigrid()       *)
(* against MGCycle.  Nothing but event binding lives here: every step is an  *)
(* MGCycle action; all MGCycle invariants are checked in every state of      *)
(* every recorded execution (see TraceMGCycle.cfg).                          *)
EXTENDS MGCycle, Json, IOUtils, TLCExt, SequencesExt

ASSUME TLCSet(1, {})
ASSUME TLCSet(2, <<0, "none">>)
ASSUME TLCSet(3, {})

Traces == JsonDeserialize(IOEnv.TRACE_FILE)
Diag == "TRACE_DIAG" \in DOMAIN IOEnv

VARIABLES tid, l
tvars == <<vars, tid, l>>

T == Traces[tid]
Ev == T.ev[l]

TraceInit ==
  /\ tid \in 1..Len(Traces)
  /\ l = 1
  /\ InitWith([shape |-> Traces[tid].cfg.shape, cycle |-> Traces[tid].cfg.cycle,
               sc |-> Traces[tid].cfg.sc, lr |-> Traces[tid].cfg.lr,
               cl |-> Traces[tid].cfg.cl, maxit |-> Traces[tid].cfg.maxit,
               nu |-> Traces[tid].cfg.nu])

KernelSeq(axes) == IF axes = {} THEN <<0>> ELSE SetToSortSeq(axes, <)

IsSmooth(e) == e \in {"InitSmooth", "CoarsestSmooth", "PreSmooth", "PostSmooth"}

(* does the spec's observable step o equal the recorded event e ? *)
Match(o, e) ==
  /\ o.ev = e.e
  /\ CASE IsSmooth(e.e) ->
            /\ o.level = e.level /\ o.shape = e.shape /\ o.cycmax = e.cycmax
            /\ o.it = e.it /\ o.nu = e.nu /\ o.lr = e.lr
            /\ KernelSeq(o.axes) = e.k      \* kernels really called, in order
            /\ e.kshape = e.shape           \* on arrays of that very grid
       [] e.e = "Enter" ->
            o.level = e.level /\ o.shape = e.shape /\ o.newcm = e.newcm
       [] e.e = "Restrict" ->
            /\ o.level = e.level /\ o.shape = e.shape /\ o.csc = e.csc
            /\ o.cshape = e.cshape
       [] e.e = "Prolong" ->
            /\ o.level = e.level /\ o.shape = e.shape /\ o.csc = e.csc
            /\ o.cshape = e.cshape
       [] e.e = "Return" -> o.level = e.level
       [] e.e = "EndCycle" ->
            /\ o.it = e.it /\ o.git = e.git /\ o.sc = e.sc /\ o.lr = e.lr
            /\ o.stop = e.stop
            /\ ("qc" \in DOMAIN e) => qc' = e.qc
       [] OTHER -> FALSE

(* the header the solver printed: per-direction levels and coarsest shape *)
TraceHeader ==
  /\ l <= Len(T.ev) /\ Ev.e = "Header"
  /\ Ev.levels = DirLevels(cfg.shape, cfg.cl)
  /\ Ev.cshape = ReprShape(cfg.shape, cfg.cl)
  /\ Ev.notoptimal = NotOptimal(cfg.shape, cfg.cl)
  /\ l' = l + 1
  /\ UNCHANGED <<vars, tid>>

TraceVisible ==
  /\ l <= Len(T.ev)
  /\ Ev.e # "Header"
  /\ Visible
  /\ Match(obs', Ev)
  /\ l' = l + 1
  /\ UNCHANGED tid

(* steps of the code that leave no record: the counter update on a coarse   *)
(* level, and "the preconditioner is not called again"                      *)
TraceSilent ==
  /\ (Incr \/ Finish)
  /\ UNCHANGED <<tid, l>>

TraceNext == TraceHeader \/ TraceVisible \/ TraceSilent
TraceSpec == TraceInit /\ [][TraceNext]_tvars

Complete == l = Len(T.ev) + 1 /\ status # "run"

(* all MGCycle invariants, evaluated in every state of every recorded       *)
(* execution; failures are collected per trace                              *)
InvTable == <<
  <<"TypeOK", TypeOK>>, <<"AtLeastTwo", AtLeastTwo>>,
  <<"StackShape", StackShape>>, <<"HalveOnlyEvenGT2", HalveOnlyEvenGT2>>,
  <<"Progress", Progress>>, <<"NoLRAlongTwoCells", NoLRAlongTwoCells>>,
  <<"DepthBound", DepthBound>>, <<"BottomExact", BottomExact>>,
  <<"NotBottomCanCoarsen", NotBottomCanCoarsen>>,
  <<"HeaderShape", HeaderShape>>, <<"CycmaxRule", CycmaxRule>>,
  <<"DocOrder", DocOrder>>, <<"DocDepth", DocDepth>>,
  <<"QCIsFirstCycle", QCIsFirstCycle>> >>
Failed == {InvTable[i][1] : i \in {j \in 1..Len(InvTable) : ~InvTable[j][2]}}

Accept ==
  /\ IF Failed # {}
     THEN TLCSet(3, TLCGet(3) \cup {<<tid, f>> : f \in Failed}) ELSE TRUE
  /\ IF Complete THEN TLCSet(1, TLCGet(1) \cup {tid}) ELSE TRUE
  /\ IF Diag /\ l > TLCGet(2)[1]
     THEN TLCSet(2, <<l, [stack |-> stack, scPos |-> scPos, lrPos |-> lrPos,
                         gIt |-> gIt, status |-> status, obs |-> obs]>>)
     ELSE TRUE

Post ==
  /\ PrintT(<<"VP", "ntraces", Len(Traces)>>)
  /\ PrintT(<<"VP", "rejected", (1..Len(Traces)) \ TLCGet(1)>>)
  /\ PrintT(<<"VP", "invfail", TLCGet(3)>>)
  /\ IF Diag THEN PrintT(<<"VP", "maxl", TLCGet(2)[1]>>)
                  /\ PrintT(<<"VP", "laststate", TLCGet(2)[2]>>)
     ELSE TRUE
=============================================================================
