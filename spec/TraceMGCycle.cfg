SPECIFICATION TraceSpec
CONSTANTS
  Shapes = {}
  Cycles = {}
  ScPats = {}
  LrPats = {}
  CLevels = {}
  MaxIts = {}
  NuSets = {}
  MaxCalls = 100000
CONSTRAINT Accept
POSTCONDITION Post
PROPERTY AdvanceOncePerCycle
CHECK_DEADLOCK FALSE
