SPECIFICATION TraceSpec
CONSTANTS
  Shapes = {}
  Cycles = {}
  ScPats = {}
  LrPats = {}
  CLevels = {}
  MaxIts = {}
  NuSets = {}
  MaxCalls = 100000
CONSTRAINT Accept
POSTCONDITION Post
INVARIANT TypeOK
INVARIANT AtLeastTwo
INVARIANT StackShape
INVARIANT HalveOnlyEvenGT2
INVARIANT Progress
INVARIANT NoLRAlongTwoCells
INVARIANT DepthBound
INVARIANT BottomExact
INVARIANT NotBottomCanCoarsen
INVARIANT HeaderShape
INVARIANT CycmaxRule
INVARIANT DocOrder
INVARIANT DocDepth
INVARIANT QCIsFirstCycle
PROPERTY AdvanceOncePerCycle
CHECK_DEADLOCK FALSE
