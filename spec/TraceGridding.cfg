SPECIFICATION TraceSpec
CONSTANTS NNX = 18 MaxA = 1000 Deviations = {}
CONSTRAINT Accept
POSTCONDITION Post
CHECK_DEADLOCK FALSE
