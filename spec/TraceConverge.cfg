SPECIFICATION TraceSpec
CONSTANTS Need = 5 MaxIt = 50 Deviations = {}
CONSTRAINT Accept
POSTCONDITION Post
CHECK_DEADLOCK FALSE
