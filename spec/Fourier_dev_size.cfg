SPECIFICATION Spec
CONSTANTS
  Ns = {4, 5, 6}
  Deviations = {"SizeCompare"}
INVARIANT TypeOK
INVARIANT Partition
INVARIANT ComputeInBand
INVARIANT MutualExclusion
INVARIANT FilledCorrectly
INVARIANT TransformArgsCurrent
CHECK_DEADLOCK FALSE
