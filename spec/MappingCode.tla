----------------------------- MODULE MappingCode -----------------------------
(* Values of the REAL emg3d.maps.Map* classes on the lattice sigma = 10^k,   *)
(* recognised by harness/c14.py (|float - exact| <= 4 ulp) as               *)
(*   fwd  readings <<kind, n>> of forward(10^k)                             *)
(*   bwd  exponent of backward(forward(10^k))  (99: not a power of ten)     *)
(*   chn  readings <<s, a, b>> of derivative_chain applied to a gradient of *)
(*        ones                                                              *)
(* and floating-point observations obs (round trip and chain rule against   *)
(* central differences of the code's own backward map at random values over *)
(* twelve decades; equal VolumeModel coefficients, fields for all six       *)
(* parametrisations of one conductivity model).                             *)
EXTENDS Mapping, Json, IOUtils, TLCExt

ASSUME TLCSet(1, {})
ASSUME TLCSet(3, {})
Insts == JsonDeserialize(IOEnv.TRACE_FILE)
VARIABLE iid
X == Insts[iid]
InitC == iid \in 1..Len(Insts) /\ st = <<"Conductivity", 0>>
SpecC == InitC /\ [][UNCHANGED <<iid, st>>]_<<iid, st>>

(* a float may be recognisable in more than one way (1 = 10^0, 0 = 0 ln 10, *)
(* sigma^a = 1 for k = 0): the harness lists every reading, the reference   *)
(* must be among them                                                       *)
FwdOK == \E i \in 1..Len(X.fwd) : <<X.fwd[i][1], X.fwd[i][2]>> = Fwd(X.m, X.k)
BwdOK == X.bwd = X.k
ChnOK == \E i \in 1..Len(X.chn) : <<X.chn[i][1], X.chn[i][2], X.chn[i][3]>> = Chain(X.m)
Table == << <<"FwdOK", FwdOK>>, <<"BwdOK", BwdOK>>, <<"ChnOK", ChnOK>>,
            <<"Observations", X.obs>> >>
Failed == {Table[i][1] : i \in {j \in 1..Len(Table) : ~Table[j][2]}}
Accept ==
  /\ IF Failed # {} THEN TLCSet(3, TLCGet(3) \cup {<<iid, f>> : f \in Failed})
     ELSE TLCSet(1, TLCGet(1) \cup {iid})
Post ==
  /\ PrintT(<<"VP", "ntraces", Len(Insts)>>)
  /\ PrintT(<<"VP", "rejected", {}>>)
  /\ PrintT(<<"VP", "invfail", TLCGet(3)>>)
=============================================================================
