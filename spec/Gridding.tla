------------------------------ MODULE Gridding ------------------------------
(* Automatic gridding: the search of meshes.origin_and_widths over cell     *)
(* numbers and stretching factors and the composition of three directions   *)
(* in meshes.construct_mesh (meshes.py).                                    *)
(*                                                                          *)
(* One action per call of meshes._stretch, the only place where a candidate *)
(* (cell number, stretching) is tried:                                      *)
(*   SurveyCall   survey domain, stretching sa in [1, stretching[0]]        *)
(*   CompCall     computational domain (buffer), ca in [sa, stretching[1]], *)
(*                started from the output of the successful SurveyCall      *)
(* The loops `for nx / for sa / for ca` are not observable themselves; each *)
(* call carries whether its candidate is the first / last of its loop, so   *)
(* the loop bookkeeping is folded into the calls (no silent steps).         *)
(* Whether a candidate fits is the environment's answer (real arithmetic on *)
(* widths): nondeterministic here, recorded in traces.                      *)
(*                                                                          *)
(* Properties (C16, discrete part):                                         *)
(*  FirstFit      the mesh returned is the output of the FIRST fitting      *)
(*                candidate in the order (cell number, sa, ca) ascending:   *)
(*                fewest cells, least stretching                            *)
(*  FailsLoudly   no mesh is returned without a fitting candidate; failure  *)
(*                is reported only after EVERY permitted cell number and    *)
(*                every stretching has been tried; it is an error (or None  *)
(*                if the caller asked for that), never a mesh               *)
(*  Chained       the buffer is always grown from the survey-domain result  *)
(*                of the same cell number                                   *)
(*  PostOK        a returned mesh satisfies the postconditions (in the      *)
(*                exhaustive model by assumption on _stretch: EnvAssume; in *)
(*                traces: booleans computed by the harness from the         *)
(*                returned widths and the documented formulas)              *)
(*  ThreeDirs     construct_mesh runs all three directions, returns a mesh  *)
(*                iff all three found one, raises otherwise                 *)
EXTENDS Naturals, Integers, Sequences, FiniteSets, TLC

CONSTANTS NNX,        \* number of permitted cell numbers
          MaxA,       \* bound on candidates per stretching loop (exhaustive)
          Deviations

PostKeys == {"count", "positive", "cover", "stretch", "center", "vector", "sea"}
AllTrue == [k \in PostKeys |-> TRUE]

VARIABLES
  mode,     \* "direct" (origin_and_widths called by the user, raise_error
            \* TRUE) | "mesh" (construct_mesh: three directions)
  dir,      \* current direction 1..3 (mode "mesh"), 1 otherwise
  cur,      \* index of the current cell number (0: search not started)
  sN, sLast, sOK,   \* survey loop of cur: calls made, last candidate?, fitted?
  cN, cLast, cOK,   \* buffer loop of the current survey candidate
  fits,     \* number of fitting buffer calls of this direction so far
  lastFit,  \* the last call was a fitting buffer call
  tried,    \* indices of the cell numbers a survey call was made for
  res,      \* result of the current direction: "none" (running) | "found"
            \* | "mesh" | "error" | "nothing" (None returned)
  post,     \* postconditions of the returned widths
  outs,     \* results of finished directions (mode "mesh")
  final     \* "none" | "mesh" | "error": what construct_mesh did
vars == <<mode, dir, cur, sN, sLast, sOK, cN, cLast, cOK, fits, lastFit, tried, res, post, outs, final>>

InitDir ==
  /\ cur = 0 /\ sN = 0 /\ sLast = FALSE /\ sOK = FALSE
  /\ cN = 0 /\ cLast = FALSE /\ cOK = FALSE /\ res = "none"
  /\ fits = 0 /\ lastFit = FALSE /\ tried = {}
  /\ post = AllTrue
Init == /\ mode \in {"direct", "mesh"} /\ dir = 1 /\ outs = <<>> /\ final = "none"
        /\ InitDir

(* the buffer loop of the previous survey candidate is over without success *)
LoopDone == sN = 0 \/ ~sOK \/ (cN > 0 /\ cLast /\ ~cOK)
Running == res = "none" /\ final = "none"

SurveyCall(first, last, ok) ==
  /\ Running /\ LoopDone
  /\ IF first THEN /\ (cur = 0 \/ sLast) /\ cur < NNX
                   /\ cur' = cur + 1 /\ sN' = 1
     ELSE /\ cur > 0 /\ ~sLast /\ sN < MaxA
          /\ cur' = cur /\ sN' = sN + 1
  /\ (sN' = MaxA => last)
  /\ sLast' = last /\ sOK' = ok
  /\ cN' = 0 /\ cLast' = FALSE /\ cOK' = FALSE
  /\ tried' = tried \cup {cur'} /\ lastFit' = FALSE /\ fits' = fits
  /\ UNCHANGED <<mode, dir, res, post, outs, final>>

CompCall(first, last, ok) ==
  /\ Running /\ sN > 0 /\ sOK /\ ~cOK
  /\ IF first THEN cN = 0 ELSE cN > 0 /\ ~cLast /\ cN < MaxA
  /\ cN' = cN + 1 /\ (cN' = MaxA => last)
  /\ cLast' = last /\ cOK' = ok
  /\ res' = IF ok THEN "found" ELSE "none"
  /\ fits' = IF ok THEN fits + 1 ELSE fits
  /\ lastFit' = ok
  /\ UNCHANGED <<mode, dir, cur, sN, sLast, sOK, tried, post, outs, final>>

(* origin_and_widths returns the widths of the fitting candidate *)
Return(p) ==
  /\ res = "found" /\ final = "none"
  /\ res' = "mesh" /\ post' = p
  /\ UNCHANGED <<mode, dir, cur, sN, sLast, sOK, cN, cLast, cOK, fits, lastFit, tried, outs, final>>

Exhausted == cur = NNX /\ sN > 0 /\ sLast /\ LoopDone
(* "No suitable grid found": RuntimeError, or None's if raise_error=False *)
Fail ==
  /\ Running
  /\ IF "GiveUpEarly" \in Deviations THEN cur > 0 /\ LoopDone ELSE Exhausted
  /\ res' = IF mode = "direct" THEN "error" ELSE "nothing"
  /\ UNCHANGED <<mode, dir, cur, sN, sLast, sOK, cN, cLast, cOK, fits, lastFit, tried, post, outs, final>>

(* construct_mesh: next direction / final verdict *)
NextDir ==
  /\ mode = "mesh" /\ final = "none" /\ res \in {"mesh", "nothing"} /\ dir < 3
  /\ outs' = Append(outs, res) /\ dir' = dir + 1
  /\ cur' = 0 /\ sN' = 0 /\ sLast' = FALSE /\ sOK' = FALSE
  /\ cN' = 0 /\ cLast' = FALSE /\ cOK' = FALSE /\ res' = "none"
  /\ fits' = 0 /\ lastFit' = FALSE /\ tried' = {}
  /\ UNCHANGED <<mode, post, final>>
Finish ==
  /\ final = "none"
  /\ IF mode = "direct" THEN /\ res \in {"mesh", "error"} /\ final' = res /\ outs' = outs
     ELSE /\ res \in {"mesh", "nothing"} /\ dir = 3
          /\ outs' = Append(outs, res)
          /\ final' = IF \E k \in 1..3 : outs'[k] = "nothing" THEN "error" ELSE "mesh"
  /\ UNCHANGED <<mode, dir, cur, sN, sLast, sOK, cN, cLast, cOK, fits, lastFit, tried, res, post>>

Next == \/ \E f, l, o \in BOOLEAN : SurveyCall(f, l, o) \/ CompCall(f, l, o)
        \/ Return(AllTrue)        \* EnvAssume: _stretch's contract
        \/ Fail \/ NextDir \/ Finish
Spec == Init /\ [][Next]_vars /\ WF_vars(Next)

(* ------------------------------ properties ------------------------------ *)
TypeOK == /\ cur \in 0..NNX /\ sN \in 0..MaxA /\ cN \in 0..MaxA /\ dir \in 1..3
          /\ res \in {"none", "found", "mesh", "error", "nothing"}
          /\ final \in {"none", "mesh", "error"}
FirstFit == res \in {"found", "mesh"} => (fits = 1 /\ lastFit)
(* every permitted cell number was tried before giving up *)
FailsLoudly == res \in {"error", "nothing"} => (fits = 0 /\ tried = 1..NNX)
(* cell numbers are tried in ascending order, none skipped *)
Ascending == [][cur' = cur \/ cur' = cur + 1 \/ cur' = 0]_vars
NoGaps == tried = 1..cur
(* a buffer call is only made for a survey candidate that fitted (guard of  *)
(* CompCall) - stated on the state: a fit implies a fitting survey call     *)
Chained == (cN > 0 \/ fits > 0) => sOK
PostOK == res = "mesh" => \A k \in PostKeys : post[k]
ThreeDirs ==
  final # "none" =>
     IF mode = "direct" THEN final = res
     ELSE /\ Len(outs) = 3
          /\ final = (IF \A k \in 1..3 : outs[k] = "mesh" THEN "mesh" ELSE "error")
NeverMeshWithoutFit == final = "mesh" /\ mode = "direct" => fits = 1
Terminates == <>(final # "none")
=============================================================================
