---------------------------- MODULE SmootherCode ----------------------------
(* Observations of the real smoothers (harness/c03.py), checked by TLC       *)
(* against the structure of Smoother.tla.                                    *)
EXTENDS Smoother, Json, IOUtils, TLCExt

(* ------------------ observations of the real code ----------------------- *)
ASSUME TLCSet(1, {})
ASSUME TLCSet(3, {})
Insts == JsonDeserialize(IOEnv.TRACE_FILE)
VARIABLE iid
X == Insts[iid]
InitC == iid \in 1..Len(Insts) /\ sh = <<2, 2, 2>> /\ lrc = 0 /\ nuc = 1
SpecC == InitC /\ [][UNCHANGED <<iid, sh, lrc, nuc>>]_<<iid, sh, lrc, nuc>>

ToSet4(q) == {<<q[i][1], q[i][2], q[i][3], q[i][4]>> : i \in 1..Len(q)}
SmoothOK ==
  LET zr == ToSet4(X.zerores)
  IN /\ X.kernels = KernelSeq(CLrDir(X.lr, X.shape))          \* dispatch
     /\ \A a \in LrAxes(CLrDir(X.lr, X.shape)) : X.shape[a] > 2
     /\ LastBlockEdges(X.shape, X.lr, X.nu) \subseteq zr       \* last block exact
     /\ X.boundarywritten = 0                                  \* PEC untouched
     /\ X.fixedpoint /\ X.affine /\ X.samejit
BandOK ==
  /\ \A t \in {X.tags[i] : i \in 1..Len(X.tags)} :
        \* <<pos, kind, im, k, m>>: element (k,m) of block-row im was stored at pos
        t[1] = (IF t[2] = "middle" THEN MiddleAt(t[3], t[4], t[5])
                ELSE LeftAt(t[3], t[4], t[5]))
  /\ Cardinality({X.tags[i][1] : i \in 1..Len(X.tags)}) = Len(X.tags)   \* injective
  /\ X.solveexact
OK == IF X.kind = "smooth" THEN SmoothOK ELSE BandOK
Failed == IF OK THEN {} ELSE {X.kind}
Accept ==
  /\ IF Failed # {} THEN TLCSet(3, TLCGet(3) \cup {<<iid, f>> : f \in Failed})
     ELSE TLCSet(1, TLCGet(1) \cup {iid})
Post ==
  /\ PrintT(<<"VP", "ntraces", Len(Insts)>>)
  /\ PrintT(<<"VP", "rejected", {}>>)
  /\ PrintT(<<"VP", "invfail", TLCGet(3)>>)

=============================================================================
