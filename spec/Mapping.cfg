SPECIFICATION Spec
CONSTANT KMax = 6
INVARIANT RoundTrip
INVARIANT SameSigma
INVARIANT Reciprocal
INVARIANT ChainIsDerivative
INVARIANT ChainSign
