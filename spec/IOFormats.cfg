SPECIFICATION Spec
CONSTANTS
  Formats = {"h5", "npz", "json"}
  Classes <- FewClasses
  MaxDepth = 2
INVARIANT RoundTrip
INVARIANT ContentPreserved
CHECK_DEADLOCK FALSE
