SPECIFICATION TraceSpec
CONSTRAINT Accept
POSTCONDITION Post
CHECK_DEADLOCK FALSE
