SPECIFICATION Spec
CONSTANTS Need = 5 MaxIt = 8 Deviations = {"Stall"}
INVARIANT BoundedCycles
CHECK_DEADLOCK FALSE
