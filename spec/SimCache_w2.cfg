SPECIFICATION Spec
CONSTANTS
  Pairs = {1, 2}
  MaxModel = 2
  FileMode = FALSE
  MaxOps = 0
  Layered = FALSE
  NObj = 2
  Deviations = {}
CHECK_DEADLOCK FALSE
