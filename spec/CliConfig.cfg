SPECIFICATION Spec
CONSTANTS
  Deviations = {}
INVARIANT DocKeysParsed
INVARIANT EveryDocKeyAccepted
INVARIANT UnknownRejected
INVARIANT Precedence
INVARIANT OutputKeys
INVARIANT DryRunComputesNothing
INVARIANT CacheIsLoadAndSave
CHECK_DEADLOCK FALSE
