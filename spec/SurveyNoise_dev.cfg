SPECIFICATION Spec
CONSTANTS
  MaxOps = 3
  Deviations = {"AddNoiseHalvesArray"}
INVARIANT TypeOK
INVARIANT NeverHalved
INVARIANT SimMisfitFollowsNoise
PROPERTY OnlyAssignmentsChangeNoise
PROPERTY SelectIsSubcube
PROPERTY NaNMonotone
CHECK_DEADLOCK FALSE
