SPECIFICATION Spec
INVARIANT GivenWins
INVARIANT Complete
INVARIANT EstimateOnlyMissing
INVARIANT DomainPriority
