SPECIFICATION SpecC
CONSTANTS
  Shapes1 = {}
  Widths1 = {}
CONSTRAINT Accept
POSTCONDITION Post
CHECK_DEADLOCK FALSE
