SPECIFICATION Spec
INVARIANT RejectsBadValues
CHECK_DEADLOCK FALSE
