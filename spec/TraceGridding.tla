--------------------------- MODULE TraceGridding ---------------------------
(* Recorded calls of the real meshes.construct_mesh / origin_and_widths     *)
(* validated against Gridding.  harness/c16.py wraps meshes._stretch and    *)
(* meshes.origin_and_widths at run time.  Events:                           *)
(*  Dir{d}        origin_and_widths entered for direction d (construct_mesh)*)
(*  S{i,first,last,mono,ok}  _stretch(use_up=False): cell number with index *)
(*                i in the sorted permitted list; stretching is the first   *)
(*                (= 1.0) / last (= stretching[0]) of its loop; larger than *)
(*                the previous one; did it fit                              *)
(*  C{i,first,last,mono,ok,chained}  _stretch(use_up=True): first (= sa) /  *)
(*                last (= stretching[1]); chained: started from the output  *)
(*                of the last fitting S call                                *)
(*  Ret{same,post}  widths returned: same as the output of the last C call; *)
(*                post: the postconditions of C16 evaluated by the harness  *)
(*                on the returned origin/widths with the documented formulas*)
(* Runs of identical calls in the middle of a loop (not first, not last, no  *)
(* fit) are run-length encoded by the harness (field rep): they do not      *)
(* change the state of the specification.                                  *)
(*  None / Raise  no grid found (raise_error False / True)                  *)
(*  End{what}     what the top-level call did: "mesh" | "error"             *)
EXTENDS Gridding, Json, IOUtils, TLCExt

ASSUME TLCSet(1, {})
ASSUME TLCSet(2, <<0, "none">>)
ASSUME TLCSet(3, {})
Traces == JsonDeserialize(IOEnv.TRACE_FILE)
Diag == "TRACE_DIAG" \in DOMAIN IOEnv

VARIABLES tid, l
tvars == <<vars, tid, l>>
T == Traces[tid]
Ev == T.ev[l]
More == l <= Len(T.ev)

TraceInit == /\ tid \in 1..Len(Traces) /\ l = 1
             /\ mode = T.mode /\ dir = 1 /\ outs = <<>> /\ final = "none" /\ InitDir
Step(a) == More /\ a /\ l' = l + 1 /\ UNCHANGED tid

TDir == /\ More /\ Ev.e = "Dir" /\ mode = "mesh"
        /\ IF Ev.d = 1 THEN /\ dir = 1 /\ cur = 0 /\ res = "none"
                            /\ l' = l + 1 /\ UNCHANGED <<vars, tid>>
           ELSE Step(NextDir) /\ dir' = Ev.d
TS == /\ More /\ Ev.e = "S" /\ Step(SurveyCall(Ev.first, Ev.last, Ev.ok))
      /\ Ev.i = cur' /\ (Ev.first \/ Ev.mono)
TC == /\ More /\ Ev.e = "C" /\ Step(CompCall(Ev.first, Ev.last, Ev.ok))
      /\ Ev.i = cur /\ Ev.chained /\ (Ev.first \/ Ev.mono)
TRet == /\ More /\ Ev.e = "Ret" /\ Ev.same
        /\ Step(Return([k \in PostKeys |-> Ev.post[k]]))
TFail == /\ More /\ Ev.e \in {"None", "Raise"} /\ Step(Fail)
         /\ (Ev.e = "Raise") = (mode = "direct")
TEnd == More /\ Ev.e = "End" /\ Step(Finish) /\ final' = Ev.what

TraceNext == TDir \/ TS \/ TC \/ TRet \/ TFail \/ TEnd
TraceSpec == TraceInit /\ [][TraceNext]_tvars

Complete == ~More /\ final # "none"

InvTable == << <<"TypeOK", TypeOK>>, <<"FirstFit", FirstFit>>,
               <<"FailsLoudly", FailsLoudly>>, <<"NoGaps", NoGaps>>,
               <<"Chained", Chained>>, <<"ThreeDirs", ThreeDirs>>,
               <<"NeverMeshWithoutFit", NeverMeshWithoutFit>>,
               <<"Post_count", res = "mesh" => post["count"]>>,
               <<"Post_positive", res = "mesh" => post["positive"]>>,
               <<"Post_cover", res = "mesh" => post["cover"]>>,
               <<"Post_stretch", res = "mesh" => post["stretch"]>>,
               <<"Post_center", res = "mesh" => post["center"]>>,
               <<"Post_vector", res = "mesh" => post["vector"]>>,
               <<"Post_sea", res = "mesh" => post["sea"]>> >>
Failed == {InvTable[i][1] : i \in {j \in 1..Len(InvTable) : ~InvTable[j][2]}}

Accept ==
  /\ IF Failed # {}
     THEN TLCSet(3, TLCGet(3) \cup {<<tid, f>> : f \in Failed}) ELSE TRUE
  /\ IF Complete THEN TLCSet(1, TLCGet(1) \cup {tid}) ELSE TRUE
  /\ IF Diag /\ l > TLCGet(2)[1]
     THEN TLCSet(2, <<l, [dir |-> dir, cur |-> cur, sN |-> sN, sLast |-> sLast,
                         sOK |-> sOK, cN |-> cN, cLast |-> cLast, cOK |-> cOK,
                         res |-> res, outs |-> outs]>>)
     ELSE TRUE

Post ==
  /\ PrintT(<<"VP", "ntraces", Len(Traces)>>)
  /\ PrintT(<<"VP", "rejected", (1..Len(Traces)) \ TLCGet(1)>>)
  /\ PrintT(<<"VP", "invfail", TLCGet(3)>>)
  /\ IF Diag THEN PrintT(<<"VP", "maxl", TLCGet(2)[1]>>)
                  /\ PrintT(<<"VP", "laststate", TLCGet(2)[2]>>)
     ELSE TRUE
=============================================================================
