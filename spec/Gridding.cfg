SPECIFICATION Spec
CONSTANTS NNX = 4 MaxA = 3 Deviations = {}
INVARIANT TypeOK
INVARIANT FirstFit
INVARIANT FailsLoudly
INVARIANT NoGaps
PROPERTY Ascending
INVARIANT Chained
INVARIANT PostOK
INVARIANT ThreeDirs
INVARIANT NeverMeshWithoutFit
PROPERTY Terminates
CHECK_DEADLOCK FALSE
