SPECIFICATION SpecC
CONSTRAINT Accept
POSTCONDITION Post
CHECK_DEADLOCK FALSE
