---------------------------- MODULE GridOptsCode ----------------------------
(* What the REAL estimate_gridding_opts returned, classified by the harness:   *)
(*  X.given, X.vecstr, X.prov       the input (keys given; per-direction       *)
(*                                  provenance of the survey domain)           *)
(*  X.out[key]   "given" (identical to the given value, triples as x/y/z       *)
(*               dict) | "model" | "survey" | "grid" (= the harness's own      *)
(*               estimate from model / survey / model grid) | "none" | "absent"*)
(*               | "other"                                                     *)
(*  X.dom[d]     "given" | "none" | "vector" | "survey" | "other";             *)
(*  X.widened[d] the extent was widened beyond the survey's +10 %              *)
(*  X.obs        floating-point observations (ratio rules, 9:1 split)          *)
EXTENDS GridOpts, Json, IOUtils, TLCExt
ASSUME TLCSet(1, {})
ASSUME TLCSet(3, {})
Insts == JsonDeserialize(IOEnv.TRACE_FILE)
VARIABLE iid
X == Insts[iid]
InitC == iid \in 1..Len(Insts) /\ st = [given |-> {}, vecstr |-> FALSE, prov |-> [d \in 1..3 |-> "survey"]]
SpecC == InitC /\ [][UNCHANGED <<iid, st>>]_<<iid, st>>
Given == {X.given[k] : k \in 1..Len(X.given)}
KeysOK == \A k \in Keys \ {"domain"} : X.out[k] = Expect(k, Given, X.vecstr)
DomOK == \A d \in 1..3 : X.dom[d] = ExpectDom(X.prov[d])
WidenOK == \A d \in 1..3 : X.widened[d] => X.prov[d] = "survey"
Table == << <<"KeysOK", KeysOK>>, <<"DomOK", DomOK>>, <<"WidenOK", WidenOK>>,
            <<"Observations", X.obs>> >>
Failed == {Table[i][1] : i \in {j \in 1..Len(Table) : ~Table[j][2]}}
Accept ==
  /\ IF Failed # {} THEN TLCSet(3, TLCGet(3) \cup {<<iid, f>> : f \in Failed})
     ELSE TLCSet(1, TLCGet(1) \cup {iid})
Post ==
  /\ PrintT(<<"VP", "ntraces", Len(Insts)>>)
  /\ PrintT(<<"VP", "rejected", {}>>)
  /\ PrintT(<<"VP", "invfail", TLCGet(3)>>)
=============================================================================
