"""C19 - layered (1-D) mode: discrete clauses decided by TLC, the agreement
with the 1-D reference modeller observed on every recorded run.

1. TLC checks Layered.tla exhaustively (2 sources x 2 receivers x 2
   frequencies x 2 layers, every finiteness pattern of the observed data, all
   five extraction methods, isotropic / VTI, forward and gradient):
   TripleRule, NeverUnwanted, CallsExact, PointsRule, GradComplete,
   NoYGradient, FDOrder, termination; the named deviation "AllFreqs" must be
   found.  Extract1D.tla: laws of the reference selection / weights on every
   instance of a bounded family.
2. Real layered Simulations (laterally invariant isotropic / VTI models in all
   six mappings on stretched grids, electric / magnetic point and dipole
   sources, electric / magnetic receivers, with / without observed data and
   NaN gaps, all methods, random ellipse settings) are recorded
   (_multiprocessing.layered, _empymod_fwd and Model.extract_1d wrapped at
   run time) and every _compute_1d call is validated by TLC against Layered
   (TraceLayered).  The End event carries, per triple, whether the stored
   response equals the response of the 1-D modeller called DIRECTLY by the
   harness with the layering; obsok carries the floating-point observations
   (independence of method / ellipse, gradient layer sums = change of the
   misfit under a uniform perturbation of the layer, shape, finiteness).
3. The REAL maps.ellipse_indices / Model.extract_1d are run on instances with
   integer cell centres; TLC checks the selected cells against the ellipse of
   the documentation and the interpolation matrix entry by entry against the
   area weights (Extract1DCode), non-negativity and sum one on the code's own
   numbers.
"""
import json
import multiprocessing as mp
import os
import random
from fractions import Fraction

from . import common as C

NS, NR, NF, NZ = 2, 3, 2, 5
MAPS = ["Conductivity", "Resistivity", "LgConductivity", "LgResistivity",
        "LnConductivity", "LnResistivity"]
METHODS = ["midpoint", "source", "receiver", "prism", "cylinder"]
EPS = 1e-4          # relative perturbation of the documented FD gradient


# --------------------------------------------------------------------------
# real simulations -> traces
# --------------------------------------------------------------------------
def _fwd_map(name, cond):
    import numpy as np
    return {"Conductivity": lambda c: c, "Resistivity": lambda c: 1.0/c,
            "LgConductivity": np.log10, "LgResistivity": lambda c: -np.log10(c),
            "LnConductivity": np.log, "LnResistivity": lambda c: -np.log(c)
            }[name](cond)


def _dcond_dm(name, cond):
    """d sigma / d m (harness's own formulas)."""
    import numpy as np
    return {"Conductivity": 1.0 + 0*cond, "Resistivity": -cond**2,
            "LgConductivity": cond*np.log(10), "LgResistivity": -cond*np.log(10),
            "LnConductivity": cond, "LnResistivity": -cond}[name]


class _Case:
    """Grid, layering, survey of one job (deterministic in the seed)."""

    def __init__(self, job):
        import numpy as np
        import emg3d
        self.job = job
        rng = np.random.default_rng(job["seed"])
        self.rng = rng
        fx = np.array([1.6, 1.25, 1.0, 1.0, 1.0, 1.0, 1.25, 1.6])
        hx = 250*fx*rng.uniform(0.9, 1.1, fx.size)
        hy = 250*fx[:7]*rng.uniform(0.9, 1.1, 7)
        hz = rng.uniform(80, 300, NZ)
        self.grid = emg3d.TensorMesh([hx, hy, hz],
                                     (-hx.sum()/2, -hy.sum()/2, -hz.sum()))
        self.mapping = job["mapping"]
        self.vti = job["vti"]
        self.cond_h = 10**rng.uniform(-1.5, 0.5, NZ)
        self.cond_v = self.cond_h/rng.uniform(1.0, 3.0, NZ) if self.vti \
            else None
        self.mu_r = rng.uniform(1, 2, NZ) if job["mu"] else None
        self.eps_r = rng.uniform(1, 20, NZ) if job["eps"] else None
        zc = self.grid.cell_centers_z
        nz = self.grid.nodes_z

        def zpos():
            k = rng.integers(1, NZ-1)
            return float(zc[k] + 0.2*(nz[k+1]-nz[k])*rng.uniform(-1, 1))

        def xy(lim=600):
            return float(rng.uniform(-lim, lim)), float(rng.uniform(-lim, lim))
        kinds = list(job["src_kinds"])
        self.sources, self.src_ref, centres = {}, [], []
        for i, k in enumerate(kinds):
            x, y = xy(400)
            z = zpos()
            az, el = float(rng.uniform(-180, 180)), float(rng.uniform(-30, 30))
            strength = float(rng.choice([1.0, 0.0, 2.5]))
            if k in ("ed", "md"):
                # a finite dipole in one of the three accepted formats; the
                # reference modeller gets its two electrodes
                L = float(rng.choice([1.0, 40.0, 150.0]))
                u = np.array([np.cos(np.deg2rad(az))*np.cos(np.deg2rad(el)),
                              np.sin(np.deg2rad(az))*np.cos(np.deg2rad(el)),
                              np.sin(np.deg2rad(el))])
                c = np.array([x, y, z])
                e0, e1 = c - L/2*u, c + L/2*u
                fmt = job.get("src_fmt", ["flat"]*NS)[i]
                if fmt == "point":
                    coo, kw = (x, y, z, az, el), {"length": L}
                elif fmt == "array":
                    coo, kw = np.array([e0, e1]), {}
                else:
                    coo, kw = (e0[0], e1[0], e0[1], e1[1], e0[2], e1[2]), {}
                cls = emg3d.TxElectricDipole if k == "ed" \
                    else emg3d.TxMagneticDipole
                src = cls(coo, strength=strength, **kw)
                self.src_ref.append([e0[0], e1[0], e0[1], e1[1], e0[2], e1[2]])
            else:
                cls = emg3d.TxElectricPoint if k == "ep" \
                    else emg3d.TxMagneticPoint
                src = cls((x, y, z, az, el), strength=strength)
                self.src_ref.append([x, y, z, az, el])
            centres.append(np.array([x, y, z]))
            self.sources[f"Tx-{i+1}"] = src
        self.receivers, self.rec_abs = {}, [[] for _ in kinds]
        rel = job.get("rec_rel", [False]*NR)
        for i, k in enumerate(job["rec_kinds"]):
            az, el = float(rng.uniform(-180, 180)), float(rng.uniform(-30, 30))
            cls = emg3d.RxElectricPoint if k == "e" else emg3d.RxMagneticPoint
            if rel[i]:
                # offset from the centre of each source
                d = np.array([rng.uniform(300, 900)*rng.choice([-1, 1]),
                              rng.uniform(-300, 300), rng.uniform(-15, 15)])
                self.receivers[f"Rx-{i+1}"] = cls((*d, az, el), relative=True)
                for si, c in enumerate(centres):
                    self.rec_abs[si].append((*(c + d), az, el))
            else:
                x, y = xy(700)
                z = zpos()
                self.receivers[f"Rx-{i+1}"] = cls((x, y, z, az, el))
                for si in range(len(kinds)):
                    self.rec_abs[si].append((x, y, z, az, el))
        # (a Survey keeps the user's order of the frequencies)
        self.freqs = [2.0, 0.5] if job.get("freq_desc") else [0.5, 2.0]
        # observed data: 1-D responses of another layering + finiteness mask
        self.mask = None
        om = job["obs"]
        if om != "none":
            m = rng.random((NS, NR, NF)) < 0.6
            if om == "full":
                m[:] = True
            elif om == "rowgap":         # a receiver without any finite datum
                m[rng.integers(NS), rng.integers(NR), :] = False
            elif om == "srcgap":         # a source without any finite datum
                m[rng.integers(NS)] = False
            if not m.any():
                m[0, 0, 0] = True
            self.mask = m

    def props(self, cond_h, cond_v):
        import numpy as np
        ones = np.ones(self.grid.shape_cells)
        kw = dict(property_x=_fwd_map(self.mapping, cond_h)[None, None, :]*ones,
                  mapping=self.mapping)
        if cond_v is not None:
            kw["property_z"] = _fwd_map(self.mapping, cond_v)[None, None, :]*ones
        if self.mu_r is not None:
            kw["mu_r"] = self.mu_r[None, None, :]*ones
        if self.eps_r is not None:
            kw["epsilon_r"] = self.eps_r[None, None, :]*ones
        return kw

    def model(self, cond_h=None, cond_v=None):
        import emg3d
        cond_h = self.cond_h if cond_h is None else cond_h
        cond_v = self.cond_v if cond_v is None else cond_v
        return emg3d.Model(self.grid, **self.props(cond_h, cond_v))

    def survey(self, observed=None):
        import emg3d
        s = emg3d.Survey(dict(self.sources), dict(self.receivers), self.freqs,
                         noise_floor=1e-17, relative_error=0.05)
        if observed is not None:
            s.data['observed'][...] = observed
        return s

    def reference(self, cond_h=None, cond_v=None):
        """The 1-D modeller called directly with the layering."""
        import numpy as np
        import empymod
        cond_h = self.cond_h if cond_h is None else cond_h
        cond_v = self.cond_v if cond_v is None else cond_v
        out = np.zeros((NS, NR, NF), dtype=complex)
        for i, s in enumerate(self.sources.values()):
            for j, r in enumerate(self.receivers.values()):
                out[i, j, :] = empymod.bipole(
                    src=self.src_ref[i], rec=self.rec_abs[i][j],
                    depth=self.grid.nodes_z[1:-1], res=1.0/cond_h,
                    freqtime=np.array(self.freqs),
                    aniso=None if cond_v is None else np.sqrt(cond_h/cond_v),
                    epermH=self.eps_r, mpermH=self.mu_r,
                    msrc=s.xtype != 'electric', mrec=r.xtype != 'electric',
                    strength=s.strength, signal=None, squeeze=True, verb=1)
        return out

    def simulation(self, observed, method=None, ellipse=None, model=None):
        import emg3d
        method = method or self.job["method"]
        lo = {"method": method}
        ell = self.job["ellipse"] if ellipse is None else ellipse
        if method in ("prism", "cylinder"):
            lo["ellipse"] = dict(ell)
        return emg3d.Simulation(
            self.survey(observed), model or self.model(), layered=True,
            layered_opts=lo, max_workers=1, gridding='same',
            tqdm_opts={'disable': True}, verb=-1)


class _Recorder:
    def __init__(self, case, sim):
        import numpy as np
        from emg3d import _multiprocessing as _mp
        from emg3d import models, simulations
        self.np = np
        self.case = case
        self.sim = sim
        self.traces = []
        self.cur = None
        self.pending = None
        self.src = None
        self.base = None
        self._mp, self._models, self._sims = _mp, models, simulations
        self.orig = (_mp.layered, _mp._empymod_fwd, models.Model.extract_1d,
                     simulations.Simulation._compute_1d)
        rec = self
        srcs = list(sim.survey.sources.values())
        recs = list(sim.survey.receivers.values())
        freqs = list(sim.survey.frequencies.values())

        def layered(inp):
            try:
                s = [i for i, x in enumerate(srcs) if x is inp['src']][0] + 1
            except IndexError:
                s = 0
            rec.src = inp['src']
            rec.ev({"e": "Source", "s": s,
                    "obsgiven": inp['observed'] is not None})
            out = rec.orig[0](inp)
            rec.flush(0)
            if inp['gradient']:
                e = {"e": "Ret", "s": s, "zero": bool(not out.any()),
                     "mask": [], "dirs": [d+1 for d in range(3)
                                          if out[d].any()]}
            else:
                e = {"e": "Ret", "s": s, "zero": False,
                     "mask": np.isfinite(out).tolist(), "dirs": []}
            rec.ev(e)
            return out

        def extract_1d(self_, method, p0, p1=None, **kw):
            rec.flush(0)
            out = rec.orig[2](self_, method, p0, p1, **kw)
            oned = out[0] if isinstance(out, tuple) else out
            b = oned.map.backward
            rec.base = (b(oned.property_x[0, 0, :]).copy(),
                        None if oned.property_z is None
                        else b(oned.property_z[0, 0, :]).copy())
            rec.pending = (method, np.array(p0, dtype=float),
                           np.array(p0 if p1 is None else p1, dtype=float))
            return out

        def fwd(cond_h, cond_v, inp):
            rc = np.asarray(inp['rec'], dtype=float)
            si = [i for i, x in enumerate(srcs) if x is rec.src]
            ra = case.rec_abs[si[0]] if si else []
            r = [i+1 for i, x in enumerate(recs)
                 if np.array_equal(np.asarray(x.coordinates, dtype=float), rc)
                 or (i < len(ra) and np.allclose(np.asarray(ra[i]), rc,
                                                 rtol=1e-14, atol=1e-9))]
            r = r[0] if len(r) == 1 else 0
            rec.flush(r)
            fs = []
            for f in np.atleast_1d(inp['freqtime']):
                k = [i+1 for i, x in enumerate(freqs) if x == f]
                fs.append(k[0] if k else 0)
            pert = [0, 0]
            if rec.base is not None:
                dh = np.nonzero(np.asarray(cond_h) != rec.base[0])[0]
                dv = [] if cond_v is None or rec.base[1] is None else \
                    np.nonzero(np.asarray(cond_v) != rec.base[1])[0]
                if len(dh) == 1 and len(dv) == 0:
                    pert = [1, int(dh[0]) + 1]
                elif len(dh) == 0 and len(dv) == 1:
                    pert = [3, int(dv[0]) + 1]
                elif len(dh) or len(dv):
                    pert = [9, 9]
            rec.ev({"e": "Fwd", "freqs": fs, "pert": pert})
            return rec.orig[1](cond_h, cond_v, inp)

        def compute_1d(self_, gradient=False):
            if self_ is not rec.sim:
                return rec.orig[3](self_, gradient)
            rec.cur = {"grad": bool(gradient), "ev": []}
            try:
                return rec.orig[3](self_, gradient)
            finally:
                rec.traces.append(rec.cur)
                rec.cur = None
        self.wr = (layered, fwd, extract_1d, compute_1d)

    def ev(self, e):
        if self.cur is not None:
            self.cur["ev"].append(e)

    def flush(self, r):
        """Emit the buffered extraction; r = receiver the modeller is then
        called for (0: none followed)."""
        if self.pending is None:
            return
        np = self.np
        method, p0, p1 = self.pending
        self.pending = None
        srcs = list(self.sim.survey.sources.values())
        si = [i for i, x in enumerate(srcs) if x is self.src]
        sc = np.asarray(self.src.center[:2], dtype=float)
        rcc = np.asarray(self.case.rec_abs[si[0]][r-1][:2], dtype=float) \
            if (r and si) else None

        def cls(p):
            if np.allclose(p, sc, rtol=1e-14, atol=1e-9):
                return "src"
            if rcc is not None and np.allclose(p, rcc, rtol=1e-14, atol=1e-9):
                return "rec"
            return "other"
        self.ev({"e": "Extract", "r": r, "m": method, "p0": cls(p0),
                 "p1": cls(p1)})

    def __enter__(self):
        self._mp.layered, self._mp._empymod_fwd = self.wr[0], self.wr[1]
        self._models.Model.extract_1d = self.wr[2]
        self._sims.Simulation._compute_1d = self.wr[3]
        return self

    def __exit__(self, *a):
        self._mp.layered, self._mp._empymod_fwd = self.orig[0], self.orig[1]
        self._models.Model.extract_1d = self.orig[2]
        self._sims.Simulation._compute_1d = self.orig[3]


def _sim_job(job):
    """One case: forward (+ gradient) traces of a real layered Simulation."""
    import warnings
    warnings.filterwarnings("ignore")
    import numpy as np
    try:
        return _sim_job_(job, np)
    except Exception as e:  # noqa
        import traceback
        return {"fatal": f"{type(e).__name__}: {e}\n{traceback.format_exc()}",
                "job": job}


def _sim_job_(job, np):
    import warnings
    import empymod  # noqa  (imports may touch the warning filters)
    warnings.simplefilter("ignore")
    case = _Case(job)
    rng = case.rng
    ref = case.reference()
    observed = None
    if case.mask is not None:
        true_h = case.cond_h*10**rng.uniform(-0.15, 0.15, NZ)
        true_v = None if not case.vti else true_h/rng.uniform(1.0, 3.0, NZ)
        observed = case.reference(true_h, true_v)
        observed[~case.mask] = np.nan
    sim = case.simulation(observed)
    notes = []
    with _Recorder(case, sim) as rec:
        sim.compute()
        syn = sim.data.synthetic.data.copy()
        G = None
        if job["grad"]:
            misfit = float(sim.misfit)
            G = np.array(sim.gradient)
    traces = rec.traces
    if len(traces) != (2 if job["grad"] else 1):
        notes.append(f"{len(traces)} _compute_1d calls recorded")
    mask = case.mask if case.mask is not None else np.zeros((NS, NR, NF), bool)
    head = {"hasdata": bool(case.mask is not None),
            "obs": mask.tolist(), "method": job["method"], "vti": case.vti}
    # ---- forward trace: End event and observations
    codes = np.zeros((NS, NR, NF), dtype=int)
    fin = np.isfinite(syn)
    close = np.isclose(syn, ref, rtol=1e-9, atol=0)
    codes[fin & close] = 1
    codes[fin & ~close] = 2
    codes[~fin & ~np.isnan(syn)] = 2
    obs_f = []
    # independence of method and ellipse: another extraction, same data
    m2 = job["method2"]
    sim2 = case.simulation(observed, method=m2, ellipse=job["ellipse2"])
    sim2.compute()
    syn2 = sim2.data.synthetic.data
    if not np.allclose(syn2, syn, rtol=1e-9, atol=0, equal_nan=True):
        obs_f.append(f"responses depend on the extraction: {job['method']} "
                     f"{job['ellipse']} vs {m2} {job['ellipse2']}")
    # the model object is edited in place (as an inversion does between
    # iterations), results cleaned, recomputed: responses of the NEW layering
    rng2 = np.random.default_rng(job["seed"] + 1)
    new_h = case.cond_h*10**rng2.uniform(-0.3, 0.3, NZ)
    new_v = None if not case.vti else new_h/rng2.uniform(1.0, 3.0, NZ)
    newp = case.props(new_h, new_v)
    if job["seed"] % 2:
        sim.model.property_x[...] = newp["property_x"]
        if case.vti:
            sim.model.property_z[...] = newp["property_z"]
    else:
        sim.model.property_x = newp["property_x"]
        if case.vti:
            sim.model.property_z = newp["property_z"]
    sim.clean('computed')
    sim.compute()
    syn3 = sim.data.synthetic.data
    ref3 = case.reference(new_h, new_v)
    want = np.isfinite(syn)
    if not np.array_equal(np.isfinite(syn3), want) or not np.allclose(
            syn3[want], ref3[want], rtol=1e-9, atol=0):
        obs_f.append("after an in-place update of the model and "
                     "clean('computed') the responses are not those of the "
                     "new layering")
    out = []
    t0 = dict(head, grad=False, ev=traces[0]["ev"] + [
        {"e": "End", "syn": codes.tolist()}], obsok=not obs_f, notes=obs_f)
    out.append(t0)
    # ---- gradient trace
    if job["grad"] and len(traces) > 1:
        obs_g = []
        nsh = (2 if case.vti else 1)
        want_shape = ((2,) if case.vti else ()) + tuple(case.grid.shape_cells)
        if G.shape != want_shape:
            obs_g.append(f"gradient shape {G.shape}, expected {want_shape}")
        elif not np.isfinite(G).all():
            obs_g.append("gradient has non-finite entries")
        elif case.mask is None:
            if G.any() or misfit != 0.0:
                obs_g.append("no observed data: misfit/gradient not zero")
        else:
            Gd = G.reshape((nsh,) + tuple(case.grid.shape_cells))
            for d in range(nsh):
                base = case.cond_h if d == 0 else case.cond_v
                for k in range(NZ):
                    ch, cv = case.cond_h.copy(), \
                        None if case.cond_v is None else case.cond_v.copy()
                    delta = base[k]*EPS
                    if d == 0:
                        ch[k] += delta
                    else:
                        cv[k] += delta
                    sp = case.simulation(observed, model=case.model(ch, cv))
                    dphi = (float(sp.misfit) - misfit)/delta
                    expect = dphi*_dcond_dm(case.mapping, base[k:k+1])[0]
                    got = float(Gd[d][:, :, k].sum())
                    tol = 1e-6*abs(expect) + 1e-8*abs(
                        misfit/base[k]*_dcond_dm(case.mapping, base[k:k+1])[0])
                    if not abs(got - expect) <= tol:
                        obs_g.append(
                            f"layer {k+1} dir {'hv'[d]}: sum of the gradient "
                            f"{got:.9e}, misfit change under a uniform "
                            f"perturbation {expect:.9e}")
        t1 = dict(head, grad=True, ev=traces[1]["ev"] + [
            {"e": "End", "syn": []}], obsok=not obs_g, notes=obs_g)
        out.append(t1)
    return {"traces": out, "job": job, "notes": notes}


def _jobs(rng, n):
    jobs = []
    obsmodes = ["none", "full", "gaps", "rowgap", "srcgap"]
    for i in range(n):
        method = METHODS[i % 5]
        ell = {"radius": rng.choice([200.0, 500.0, 900.0]),
               "factor": rng.choice([1.0, 1.2, 2.0]),
               "minor": rng.choice([1.0, 0.8, 0.4])}
        if rng.random() < 0.3:
            ell["check_foci"] = False
        ell2 = {"radius": rng.choice([100.0, 350.0, 1200.0]),
                "factor": rng.choice([1.0, 1.5]),
                "minor": rng.choice([1.0, 0.6])}
        obs = obsmodes[(i // 5) % 5] if i < 25 else rng.choice(obsmodes)
        jobs.append({
            "seed": rng.randrange(10**6), "method": method, "ellipse": ell,
            "method2": rng.choice([m for m in METHODS if m != method]),
            "ellipse2": ell2, "vti": rng.random() < 0.5,
            "mapping": MAPS[i % 6] if i < 12 else rng.choice(MAPS),
            "obs": obs, "grad": True,
            "mu": rng.random() < 0.15, "eps": rng.random() < 0.15,
            "src_kinds": [rng.choice(["ed", "ep", "md", "mp"])
                          for _ in range(NS)],
            "rec_kinds": [rng.choice(["e", "m"]) for _ in range(NR)]})
        # (separate stream, so that the cases above stay as they were)
        r2 = random.Random(jobs[-1]["seed"])
        jobs[-1]["src_fmt"] = [r2.choice(["flat", "point", "array"])
                               for _ in range(NS)]
        jobs[-1]["rec_rel"] = [r2.random() < 0.25 for _ in range(NR)]
        jobs[-1]["freq_desc"] = r2.random() < 0.4
    return jobs


# --------------------------------------------------------------------------
# real extract_1d / ellipse_indices -> instances
# --------------------------------------------------------------------------
HALF = [(0, 0), (1, 0), (2, 0), (3, 0), (0, 1), (0, 3), (3, 4), (4, 3),
        (-3, 4), (3, -4), (-4, -3), (-2, 0), (0, -2), (6, 8)]


def _ext_insts(args):
    import warnings
    warnings.filterwarnings("ignore")
    import numpy as np
    import emg3d
    from emg3d import maps
    seed, n = args
    rng = random.Random(seed)
    nrng = np.random.default_rng(seed)
    out = []
    for _ in range(n):
        def nodes():
            k = rng.randint(2, 6)
            w = [rng.choice([2, 4, 6]) for _ in range(k)]
            o = 2*rng.randint(-3, 1)
            return [o + sum(w[:i]) for i in range(k+1)]
        nx, ny = nodes(), nodes()
        method = rng.choice(["midpoint", "prism", "cylinder", "cylinder"])
        dx, dy = rng.choice(HALF)
        cx = rng.randint(nx[0] - 2, nx[-1] + 2)
        cy = rng.randint(ny[0] - 2, ny[-1] + 2)
        p0, p1 = [cx - dx, cy - dy], [cx + dx, cy + dy]
        if method == "midpoint" and rng.random() < 0.5:
            # midpoints on half integers / on nodes / outside the grid
            p1 = [p1[0] + rng.choice([0, 1]), p1[1] + rng.choice([0, 1])]
        rad = rng.randint(1, 4)
        fac = rng.choice([(1, 1), (6, 5), (3, 2), (2, 1)])
        mnr = rng.choice([(1, 1), (4, 5), (1, 2), (1, 4)])
        foci = rng.random() < 0.6
        hz = [1.0, 2.0, 3.0]
        grid = emg3d.TensorMesh([np.diff(nx).astype(float),
                                 np.diff(ny).astype(float), hz],
                                (float(nx[0]), float(ny[0]), 0.0))
        mapping = rng.choice(MAPS)
        cond = 10**nrng.uniform(-2, 1, grid.shape_cells)
        invariant = rng.random() < 0.3
        if invariant:
            cond = cond[:1, :1, :]*np.ones(grid.shape_cells)
        model = emg3d.Model(grid, _fwd_map(mapping, cond), mapping=mapping)
        ell = {"radius": float(rad), "factor": fac[0]/fac[1],
               "minor": mnr[0]/mnr[1], "check_foci": foci}
        kw = {} if method == "midpoint" else {"ellipse": ell}
        oned, imat = model.extract_1d(method, p0, p1, return_imat=True, **kw)
        use = []
        if method != "midpoint":
            u = maps.ellipse_indices(
                (grid.cell_centers_x, grid.cell_centers_y), p0, p1, **ell)
            use = [[int(i)+1, int(j)+1] for i, j in zip(*np.nonzero(u))]
        ent, bad = [], False
        for i, j in zip(*np.nonzero(imat)):
            if not np.isfinite(imat[i, j]):
                bad = True            # recorded as weight 0/1: TLC rejects it
                ent.append([int(i)+1, int(j)+1, 0, 1])
                continue
            f = Fraction(float(imat[i, j])).limit_denominator(100000)
            if abs(float(f) - imat[i, j]) > 4e-16*abs(imat[i, j]):
                bad = True
            ent.append([int(i)+1, int(j)+1, f.numerator, f.denominator])
        ext = [oned.grid.nodes_x[0], oned.grid.nodes_x[-1],
               oned.grid.nodes_y[0], oned.grid.nodes_y[-1]]
        notes = []
        if bad:
            notes.append("an entry of imat is not finite or not a small "
                         "rational")
        if any(x != int(x) for x in ext):
            notes.append("extent not on nodes")
        if oned.shape != (1, 1, 3) or imat.shape != grid.shape_cells[:2]:
            notes.append(f"shapes {oned.shape} {imat.shape}")
        # floating-point observations: convex combination of the selected
        # cells; a laterally invariant model is returned as it is
        sel = imat > 0
        c1 = oned.map.backward(oned.property_x[0, 0, :])
        for k in range(3):
            v = cond[:, :, k][sel]
            if not sel.any() or \
                    not (v.min()*(1-1e-12) <= c1[k] <= v.max()*(1+1e-12)):
                notes.append(f"layer {k}: value outside the selected range")
        if invariant and not np.allclose(c1, cond[0, 0, :], rtol=1e-12,
                                         atol=0):
            notes.append("laterally invariant model changed by extraction")
        if not np.array_equal(oned.grid.h[2], grid.h[2]):
            notes.append("layer thicknesses changed")
        out.append({"nx": nx, "ny": ny, "p0": p0, "p1": p1, "rad": rad,
                    "fac": list(fac), "mnr": list(mnr), "foci": foci,
                    "method": method, "use": use, "ent": ent,
                    "ext": [int(x) for x in ext], "obs": not notes,
                    "notes": notes, "mapping": mapping})
    return out


def for_tlc(x):
    return {k: v for k, v in x.items() if k not in ("notes", "mapping")}


def trace_for_tlc(t):
    return {k: v for k, v in t.items() if k != "notes"}


def run(tier, replay=None):
    rep = C.Report("C19", tier, level="exploration")
    rng = random.Random(C.seed())
    rep.assumptions += [
        "partial: the agreement of the stored responses with the 1-D "
        "reference modeller (rtol 1e-9), the independence of method/ellipse "
        "and the gradient layer sums (rtol 1e-6) are floating-point "
        "observations made by the harness on every recorded run and handed "
        "to TLC as booleans; TLC decides the triple rule, the calls, the "
        "extraction points, the FD schedule and the selection/weights",
        "empymod is the 1-D reference modeller (environment)",
        "extraction instances have integer cell centres and Pythagorean "
        "point pairs so that the ellipse is decided in exact arithmetic; "
        "cells exactly on the ellipse may be selected or not"]
    # ---- 1. exhaustive
    res = C.run_tlc("Layered", "Layered.cfg", coverage=True, timeout=1500)
    if C.expect_tlc_ok(rep, "Layered: 2x2x2 triples, 2 layers, every "
                       "finiteness mask, 5 methods, iso/VTI, fwd/grad", res,
                       "C19"):
        C.check_coverage(res, ["StartSource", "GradNothing", "Advance",
                               "Forward", "FDCall", "EndSource", "Finish"],
                         "Layered")
    dev = C.run_tlc("Layered", "Layered_dev.cfg", timeout=600)
    C.tlc_must_run(dev, "Layered_dev")
    rep.canary(dev.violated == "NeverUnwanted")
    if dev.violated != "NeverUnwanted":
        raise C.MachineryError("TLC did not find the AllFreqs deviation")
    cfg1 = "Extract1D.cfg" if tier == "thorough" else "Extract1D_quick.cfg"
    res = C.run_tlc("Extract1D", cfg1, timeout=3000)
    C.expect_tlc_ok(rep, f"Extract1D reference laws ({cfg1})", res, "C19")
    rep.cov["exhaustive"] = True
    # ---- 2. real simulations
    if replay:
        with open(replay) as f:
            j = json.load(f)["case"]
        jobs = [j["job"]] if "job" in j else []
        ijobs = [(j["iseed"], j["n"])] if "iseed" in j else []
    else:
        jobs = _jobs(rng, 60 if tier == "quick" else 600)
        ni = 400 if tier == "quick" else 6000
        ijobs = [(rng.randrange(10**6), ni // 16) for _ in range(16)]
    with mp.get_context("fork").Pool(min(C.NCPU, 16)) as pool:
        results = pool.map(_sim_job, jobs, chunksize=1)
        iresults = pool.map(_ext_insts, ijobs, chunksize=1)
    fatal = [r for r in results if "fatal" in r]
    if fatal:
        raise C.MachineryError(fatal[0]["fatal"])
    traces, owner = [], []
    for r in results:
        for t in r["traces"]:
            traces.append(t)
            owner.append(r["job"])
        for n in r["notes"]:
            rep.violation(f"C19:record:{n}:{json.dumps(r['job'])[:80]}", n,
                          {"job": r["job"]})
    cfg = (f"SPECIFICATION TraceSpec\nCONSTANTS NS = {NS} NR = {NR} "
           f"NF = {NF} NZ = {NZ} Deviations = {{}}\nCONSTRAINT Accept\n"
           "POSTCONDITION Post\nCHECK_DEADLOCK FALSE\n")
    with open(os.path.join(C.SPEC, "TraceLayered.cfg")) as f:
        if f.read() != cfg:
            raise C.MachineryError("TraceLayered.cfg does not match the "
                                   "sizes used by the harness")
    bad = dict(C.validate_batch(rep, "TraceLayered", "TraceLayered.cfg",
                                [trace_for_tlc(t) for t in traces], "impl"))
    rep.add_traces(len(traces) - len(bad))
    for i, why in sorted(bad.items()):
        t = traces[i]
        d = C.diagnose_one("TraceLayered", "TraceLayered.cfg",
                           trace_for_tlc(t), len(t["ev"]))
        k = d["matched_events"]
        nxt = t["ev"][k] if k < len(t["ev"]) else "end"
        jb = owner[i]
        rep.violation(
            f"C19:trace:{why}:{'grad' if t['grad'] else 'fwd'}:"
            f"method={jb['method']};obs={jb['obs']};vti={jb['vti']};"
            f"map={jb['mapping']};seed={jb['seed']}",
            f"recorded _compute_1d is not accepted by Layered ({why}); "
            f"matched {k}/{d['of']}; next {str(nxt)[:200]}; notes "
            f"{t.get('notes')}", {"job": jb, "trace": t, "diag": d})
    # ---- 3. extraction instances
    insts = [x for ch in iresults for x in ch]
    ibad = dict(C.validate_batch(rep, "Extract1DCode", "Extract1DCode.cfg",
                                 [for_tlc(x) for x in insts], "extract",
                                 chunk=4000))
    rep.add_traces(len(insts) - len(ibad))
    for i, why in sorted(ibad.items()):
        x = insts[i]
        owner_job = ijobs[[k for k in range(len(ijobs))
                           if i < sum(len(c) for c in iresults[:k+1])][0]]
        rep.violation(
            f"C19:extract:{why}:{x['method']};nx={x['nx']};ny={x['ny']};"
            f"p0={x['p0']};p1={x['p1']};r={x['rad']};f={x['fac']};"
            f"m={x['mnr']};foci={x['foci']}",
            f"extract_1d / ellipse_indices: {why}; {x['notes']}",
            {"iseed": owner_job[0], "n": owner_job[1], "inst": x})
    rep.cov["evaluations"] = len(traces) + len(insts)
    nontriv = {(j["method"], j["obs"], j["vti"], j["mapping"], t["grad"],
                json.dumps(t["obs"])) for t, j in zip(traces, owner)
               if t["hasdata"] or not t["grad"]}
    nontriv_i = {json.dumps([x[k] for k in ("nx", "ny", "p0", "p1", "rad",
                                            "fac", "mnr", "foci", "method")])
                 for x in insts if len(x["ent"]) > 1}
    rep.cov["distinct_nontrivial"] = len(nontriv) + len(nontriv_i)
    rep.cov["rule"] = (
        "one trace per Simulation._compute_1d call (forward and gradient) of "
        "a randomly drawn layered case; distinct = different (method, "
        "observed-data pattern, anisotropy, mapping, fwd/grad, finiteness "
        "mask); trivial = gradient without observed data.  Plus one instance "
        "per extract_1d call on a random integer-centred grid; non-trivial = "
        "more than one cell selected, distinct = different inputs")
    rep.cov["simulations"] = len(jobs)
    rep.cov["compute_1d_calls_validated"] = len(traces)
    rep.cov["extract_instances"] = len(insts)
    rep.cov["methods"] = sorted({j["method"] for j in jobs})
    if traces:
        rep.sample({"job": owner[0], "events_first_12": traces[0]["ev"][:12]})
    if insts:
        rep.sample(insts[len(insts)//2])
    # ---- canaries
    if not replay and traces and insts:
        import copy
        good = [t for i, t in enumerate(traces) if i not in bad]
        gf = [t for t in good if not t["grad"] and t["hasdata"]]
        gg = [t for t in good if t["grad"] and t["hasdata"]]
        muts = []
        t = copy.deepcopy(gf[0])          # a response where data are missing
        e = t["ev"][-1]
        done = False
        for a in range(NS):
            for b in range(NR):
                for c in range(NF):
                    if not done and e["syn"][a][b][c] == 0:
                        e["syn"][a][b][c] = 1
                        done = True
        if not done:
            e["syn"][0][0][0] = 0
        muts.append(t)
        t = copy.deepcopy(gf[-1])         # value of another triple
        e = t["ev"][-1]
        for a in range(NS):
            for b in range(NR):
                for c in range(NF):
                    if e["syn"][a][b][c] == 1:
                        e["syn"][a][b][c] = 2
        muts.append(t)
        t = copy.deepcopy(gf[len(gf)//2])  # modeller asked for all freqs
        for e in t["ev"]:
            if e["e"] == "Fwd":
                e["freqs"] = [1, 2] if len(e["freqs"]) < 2 else [1]
                break
        muts.append(t)
        t = copy.deepcopy(gg[0])           # one FD call missing
        k = [i for i, e in enumerate(t["ev"]) if e["e"] == "Fwd"][-1]
        del t["ev"][k]
        muts.append(t)
        t = copy.deepcopy(gg[-1])          # y-gradient
        for e in t["ev"]:
            if e["e"] == "Ret" and not e["zero"]:
                e["dirs"] = [1, 2]
        muts.append(t)
        t = copy.deepcopy([g for g in good if any(
            e["e"] == "Extract" for e in g["ev"])][0])   # wrong point
        for e in t["ev"]:
            if e["e"] == "Extract":
                e["p0"] = "rec" if e["p0"] == "src" else "src"
                break
        muts.append(t)
        t = copy.deepcopy(good[-1])
        t["obsok"] = False
        muts.append(t)
        cb = {b[0] for b in C.validate_batch(
            rep, "TraceLayered", "TraceLayered.cfg",
            [trace_for_tlc(t) for t in muts], "canaries", count=False)}
        for i in range(len(muts)):
            rep.canary(i in cb)
        if len(cb) != len(muts):
            raise C.MachineryError("canary traces accepted: " + str(
                sorted(set(range(len(muts))) - cb)))
        gi = [x for i, x in enumerate(insts) if i not in ibad]
        cyl = [x for x in gi if x["method"] == "cylinder" and len(x["ent"]) > 1]
        imuts = []
        x = copy.deepcopy(for_tlc(cyl[0]))
        x["ent"][0][2] += 1
        imuts.append(x)                    # one weight wrong
        x = copy.deepcopy(for_tlc(cyl[-1]))
        x["use"] = x["use"][1:]
        imuts.append(x)                    # a selected cell dropped
        x = copy.deepcopy(for_tlc(cyl[len(cyl)//2]))
        x["ext"][1] += 2
        imuts.append(x)
        cb = {b[0] for b in C.validate_batch(
            rep, "Extract1DCode", "Extract1DCode.cfg", imuts, "canaries",
            count=False)}
        for i in range(len(imuts)):
            rep.canary(i in cb)
        if len(cb) != len(imuts):
            raise C.MachineryError("canary instances accepted: " + str(
                sorted(set(range(len(imuts))) - cb)))
    return rep.finish()
