"""C07 - adjoint-state gradient equals the derivative of the data misfit.
Partial (level exploration): TLC decides the discrete structure of the
gradient machinery, the derivative claim itself is observed.

1. TLC checks SensPipe.tla exhaustively (2 source-frequency pairs x 2
   receivers, every finiteness pattern, four anisotropy cases):
   AdjointSourcesExact, CollectPartition, ChainOnce, ShapeRule,
   ExpansionIsTranspose, termination; deviation InjectNaN must be found.
2. Real Simulations (stretched 8^3 grids, six mappings, four anisotropy cases,
   electric point / dipole / wire and magnetic sources, electric and magnetic,
   absolute and source-relative receivers, two pairs, NaN gaps, scalar / array
   noise / explicit std): `gradient` is run once with the numeric kernels
   replaced by tag writers (harness/sens.py) and the recorded steps are
   validated by TLC (TraceSensPipe): which adjoint sources, which direction
   ends in which row, where the chain rule is applied, shape.
3. Observation attached to every trace (obsok): for the unstubbed machinery,
   central differences of the reported misfit (h = 2e-5, fresh simulations)
   against <gradient, d> for a dense direction and a single-row direction
   (rtol 1e-4; measured on the pinned tree: error 5e-6, second order in h).
"""
import json
import multiprocessing as mp
import random

from . import common as C
from . import sens


def gen_jobs(rng, n):
    jobs = []
    for i in range(n):
        jobs.append(dict(
            seed=rng.randrange(10**6), case=sens.CASES[i % 4],
            mapping=sens.MAPS[i % 6], layout=rng.choice(["1x2", "2x1"]),
            src=[rng.choice(["ed", "ep", "ew", "md"]) for _ in range(2)],
            rec=[rng.choice("em") for _ in range(sens.NR)],
            rel=[rng.random() < 0.3 for _ in range(sens.NR)],
            obs=rng.choice(["gaps", "gaps", "full"]),
            noise=rng.choice(["scalar", "array", "std"])))
    return jobs


def _job(job):
    sens.silence()
    try:
        case = sens.Case(job).prepare()
        tr, notes = sens.structure_trace(case, "gradient")
        notes += sens.observe_gradient(case)
        tr["obsok"] = not notes
        return {"trace": tr, "notes": notes, "job": job}
    except Exception as e:  # noqa
        import traceback
        return {"fatal": f"{type(e).__name__}: {e}\n{traceback.format_exc()}",
                "job": job}


def run_common(pid, jobfn, tier, replay, n_quick, n_thorough, rep):
    rng = random.Random(C.seed())
    res = C.run_tlc("SensPipe", "SensPipe.cfg", coverage=True, timeout=900)
    if C.expect_tlc_ok(rep, "SensPipe: 2 pairs x 2 receivers, all finiteness "
                       "masks, four anisotropy cases", res, pid):
        C.check_coverage(res, ["Inject", "BackSolve", "Accumulate", "Fold",
                               "Chain", "Select"], "SensPipe")
    rep.cov["exhaustive"] = True
    dev = C.run_tlc("SensPipe", "SensPipe_dev.cfg", timeout=300)
    C.tlc_must_run(dev, "SensPipe_dev")
    rep.canary(dev.violated == "AdjointSourcesExact")
    if dev.violated != "AdjointSourcesExact":
        raise C.MachineryError("TLC did not find the InjectNaN deviation")
    if replay:
        with open(replay) as f:
            jobs = [json.load(f)["case"]["job"]]
    else:
        jobs = gen_jobs(rng, n_quick if tier == "quick" else n_thorough)
    with mp.get_context("fork").Pool(C.NCPU) as pool:
        results = pool.map(jobfn, jobs, chunksize=1)
    fatal = [r for r in results if "fatal" in r]
    if fatal:
        raise C.MachineryError(fatal[0]["fatal"])
    traces = [r["trace"] for r in results]
    bad = dict(C.validate_batch(rep, "TraceSensPipe", "TraceSensPipe.cfg",
                                traces, "impl"))
    rep.add_traces(len(traces) - len(bad))
    for i, why in sorted(bad.items()):
        d = C.diagnose_one("TraceSensPipe", "TraceSensPipe.cfg", traces[i],
                           len(traces[i]["ev"]))
        k = d["matched_events"]
        nxt = traces[i]["ev"][k] if k < len(traces[i]["ev"]) else "end"
        j = jobs[i]
        rep.violation(
            f"{pid}:trace:{why}:case={j['case']};map={j['mapping']};"
            f"src={j['src']};rec={j['rec']};rel={j['rel']};"
            f"noise={j['noise']};seed={j['seed']}",
            f"recorded sensitivity computation is not accepted by SensPipe "
            f"({why}); matched {k}/{d['of']}; next {str(nxt)[:200]}; "
            f"observations {results[i]['notes'][:3]}",
            {"job": j, "trace": traces[i], "diag": d})
    rep.cov["evaluations"] = len(traces)
    rep.cov["distinct_nontrivial"] = len({
        (j["case"], j["mapping"], tuple(j["src"]), tuple(j["rec"]),
         tuple(j["rel"]), j["noise"], json.dumps(t["fin"]))
        for j, t in zip(jobs, traces)})
    rep.cov["rule"] = ("one trace per simulation (random case, mapping, "
                       "sources, receivers, NaN pattern, noise model); "
                       "distinct = different such tuples")
    rep.sample({"job": jobs[0], "events": traces[0]["ev"]})
    if not replay:
        import copy
        good = [t for i, t in enumerate(traces) if i not in bad]
        muts = []
        t = copy.deepcopy([g for g in good if g["case"] == "VTI"][0])
        r = [e for e in t["ev"] if e["e"] == "Result"][0]
        r["rows"][0], r["rows"][1] = r["rows"][1], r["rows"][0]
        muts.append(t)                 # vertical gradient in the wrong row
        t = copy.deepcopy([g for g in good if any(
            e["e"] == "Inject" for e in g["ev"])][0])
        k = [i for i, e in enumerate(t["ev"]) if e["e"] == "Inject"][0]
        del t["ev"][k]
        muts.append(t)                 # a datum left out of the adjoint source
        t = copy.deepcopy([g for g in good if any(
            not all(row) for row in g["fin"])][0])
        for p, row in enumerate(t["fin"]):
            for r_, v in enumerate(row):
                if not v and t is not None:
                    k = [i for i, e in enumerate(t["ev"])
                         if e["e"] == "BackSolve"][0]
                    t["ev"].insert(k, {"e": "Inject", "p": p+1, "r": r_+1,
                                       "posok": True, "strok": True})
                    break
            else:
                continue
            break
        muts.append(t)                 # a NaN datum injected
        t = copy.deepcopy([g for g in good if g["case"] == "isotropic"][0])
        c = [e for e in t["ev"] if e["e"] == "Chain"][0]
        c["content"] = c["content"][:-1]
        muts.append(t)                 # chain rule before everything was folded
        t = copy.deepcopy([g for g in good if any(
            e["e"] == "Inject" for e in g["ev"])][-1])
        [e for e in t["ev"] if e["e"] == "Inject"][0]["strok"] = False
        muts.append(t)
        t = copy.deepcopy(good[2])
        t["obsok"] = False
        muts.append(t)
        cb = {b[0] for b in C.validate_batch(
            rep, "TraceSensPipe", "TraceSensPipe.cfg", muts, "canaries",
            count=False)}
        for i in range(len(muts)):
            rep.canary(i in cb)
        if len(cb) != len(muts):
            raise C.MachineryError("canary traces accepted: " + str(
                sorted(set(range(len(muts))) - cb)))
    return rep.finish()


def run(tier, replay=None):
    rep = C.Report("C07", tier, level="exploration")
    rep.assumptions += [
        "partial: the finite-difference agreement (rtol 1e-4 at h = 2e-5; "
        "solver tolerance 1e-10) is a floating-point observation handed to "
        "TLC as a boolean; TLC decides which data enter the adjoint sources, "
        "the collection of the directional gradients into the rows of the "
        "anisotropy case, the placement of the chain rule and the shape",
        "computational grid = model grid, linear receiver interpolation (as "
        "the property states); 8^3 cells"]
    return run_common("C07", _job, tier, replay, 48, 480, rep)
