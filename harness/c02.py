"""C02 - the matrix-free operator equals the finite-integration operator.

1. TLC checks on the first-principles reference (Operator.tla) that the curl
   of every discrete gradient vanishes and every interior edge has four
   faces, for all small grids / width vectors.
2. The matrix of the REAL emg3d.core.amat_x (compiled; compared bit-wise with
   its Python source .py_func) is extracted by basis fields on grids with
   dyadic widths {1,2,4}, integer zeta and Gaussian-integer eta (all float
   operations exact; entries x 64 are integers).  TLC checks every interior
   row against the assembled FIT operator, complex symmetry, the gradient
   null space of the curl-curl part and the boundary rows
   (OperatorCode.tla).  Wrappers (solver.residual, the Krylov matvec) and the
   VolumeModel coefficients / anisotropy aliasing are observed on top, and
   the harness's own assembler (used as oracle by C01/C03) is compared with
   the same instances.
"""
import json
import multiprocessing as mp
import random

from . import common as C


def _extract(job):
    import numpy as np
    import emg3d
    from emg3d import core, solver
    from . import fit
    shape, seed, etazero, kind = job
    rng = np.random.default_rng(seed)
    h = [rng.choice([1.0, 2.0, 4.0], n) for n in shape]
    zeta = rng.integers(1, 5, shape).astype(float)
    cplx = kind == "complex"

    def eta():
        if etazero:
            return np.zeros(shape, dtype=complex if cplx else float)
        re = rng.integers(-4, 5, shape).astype(float)
        return re + 1j*rng.integers(-4, 5, shape) if cplx else re
    ex_, ey_, ez_ = eta(), eta(), eta()
    dtype = complex if cplx else float
    L = fit.Layout(shape)
    notes = []

    def apply(fn, vec):
        e = [np.asfortranarray(vec[L.eoff[c]:L.eoff[c+1]].reshape(
            L.es[c], order='F')) for c in range(3)]
        r = [np.zeros(L.es[c], dtype=dtype, order='F') for c in range(3)]
        fn(r[0], r[1], r[2], e[0], e[1], e[2], ex_, ey_, ez_, zeta,
           h[0], h[1], h[2])
        return -np.concatenate([a.ravel('F') for a in r])   # r = 0 - A e
    edges = []
    for c in range(3):
        d = L.es[c]
        for k in range(d[2]):
            for j in range(d[1]):
                for i in range(d[0]):
                    edges.append((c+1, i, j, k))
    cols = []
    for n in range(L.ne):
        v = np.zeros(L.ne, dtype=dtype)
        v[n] = 1.0
        a = apply(core.amat_x, v)
        b = apply(core.amat_x.py_func, v)
        if not np.array_equal(a, b):
            notes.append("compiled kernel differs from its Python source")
        cols.append(a)
    M = np.array(cols).T          # M[row, col]
    M64 = M*64
    if np.any(M64.real != np.round(M64.real)) or \
            np.any(M64.imag != np.round(M64.imag)):
        notes.append("entries x 64 are not integers (inexact arithmetic?)")
    rows = []
    for r in range(L.ne):
        ent = []
        for c in np.flatnonzero(M64[r]):
            ent.append([*edges[c], int(round(M64[r, c].real)),
                        int(round(M64[r, c].imag))])
        rows.append([*edges[r], ent])
    # the harness's own assembler (oracle of C01 / C03) on the same instance
    A, _ = fit.assemble_from_eta(h, ex_, ey_, ez_, zeta)
    m = L.interior_mask()
    if np.abs((A.toarray() - M)[np.ix_(m, m)]).max() != 0:
        notes.append("harness assembler (fit.py) differs from the kernel")
    # wrappers: residual() and the Krylov matvec use the same kernel
    grid = emg3d.TensorMesh(h, (0, 0, 0))

    class VM:
        pass
    vm = VM()
    vm.grid, vm.case = grid, 'triaxial'
    vm.eta_x, vm.eta_y, vm.eta_z, vm.zeta = ex_, ey_, ez_, zeta
    f = 1.0 if cplx else -1.0
    ef = emg3d.Field(grid, frequency=f)
    ef.field[m] = rng.integers(-3, 4, int(m.sum()))
    sf = emg3d.Field(grid, frequency=f)
    sf.field[m] = rng.integers(-3, 4, int(m.sum()))
    res = solver.residual(vm, sf, ef)
    if not np.array_equal(res.field[m], (sf.field - M @ ef.field)[m]):
        notes.append("solver.residual is not source - A e")
    # a residual a caller holds on to is not touched by later calls
    keep = res.field.copy()
    ef2 = emg3d.Field(grid, frequency=f)
    ef2.field[m] = rng.integers(-3, 4, int(m.sum()))
    res2 = solver.residual(vm, sf, ef2)
    if res2 is res or not np.array_equal(res.field, keep):
        notes.append("a residual returned earlier changed with the next call")
    if not np.array_equal(res2.field[m], (sf.field - M @ ef2.field)[m]):
        notes.append("solver.residual (second call) is not source - A e")
    if not np.array_equal(sf.field[m], sf.field[m]) or res.field is sf.field:
        notes.append("residual aliases the source field")
    if solver.residual(vm, sf, ef, True) != float(np.linalg.norm(res.field)):
        if not np.isclose(solver.residual(vm, sf, ef, True),
                          np.linalg.norm(res.field), rtol=1e-15):
            notes.append("residual norm")
    def lst(a):
        if cplx:
            return [[[[int(x.real), int(x.imag)] for x in r2] for r2 in r1]
                    for r1 in a]
        return [[[[int(x), 0] for x in r2] for r2 in r1] for r1 in a]
    return {"h": [[int(x) for x in a] for a in h],
            "zeta": [[[int(x) for x in r2] for r2 in r1] for r1 in zeta],
            "etax": lst(ex_), "etay": lst(ey_), "etaz": lst(ez_),
            "rows": rows, "etazero": bool(etazero), "obs": not notes,
            "notes": notes, "kind": kind, "shape": list(shape), "seed": seed}


def _volume_model(seed):
    """VolumeModel coefficients and anisotropy aliasing (observations)."""
    import numpy as np
    import emg3d
    from . import fit
    rng = np.random.default_rng(seed)
    shape = (3, 2, 4)
    h = [rng.uniform(1, 5, n) for n in shape]
    # (a Model may live on the plain BaseMesh as well as on a TensorMesh)
    grid = emg3d.TensorMesh(h, (0, 0, 0)) if seed % 2 else \
        emg3d.meshes.BaseMesh(h, (0, 0, 0))
    notes = []
    for case in range(4):
        sig = [10**rng.uniform(-2, 1, shape) for _ in range(3)]
        kw = dict(property_x=sig[0], mapping='Conductivity')
        if case in (1, 3):
            kw["property_y"] = sig[1]
        if case in (2, 3):
            kw["property_z"] = sig[2]
        for mu, ep in ((None, None), (rng.uniform(1, 3, shape), None),
                       (None, rng.uniform(1, 50, shape)),
                       (rng.uniform(1, 3, shape), rng.uniform(1, 50, shape))):
            model = emg3d.Model(grid, mu_r=mu, epsilon_r=ep, **kw)

            def check(tag, freqs, sig=sig, mu=mu, ep=ep):
                for f in freqs:
                    sf = emg3d.Field(grid, frequency=f)
                    vm = emg3d.models.VolumeModel(model, sf)
                    s = fit.sval(f)
                    vol = fit.volumes(h)
                    sy = sig[1] if case in (1, 3) else sig[0]
                    sz = sig[2] if case in (2, 3) else sig[0]
                    for got, sg in ((vm.eta_x, sig[0]), (vm.eta_y, sy),
                                    (vm.eta_z, sz)):
                        st = sg if ep is None else sg + s*fit.EPS0*ep
                        if not np.allclose(got, -s*fit.MU0*vol*st,
                                           rtol=1e-13, atol=0):
                            notes.append(f"eta{tag}, case {case}, f={f}")
                    z = vol if mu is None else vol/mu
                    if not np.allclose(vm.zeta, z, rtol=1e-15, atol=0):
                        notes.append(f"zeta{tag}, case {case}")
                    if (vm.eta_y is vm.eta_x) != (case in (0, 2)) or \
                            (vm.eta_z is vm.eta_x) != (case in (0, 1)):
                        notes.append(f"aliasing{tag}, case {case}")
            check("", (2.5, -3.0, 2.0e6, -1.0e7))
            # the coefficients describe the CURRENT model: material values
            # replaced through the setters or edited in place between two
            # builds (the same Model object is used for many frequencies
            # and iterations of an inversion)
            sig2 = [x.copy() for x in sig]
            mu2 = None if mu is None else mu.copy()
            ep2 = None if ep is None else ep.copy()
            if mu is not None:
                mu2 = rng.uniform(1, 3, shape)
                model.mu_r = mu2
                check(" after mu_r setter", (2.5, -3.0), sig2, mu2, ep2)
                model.mu_r[1, :, :] *= 1.5
                mu2 = mu2.copy()
                mu2[1, :, :] *= 1.5
                check(" after mu_r edit in place", (2.5,), sig2, mu2, ep2)
            if ep is not None:
                ep2 = rng.uniform(1, 50, shape)
                model.epsilon_r = ep2
                check(" after epsilon_r setter", (2.0e6, -1.0e7), sig2, mu2,
                      ep2)
                model.epsilon_r[:, 0, :] *= 2.0
                ep2 = ep2.copy()
                ep2[:, 0, :] *= 2.0
                check(" after epsilon_r edit in place", (2.0e6,), sig2, mu2,
                      ep2)
            sig2[0] = 10**rng.uniform(-2, 1, shape)
            model.property_x = sig2[0]
            check(" after property_x setter", (2.5, -3.0), sig2, mu2, ep2)
            model.property_x[:, :, 2] *= 3.0
            sig2[0] = sig2[0].copy()
            sig2[0][:, :, 2] *= 3.0
            check(" after property_x edit in place", (2.5,), sig2, mu2, ep2)
            if case in (2, 3):
                sig2[2] = 10**rng.uniform(-2, 1, shape)
                model.property_z = sig2[2]
                check(" after property_z setter", (-3.0,), sig2, mu2, ep2)
    return notes


def for_tlc(x):
    return {k: x[k] for k in ("h", "zeta", "etax", "etay", "etaz", "rows",
                              "etazero", "obs")}


def key_of(x):
    return f"shape={x['shape']};{x['kind']};etazero={x['etazero']};seed={x['seed']}"


def run(tier, replay=None):
    rep = C.Report("C02", tier)
    rng = random.Random(C.seed())
    rep.assumptions += [
        "dyadic widths {1,2,4}, integer zeta and Gaussian-integer eta: all "
        "floating-point operations of the kernel are exact, the comparison "
        "with the rational reference is exact",
        "entries are multilinear in eta and zeta, so arbitrary integer "
        "material arrays exercise every coefficient; VolumeModel's formula "
        "and the anisotropy aliasing are floating-point observations"]
    res = C.run_tlc("Operator", "Operator.cfg" if tier == "quick"
                    else "Operator_T.cfg", timeout=3000)
    C.expect_tlc_ok(rep, "Operator part 1: curl grad = 0 on the reference, "
                    "all width vectors over {1,2,4}", res, "C02")
    rep.cov["exhaustive"] = True
    if replay:
        with open(replay) as f:
            j = json.load(f)["case"]
        jobs = [(tuple(j["shape"]), j["seed"], j["etazero"], j["kind"])]
    else:
        shapes = [(2, 2, 2), (3, 3, 3), (2, 3, 4), (4, 2, 3), (3, 4, 2),
                  (4, 4, 2), (2, 4, 4), (3, 2, 5), (5, 3, 2), (2, 5, 3)]
        if tier == "thorough":
            shapes += [(4, 4, 4), (5, 4, 3), (3, 5, 4), (4, 3, 5), (5, 5, 2),
                       (2, 2, 5), (5, 2, 2), (2, 5, 2)]
        jobs = []
        reps = 2 if tier == "quick" else 6
        for s in shapes:
            for k in range(reps):
                jobs.append((s, rng.randrange(10**6), k % 3 == 2,
                             "complex" if k % 2 == 0 else "real"))
            jobs.append((s, rng.randrange(10**6), True, "real"))
    with mp.get_context("fork").Pool(C.NCPU) as pool:
        insts = pool.map(_extract, jobs, chunksize=1)
        vnotes = pool.map(_volume_model, [rng.randrange(10**6)
                                          for _ in range(8)])
    for n in vnotes:
        if n:
            rep.violation("C02:volumemodel:" + n[0],
                          "VolumeModel coefficients: " + "; ".join(n[:4]),
                          {"notes": n})
    bad = C.validate_batch(rep, "OperatorCode", "OperatorCode.cfg",
                           [for_tlc(x) for x in insts], "impl", chunk=10,
                           timeout=3000)
    badidx = dict(bad)
    rep.add_traces(len(insts) - len(badidx))
    for i, why in sorted(badidx.items()):
        x = insts[i]
        rep.violation(f"C02:code:{why}:{key_of(x)}",
                      f"matrix of the real amat_x violates {why}; "
                      f"{x['notes']}",
                      {k: x[k] for k in ("shape", "seed", "etazero", "kind")})
    rep.cov["instances"] = len(insts)
    rep.cov["distinct_shapes"] = len({tuple(x["shape"]) for x in insts})
    rep.cov["matrix_entries_checked"] = sum(
        sum(len(r[4]) for r in x["rows"]) for x in insts)
    s = insts[1]
    rep.sample({"h": s["h"], "kind": s["kind"], "one_interior_row": [
        r for r in s["rows"] if len(r[4]) > 8][:1]})
    if not replay:
        import copy
        muts = []
        g = copy.deepcopy(for_tlc(insts[1]))
        nn = [len(a) for a in g["h"]]

        def interior(e):
            return all(d == e[0]-1 or 1 <= e[d+1] <= nn[d]-1 for d in range(3))
        r = [r for r in g["rows"] if len(r[4]) > 8 and interior(r[:4])][0]
        t = [t for t in r[4] if interior(t[:4]) and t[:4] != r[:4]][0]
        t[4] += 1
        muts.append(g)                        # one off-diagonal entry wrong
        g = copy.deepcopy(for_tlc(insts[2]))
        r = [r for r in g["rows"] if len(r[4]) > 8][-1]
        d = [t for t in r[4] if t[:4] == r[:4]][0]
        d[4] += 16
        muts.append(g)                        # eta average wrong by one cell
        g = copy.deepcopy(for_tlc(insts[0]))
        g["obs"] = False
        muts.append(g)
        cb = C.validate_batch(rep, "OperatorCode", "OperatorCode.cfg", muts,
                              "canaries", count=False, chunk=10)
        cbi = {b[0] for b in cb}
        for i in range(len(muts)):
            rep.canary(i in cbi)
        if len(cbi) != len(muts):
            raise C.MachineryError("canaries accepted: " + str(
                sorted(set(range(len(muts))) - cbi)))
    return rep.finish()
