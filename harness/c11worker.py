"""Top-level (picklable) task wrapper used inside worker processes."""
import os
import time

EVENTS = os.environ.get("C11_EVENTS")


def _log(line):
    fd = os.open(os.environ["C11_EVENTS"],
                 os.O_WRONLY | os.O_APPEND | os.O_CREAT)
    try:
        os.write(fd, (line + "\n").encode())
    finally:
        os.close(fd)


def indexed_call(arg):
    batch, i, delay, fn, item = arg
    pid = os.getpid()
    _log(f"S {batch} {i} {pid}")
    if delay:
        time.sleep(delay)
    out = fn(item)
    # tag the result with its task (in-memory mode: the info dict travels
    # into the simulation; file mode: the file name identifies the task)
    if isinstance(out, tuple) and len(out) == 2 and isinstance(out[1], dict):
        out[1]["_task"] = (batch, i)
    _log(f"F {batch} {i} {pid}")
    return (i, pid, out)
