"""C13 - noise model, misfit formula, untouched data weights, selections.

1. TLC checks OnlyAssignmentsChangeNoise, SelectIsSubcube (against an
   independent reference definition), NaNMonotone and NeverHalved on
   SurveyNoise.tla for all histories up to length 3 (~1.7 M transitions).
2. TLC-simulated behaviours (depth 8) are replayed on real emg3d.Survey
   objects; after each step the survey (keys, NaN masks, storage kind and
   values of noise floor / relative error, explicit std, std^2 values as
   exact rationals) is compared with the spec state, detached originals and
   copies must stay unchanged, the amount of noise must equal the standard
   deviation, and the misfit must equal 1/2 sum |r|^2/std^2 and be invariant
   under reordering.
"""
import json
import multiprocessing as mp
import os
import random

from . import common as C
from . import tlagraph as G


def _replay(job):
    from . import surveyreplay
    steps, seed = job
    try:
        return surveyreplay.replay(steps, seed)
    except Exception as e:  # noqa
        import traceback
        return [(-1, "fatal", f"{type(e).__name__}: {e}\n"
                 f"{traceback.format_exc()}")]


def ops_of(steps):
    return [f"{s['last']['op']}{list(s['last']['a'])}" for s in steps]


def run(tier, replay=None):
    rep = C.Report("C13", tier)
    rng = random.Random(C.seed())
    rep.assumptions += [
        "2x2x2 base survey with integer-valued |d|, noise floors and 4x "
        "relative errors (std^2 is an exact rational); selections down to "
        "1x1x1; the random generator of add_noise is seeded by the harness",
        "the misfit is evaluated through Simulation.misfit on a copy of the "
        "survey with synthetic = observed + (3+4j) and _computed set"]
    if replay:
        with open(replay) as f:
            case = C.from_jsonable(json.load(f)["case"])
        for st in case["steps"]:        # sequences were lists in JSON
            st["last"]["a"] = tuple(tuple(x) if isinstance(x, list) else x
                                    for x in st["last"]["a"])
        jobs = [(case["steps"], case["seed"])]
    else:
        res = C.run_tlc("SurveyNoise", "SurveyNoise.cfg", coverage=True,
                        timeout=1500)
        if C.expect_tlc_ok(rep, "SurveyNoise: all histories <= 3 operations",
                           res, "C13"):
            C.check_coverage(res, ["SetNF", "SetRE", "SetBad", "SetStd",
                                   "AddNoise", "Select", "RoundTrip",
                                   "Misfit", "SimMisfit", "NewSimMisfit"],
                             "SurveyNoise")
        rep.cov["exhaustive"] = True
        r = C.run_tlc("SurveyNoise", "SurveyNoise_dev.cfg", timeout=600)
        C.tlc_must_run(r, "SurveyNoise_dev")
        rep.canary(bool(r.violated))
        if not r.violated:
            raise C.MachineryError("TLC did not find the halving deviation")
        r = C.run_tlc("SurveyNoise", "SurveyNoise_dev_weights.cfg",
                      timeout=900)
        C.tlc_must_run(r, "SurveyNoise_dev_weights")
        rep.canary(bool(r.violated))
        if not r.violated:
            raise C.MachineryError("TLC did not find the stale-weights "
                                   "deviation")
        r = C.run_tlc("SurveyNoise", "SurveyNoise_dev_newsim.cfg",
                      timeout=900)
        C.tlc_must_run(r, "SurveyNoise_dev_newsim")
        rep.canary(r.violated == "NewSimFollowsNoise")
        if r.violated != "NewSimFollowsNoise":
            raise C.MachineryError("TLC did not find the deviation 'a new "
                                   "simulation reuses cached weights'")
        n = 400 if tier == "quick" else 8000
        behs, sres = G.simulate("SurveyNoise", "SurveyNoise_walk.cfg", n, 8,
                                rng.randrange(10**6))
        rep.add_tlc(f"SurveyNoise simulate {n} behaviours depth 8", sres,
                    "simulation")
        behw, wres = G.simulate("SurveyNoise", "SurveyNoise_walkw.cfg", n, 10,
                                rng.randrange(10**6))
        rep.add_tlc(f"SurveyNoise SpecW (life of one simulation) simulate "
                    f"{n} behaviours depth 10", wres, "simulation")
        jobs = [([st for _, st in b[1:]], rng.randrange(10**6))
                for b in behs + behw if len(b) > 1]
        nsm = sum(1 for steps, _ in jobs
                  if sum(s["last"]["op"] == "sim_misfit" for s in steps) >= 2)
        rep.cov["walks_with_two_sim_misfit"] = nsm
        if nsm < 5:
            raise C.MachineryError("walks do not exercise SimMisfit twice")
    with mp.get_context("fork").Pool(C.NCPU) as pool:
        results = pool.map(_replay, jobs, chunksize=4)
    seen = set()
    nsteps = 0
    for (steps, sd), probs in zip(jobs, results):
        nsteps += len(steps)
        seen.update((s["last"]["op"], str(s["last"]["a"])) for s in steps)
        for i, kind, text in probs:
            if kind == "fatal":
                raise C.MachineryError(text)
            ops = ops_of(steps[:i+1])
            rep.violation(f"C13:replay:{kind}:{'>'.join(ops)}",
                          f"after {' ; '.join(ops)}: {text}",
                          {"steps": steps[:i+1], "seed": sd})
    rep.add_traces(len(jobs))
    rep.cov["replayed_operations"] = nsteps
    rep.cov["distinct_operations_with_arguments"] = len(seen)
    k = rng.randrange(len(jobs))
    rep.sample({"operations": ops_of(jobs[k][0]),
                "spec_state_after_last_op": {
                    kk: str(v) for kk, v in jobs[k][0][-1].items()}})
    if not replay:      # replay canaries: corrupted spec states
        import copy
        # several candidates per kind: a corrupted spec state is only
        # observable if the survey still distinguishes the values (e.g. an
        # array noise floor on a 1x1x1 selection is stored as a scalar)
        kinds = {"nf": [], "nan": [], "keys": []}
        for steps, sd in jobs:
            for i, st in enumerate(steps):
                full = all(len(st["keys"][k]) == 2 for k in "srf")
                if st["last"]["op"] == "set_nf" and st["nf"]["k"] == "array" \
                        and full and len(kinds["nf"]) < 6:
                    c = copy.deepcopy(steps[:i+1])
                    c[-1]["nf"]["v"] = c[-1]["nf"]["v"] % 4 + 1
                    kinds["nf"].append((c, sd))
                if st["last"]["op"] == "add_noise" and \
                        len(kinds["nan"]) < 6 and any(st["nan"].values()):
                    c = copy.deepcopy(steps[:i+1])
                    k0 = [k for k, v in c[-1]["nan"].items() if not v
                          and k[0] in c[-1]["keys"]["s"]
                          and k[1] in c[-1]["keys"]["r"]
                          and k[2] in c[-1]["keys"]["f"]]
                    if k0:
                        c[-1]["nan"][k0[0]] = True
                        kinds["nan"].append((c, sd))
                if st["last"]["op"] == "select" and len(kinds["keys"]) < 6 \
                        and len(st["keys"]["s"]) == 2:
                    c = copy.deepcopy(steps[:i+1])
                    c[-1]["keys"]["s"] = c[-1]["keys"]["s"][::-1]
                    kinds["keys"].append((c, sd))
        if any(not v for v in kinds.values()):
            raise C.MachineryError("could not build replay canaries")
        muts = [m for v in kinds.values() for m in v]
        with mp.get_context("fork").Pool(min(C.NCPU, len(muts))) as pool:
            cres = pool.map(_replay, muts)
        k = 0
        for name, v in kinds.items():
            hits = [any(kk in ("state", "ret") for _, kk, _ in probs)
                    for probs in cres[k:k+len(v)]]
            k += len(v)
            rep.canary(any(hits))
            rep.cov.setdefault("replay_canaries", {})[name] = \
                f"{sum(hits)}/{len(hits)} corrupted states detected"
            if not any(hits):
                raise C.MachineryError(f"replay canary '{name}' not detected")
    return rep.finish()
