"""Replay of SimCache.tla behaviours on real emg3d.Simulation objects.

After every step (1) the value the operation returned is compared with the
value a FRESH simulation reports for the provenance the specification
predicts, (2) the abstract projection of every simulation object is compared
with the specification's state.
"""
import os
import re
import shutil
import tempfile
import warnings

import numpy as np

import emg3d

warnings.filterwarnings("ignore")

NONE, VEC, MIXED, FILE, GONE, UNKNOWN = -1, -2, -3, -4, -5, -99
RTOL = 1e-8


def rel(a, b):
    a = np.asarray(a)
    b = np.asarray(b)
    if a.shape != b.shape:
        return np.inf
    m = np.isfinite(a) | np.isfinite(b)
    if not np.array_equal(np.isfinite(a), np.isfinite(b)):
        return np.inf
    if not m.any():
        return 0.0
    d = np.linalg.norm((a - b)[m])
    n = max(np.linalg.norm(a[m]), np.linalg.norm(b[m]), 1e-300)
    return float(d/n)


class Problem:
    """Grid, survey definition, models 0..2, observed data, vectors."""

    def __init__(self, variant, seed=0):
        rng = np.random.default_rng(1000 + seed)
        self.variant = variant
        hx = np.array([2, 1, 1, 1, 1, 1, 1, 2.])*100
        hy = np.array([2, 1.5, 1, 1, 1, 1, 1.5, 2.])*100
        if variant.get("irregular"):
            # widths that are no dyadic multiples of each other: volume
            # fractions between this grid and an equal copy are then not
            # exactly representable (1 +- ulp), unlike for the default widths
            fx = np.array([1.93, 1.07, 0.97, 1.03, 1.0, 0.9, 1.1, 2.0])
            fy = np.array([2.1, 1.37, 0.93, 1.0, 1.01, 1.09, 1.5, 2.0])
            fz = np.array([1.7, 1.21, 1.1, 1.0, 1.0, 0.91, 1.33, 1.75])
            hx, hy, hz = fx/fx.sum()*900, fy/fy.sum()*1000, fz/fz.sum()*900
            self.grid = emg3d.TensorMesh([hx, hy, hz], (-450, -500, -450))
        else:
            self.grid = emg3d.TensorMesh([hx, hy, hx], (-450, -500, -450))
        if variant.get("four"):
            self.src = {'TxED-1': (-50, 0, 0, 0, 0),
                        'TxED-2': (50, 20, 10, 30, 10)}
            self.freqs = [1.0, 3.0]
            self.pairs = {1: ('TxED-1', 'f-1'), 2: ('TxED-1', 'f-2'),
                          3: ('TxED-2', 'f-1'), 4: ('TxED-2', 'f-2')}
        elif variant.get("one"):
            self.src = {'TxED-1': (-50, 0, 0, 20, 5)}
            self.freqs = [1.0]
            self.pairs = {1: ('TxED-1', 'f-1')}
        elif variant.get("twofreq"):
            self.src = {'TxED-1': (-50, 0, 0, 20, 5)}
            self.freqs = [1.0, 3.0]
            self.pairs = {1: ('TxED-1', 'f-1'), 2: ('TxED-1', 'f-2')}
        else:
            self.src = {'TxED-1': (-50, 0, 0, 0, 0),
                        'TxED-2': (50, 20, 10, 30, 10)}
            self.freqs = [1.0]
            self.pairs = {1: ('TxED-1', 'f-1'), 2: ('TxED-2', 'f-1')}
        self.case = variant.get("case", "isotropic")
        self.models = {}
        for m in range(3):
            px = 10**rng.uniform(-0.5, 0.5, self.grid.shape_cells)
            kw = dict(property_x=px)
            if self.case in ("VTI", "triaxial"):
                kw["property_z"] = px*rng.uniform(1, 3, px.shape)
            if self.case in ("HTI", "triaxial"):
                kw["property_y"] = px*rng.uniform(1, 2, px.shape)
            self.models[m] = kw
        n = (len(self.src), 3, len(self.freqs))
        self.w = (rng.standard_normal(n) + 1j*rng.standard_normal(n))*1e-3
        nv = {"isotropic": 1, "VTI": 2, "HTI": 2, "triaxial": 3}[self.case]
        self.v = rng.standard_normal((nv, *self.grid.shape_cells))
        if nv == 1:
            self.v = self.v[0]
        self.obs = None          # observed data the survey comes with (0)
        self.obs_codes = {}      # code -> observed data (m+1: synthetic of m)
        self.oracle = {}         # per model: what does not depend on d_obs
        self.oracle_d = {}       # per (model, code): misfit, residual, ...

    def model(self, m):
        return emg3d.Model(self.grid, mapping='Conductivity', **self.models[m])

    def survey(self, code=0):
        src = {k: emg3d.TxElectricDipole(v) for k, v in self.src.items()}
        rec = {'RxEP-1': emg3d.RxElectricPoint((100, 50, 0, 0, 0)),
               'RxMP-2': emg3d.RxMagneticPoint((-100, 50, 20, 45, 0)),
               'RxEP-3': emg3d.RxElectricPoint((120, -60, 30, 90, 10),
                                               relative=True)}
        s = emg3d.Survey(src, rec, self.freqs, noise_floor=1e-16,
                         relative_error=0.05)
        obs = self.obs if code == 0 else self.obs_codes[code]
        if obs is not None:
            s.data['observed'][...] = obs
        return s

    def comp_grids(self):
        """Computational grids of different sizes covering the model grid."""
        def h(n, length):
            return np.ones(n)*length/n
        gs = [(8, 8, 8), (12, 8, 8), (8, 12, 8), (16, 8, 8)]
        return [emg3d.TensorMesh([h(a, 900.), h(b, 1000.), h(c, 900.)],
                                 (-450, -500, -450)) for a, b, c in gs]

    def simulation(self, m, file_dir=None, gmode=None, code=0):
        gmode = gmode or self.variant.get("gmode", "same")
        kw = {}
        if gmode == 'input':
            kw = dict(gridding='input', gridding_opts=self.comp_grids()[1])
        elif gmode == 'dict':
            gs = self.comp_grids()
            d, k = {}, 0
            for s in self.src:
                d[s] = {}
                for i in range(len(self.freqs)):
                    d[s][f"f-{i+1}"] = gs[k % len(gs)]
                    k += 1
            # biggest grid not first, and not a self-inverse arrangement
            kw = dict(gridding='dict', gridding_opts=d)
        else:
            kw = dict(gridding='same')
        if self.variant.get("layered"):
            kw["layered"] = True
        return emg3d.Simulation(
            self.survey(code), self.model(m), max_workers=1, **kw,
            receiver_interpolation='linear',
            solver_opts={'plain': True, 'tol': 1e-5, 'tol_gradient': 1e-4,
                         'maxit': 30},
            file_dir=file_dir, tqdm_opts={'disable': True})

    def prepare(self, oracles=True):
        """Observed data (from a 'true' model) and fresh results per model."""
        true = emg3d.Model(self.grid, mapping='Conductivity',
                           property_x=np.full(self.grid.shape_cells, 1.3))
        s = emg3d.Simulation(
            self.survey(), true, gridding='same', max_workers=1,
            receiver_interpolation='linear',
            solver_opts={'plain': True, 'tol': 1e-6}, tqdm_opts={'disable': True})
        s.compute()
        obs = s.data.synthetic.data.copy()
        obs[0, 1, 0] = np.nan        # a gap in the data
        self.obs = obs
        self.obs_codes = {0: obs}
        if not oracles:
            return self
        for m in range(3):
            o = {}
            a = self.simulation(m)
            a.compute()
            o["syn"] = a.data.synthetic.data.copy()
            if not self.variant.get("layered"):    # no fields if layered
                o["efield"] = {p: a.get_efield(*sf).field.copy()
                               for p, sf in self.pairs.items()}
                o["hfield"] = {p: a.get_hfield(*sf).field.copy()
                               for p, sf in self.pairs.items()}
                c = self.simulation(m)
                o["jvec"] = np.array(c.jvec(self.v)).copy()
            self.oracle[m] = o
            self.obs_codes[m+1] = o["syn"].copy()
        # everything that compares synthetic with observed data, for every
        # model and every observed data set the histories can produce
        for m in range(3):
            for code in range(4):
                o = {}
                a = self.simulation(m, code=code)
                o["misfit"] = float(a.misfit)
                o["res"] = a.data.residual.data.copy()
                o["weights"] = a.data.weights.data.copy()
                o["gradient"] = np.array(a.gradient).copy()
                d = self.simulation(m, code=code)
                _ = d.misfit
                o["jtvec"] = np.array(d.jtvec(self.w)).copy()
                self.oracle_d[(m, code)] = o
        return self


class World:
    def __init__(self, prob, file_mode, fmt_rng):
        self.p = prob
        self.file_mode = file_mode
        self.tmp = tempfile.mkdtemp(prefix="c12-")
        self.dirs = {1: os.path.join(self.tmp, "d1"),
                     2: os.path.join(self.tmp, "d2")}
        self.sims = {1: prob.simulation(
            0, self.dirs[1] if file_mode else None), 2: None}
        self.rng = fmt_rng
        self.nfile = 0

    def close(self):
        shutil.rmtree(self.tmp, ignore_errors=True)

    # ---- apply one spec step -------------------------------------------
    def apply(self, last):
        op, o, arg = last["op"], last["obj"], last["arg"]
        sim = self.sims.get(o)
        try:
            if op == "compute":
                sim.compute()
                return "none", None
            if op == "compute_obs":
                sim.compute(observed=True, add_noise=False)
                return "none", None
            if op == "misfit":
                return "value", float(sim.misfit)
            if op == "gradient":
                return "value", np.array(sim.gradient)
            if op == "jvec":
                return "value", np.array(sim.jvec(self.p.v))
            if op == "jtvec":
                return "value", np.array(sim.jtvec(self.p.w))
            if op in ("efield", "hfield"):
                src, freq = self.p.pairs[int(arg)]
                f = (sim.get_efield if op == "efield"
                     else sim.get_hfield)(src, freq)
                return "value", f.field.copy()
            if op == "clean":
                sim.clean(arg)
                return "none", None
            if op == "model":
                sim.model = self.p.model(int(arg))
                sim.clean('computed')
                return "none", None
            if op == "copy":
                self.sims[2] = self.sims[1].copy(arg)
                return "none", None
            if op == "file":
                self.nfile += 1
                ext = self.rng.choice(["h5", "npz", "json"])
                fn = os.path.join(self.tmp, f"sim{self.nfile}.{ext}")
                self.sims[1].to_file(fn, what=arg, verb=0)
                self.sims[2] = emg3d.Simulation.from_file(fn, verb=0)
                return "none", None
            if op == "dict":
                self.sims[o] = emg3d.Simulation.from_dict(sim.to_dict(arg))
                return "none", None
        except Exception as e:  # noqa
            return "error", f"{type(e).__name__}: {e}"
        raise ValueError(f"unknown op {op}")

    # ---- which model was this computed for -----------------------------
    def match(self, val, key, p=None, hint=None):
        """Model id the value was computed for (quantities independent of the
        observed data).  `hint`: the spec's prediction is tried first."""
        cand = list(self.p.oracle)
        if hint in self.p.oracle:
            cand = [hint] + [m for m in cand if m != hint]
        for m in cand:
            o = self.p.oracle[m]
            ref = o[key] if p is None else o[key][p]
            if rel(val, ref) < RTOL:
                return m
        return UNKNOWN

    def match_d(self, val, key, hint=None):
        """DP code m + 10*code of a quantity that depends on model and
        observed data; several (m, code) can give the same value (d_obs =
        own synthetic data: zero residual), so the spec's prediction is
        tried first."""
        cand = list(self.p.oracle_d)
        if isinstance(hint, int) and hint >= 0 and \
                (hint % 10, hint // 10) in self.p.oracle_d:
            h = (hint % 10, hint // 10)
            cand = [h] + [c for c in cand if c != h]
        for m, code in cand:
            if rel(val, self.p.oracle_d[(m, code)][key]) < RTOL:
                return m + 10*code
        return UNKNOWN

    def obs_code(self, sim, hint=None):
        obs = sim.data.observed.data
        cand = list(self.p.obs_codes)
        if hint in self.p.obs_codes:
            cand = [hint] + [c for c in cand if c != hint]
        for c in cand:
            if np.array_equal(obs, self.p.obs_codes[c], equal_nan=True) or \
                    rel(obs, self.p.obs_codes[c]) < RTOL:
                return c
        return UNKNOWN

    def project(self, o, hint=None):
        """hint: the spec's record of this object (tried first where a value
        does not identify its provenance uniquely)."""
        sim = self.sims[o]
        P = self.p
        hint = hint or {}
        out = {}
        out["ob"] = self.obs_code(sim, hint.get("ob"))
        mv = UNKNOWN
        for m in P.models:
            if np.array_equal(sim.model.property_x, P.models[m]["property_x"]):
                mv = m
        out["mv"] = mv
        ef, econt, syn = [], [], []
        for p in sorted(P.pairs):
            src, freq = P.pairs[p]
            e = sim._dict_efield[src][freq]
            if e is None:
                ef.append(NONE)
                econt.append(NONE)
            elif isinstance(e, str):
                ef.append(FILE)
                if os.path.exists(e):
                    fld = emg3d.load(e, verb=0)["efield"]
                    econt.append(self.match(fld.field, "efield", p))
                else:
                    econt.append(GONE)
            else:
                k = self.match(e.field, "efield", p)
                ef.append(k)
                econt.append(k)
            s = sim.data.synthetic.loc[src, :, freq].data
            if not np.isfinite(s).any():
                syn.append(NONE)
            else:
                k = UNKNOWN
                for m, orc in P.oracle.items():
                    ref = orc["syn"][list(P.src).index(src), :,
                                     P.freqs.index(
                                         sim.survey.frequencies[freq])]
                    if rel(s, ref) < RTOL:
                        k = m
                syn.append(k)
        out["ef"], out["econt"], out["syn"] = tuple(ef), tuple(econt), tuple(syn)
        out["comp"] = bool(sim._computed)
        out["mis"] = NONE if sim._misfit is None else self.match_d(
            float(sim._misfit), "misfit", hint.get("mis"))
        if 'weights' not in sim.data.keys():
            out["w"] = NONE
        else:
            out["w"] = UNKNOWN
            wd = sim.data.weights.data
            hw = hint.get("w")
            for c in ([hw] if hw in P.obs_codes else []) + list(P.obs_codes):
                # weights depend on |d_obs| only
                if rel(wd, P.oracle_d[(0, c)]["weights"]) < RTOL:
                    out["w"] = c
                    break
        if 'residual' not in sim.data.keys():
            out["res"] = NONE
        else:
            r = sim.data.residual.data
            k = self.match_d(r, "res", hint.get("res"))
            if k == UNKNOWN and out["w"] != NONE:
                with np.errstate(invalid='ignore'):
                    if rel(r, P.w/sim.data.weights.data) < RTOL:
                        k = VEC
            out["res"] = k
        g = sim._gradient
        if g is None:
            out["grad"] = (NONE, NONE)
        else:
            hg = tuple(hint.get("grad", (NONE, NONE)))
            k = self.match_d(np.array(g), "gradient",
                             hg[1] if hg[1] >= 0 else None)
            if k != UNKNOWN:
                out["grad"] = (k % 10, k)
            else:
                k = self.match_d(np.array(g), "jtvec",
                                 hg[0] + 10*out["ob"] if hg[0] >= 0 else None)
                out["grad"] = (k % 10, VEC) if k != UNKNOWN else (
                    UNKNOWN, UNKNOWN)
        has_b = hasattr(sim, "_dict_bfield") and any(
            v is not None for d in sim._dict_bfield.values()
            for v in d.values())
        out["bf"] = bool(has_b)
        out["tol"] = ("fwd" if sim.solver_opts.get("tol") == sim.tol_forward
                      else "grad")
        out["jv"] = 'jvec' in sim.data.keys()
        return out

    def compare_state(self, state):
        """Spec state vs projection of the real objects; list of diffs."""
        diffs = []
        S, files = state["S"], state["files"]
        for o in (1, 2):
            if o > len(S):
                continue
            r = S[o-1]
            sim = self.sims.get(o)
            if not r["ex"]:
                if sim is not None:
                    diffs.append(f"obj{o}: exists in code, not in spec")
                continue
            if sim is None:
                diffs.append(f"obj{o}: exists in spec, not in code")
                continue
            pr = self.project(o, r)
            exp_econt = tuple(
                (files[r["dir"]-1]["e"][i] if r["ef"][i] == FILE
                 else r["ef"][i]) for i in range(len(r["ef"])))
            for k, sv in (("mv", r["mv"]), ("ef", tuple(r["ef"])),
                          ("econt", exp_econt), ("syn", tuple(r["syn"])),
                          ("ob", r["ob"]),
                          ("comp", r["comp"]), ("mis", r["mis"]),
                          ("w", r["w"]), ("res", r["res"]),
                          ("grad", tuple(r["grad"])),
                          ("bf", r["bf"] != NONE), ("tol", r["tol"]),
                          ("jv", r["jv"])):
                if pr[k] != sv:
                    diffs.append(f"obj{o}.{k}: spec {sv} code {pr[k]}")
        return diffs

    def compare_ret(self, last, kind, val, ob=0):
        """Returned value vs what the spec predicts (by provenance).  `ob`:
        observed data of the object according to the spec (jtvec skips the
        receivers without data)."""
        if last["kind"] != kind:
            return (f"spec predicts {last['kind']} for {last['op']}, code "
                    f"gave {kind} ({val if kind == 'error' else ''})")
        if kind != "value":
            return None
        op, prov = last["op"], last["prov"]
        orc, ord_ = self.p.oracle, self.p.oracle_d
        if op == "jvec":
            if prov not in orc:
                return f"{op}: spec provenance {prov} has no oracle"
            d = rel(val, orc[prov][op])
        elif op == "misfit":
            if prov < 0 or (prov % 10, prov // 10) not in ord_:
                return f"{op}: spec provenance {prov} has no oracle"
            d = rel(val, ord_[(prov % 10, prov // 10)][op])
        elif op in ("efield", "hfield"):
            d = rel(val, orc[prov][op][int(last["arg"])])
        elif op == "jtvec":
            e, drv = prov
            if drv != VEC or (e, ob) not in ord_:
                return f"{op}: provenance {prov} has no oracle"
            d = rel(val, ord_[(e, ob)]["jtvec"])
        elif op == "gradient":
            e, drv = prov
            if drv == VEC:
                d = rel(val, ord_[(e, ob)]["jtvec"])
            elif drv < 0 or drv % 10 != e or (e, drv // 10) not in ord_:
                return f"{op}: mixed provenance {prov}"
            else:
                d = rel(val, ord_[(e, drv // 10)]["gradient"])
        else:
            return None
        if d >= RTOL:
            return (f"{op} returned a value that differs (rel {d:.2e}) from "
                    f"the fresh result for provenance {prov}")
        return None


def fresh_prov(state, last):
    """What a fresh simulation would report (Fresh(o, op) of the spec)."""
    mv = state["S"][last["obj"]-1]["mv"]
    ob = state["S"][last["obj"]-1]["ob"]
    op = last["op"]
    if op == "gradient":
        return (mv, mv + 10*ob)
    if op == "jtvec":
        return (mv, VEC)
    if op == "misfit":
        return mv + 10*ob
    return mv


def incoherent(state):
    """CachesCoherent of the spec, evaluated on a (conforming) state."""
    S, files = state["S"], state["files"]
    for o, r in enumerate(S, 1):
        if not r["ex"]:
            continue
        mv = r["mv"]
        dp = mv + 10*r["ob"]
        for i in range(len(r["ef"])):
            e = files[r["dir"]-1]["e"][i] if r["ef"][i] == FILE else r["ef"][i]
            if e not in (NONE, mv):
                return (f"object {o}: efield of pair {i+1} is "
                        f"{'missing on disk' if e == GONE else 'of model %s' % e}"
                        f" (its model is {mv})")
            if r["syn"][i] not in (NONE, mv):
                return f"object {o}: synthetic data of model {r['syn'][i]}"
        if r["mis"] not in (NONE, dp):
            return (f"object {o}: cached misfit {r['mis']} (model + 10 x "
                    f"observed data), current is {dp}")
        if tuple(r["grad"]) not in ((NONE, NONE), (mv, dp)):
            return f"object {o}: gradient cache holds {tuple(r['grad'])}"
        if r["res"] not in (NONE, dp):
            return f"object {o}: data.residual holds {r['res']}"
        if r["w"] not in (NONE, r["ob"]):
            return (f"object {o}: data weights of observed data {r['w']}, "
                    f"current observed data {r['ob']}")
    return None


def replay(prob, file_mode, steps, seed):
    """steps: list of spec states (dicts) after each operation.
    Returns list of problems: (index, kind, text)."""
    import random
    w = World(prob, file_mode, random.Random(seed))
    probs = []
    try:
        for i, st in enumerate(steps):
            last = st["last"]
            kind, val = w.apply(last)
            ob = st["S"][last["obj"]-1]["ob"] if last["obj"] else 0
            msg = w.compare_ret(last, kind, val, ob)
            if msg:
                probs.append((i, "ret", msg))
                break
            if last["kind"] == "value":
                prov = last["prov"]
                prov = tuple(prov) if isinstance(prov, (list, tuple)) else prov
                if prov != fresh_prov(st, last):
                    probs.append((i, "property",
                                  f"{last['op']} on object {last['obj']} "
                                  f"reports provenance {prov}, a fresh "
                                  f"simulation gives {fresh_prov(st, last)}"))
            diffs = w.compare_state(st)
            if diffs:
                probs.append((i, "state", "; ".join(diffs)))
                break
            inc = incoherent(st)
            if inc:
                probs.append((i, "property", inc))
    finally:
        w.close()
    return probs
