"""Development tool (not a registered check): evaluate a seeded breaking
change.  1. In a scratch worktree: the demo passes without the patch and fails
with it; the named test files pass with it.  2. Apply the patch to /repo, run
the property's check, undo.  3. Store under /verif/seeded/<id>/."""
import json
import os
import shutil
import subprocess
import sys
import time

V = os.path.dirname(os.path.dirname(os.path.abspath(__file__)))


def sh(cmd, cwd=None, env=None, timeout=3600):
    e = dict(os.environ)
    e.update(env or {})
    p = subprocess.run(cmd, shell=True, cwd=cwd, env=e, text=True,
                       stdout=subprocess.PIPE, stderr=subprocess.STDOUT,
                       timeout=timeout)
    return p.returncode, p.stdout


def main():
    pid, src, sid = sys.argv[1], sys.argv[2].rstrip("/"), sys.argv[3]
    tests = sys.argv[4] if len(sys.argv) > 4 else ""
    tier = sys.argv[5] if len(sys.argv) > 5 else "quick"
    patch = os.path.join(src, "patch.diff")
    demo = os.path.join(src, "demo.py")
    wt = f"/tmp/wt/verify-{sid}"
    sh(f"git -C /repo worktree remove --force {wt}")
    rc, out = sh(f"git -C /repo worktree add -q --detach {wt} HEAD")
    assert rc == 0, out
    env = {"PYTHONPATH": wt}
    meta = {"id": sid, "property": pid, "source_dir": src}
    try:
        rc0, o0 = sh(f"/venv/bin/python {demo}", cwd=wt, env=env)
        rca, oa = sh(f"git apply {patch}", cwd=wt)
        assert rca == 0, "patch does not apply: " + oa
        rc1, o1 = sh(f"/venv/bin/python {demo}", cwd=wt, env=env)
        meta["demo_unpatched_exit"] = rc0
        meta["demo_patched_exit"] = rc1
        meta["demo_patched_tail"] = o1.strip().splitlines()[-3:]
        if tests:
            rct, ot = sh("/venv/bin/python -m pytest -q -rf -p "
                         f"no:cacheprovider {tests}", cwd=wt, env=env)
            meta["tests_run"] = tests
            meta["tests_tail"] = ot.strip().splitlines()[-1:]
            # the two test_cli ...[subprocess] tests fail on the pinned tree
            # too (they are not part of the 263 stable tests)
            failed = [ln for ln in ot.splitlines() if ln.startswith("FAILED")]
            meta["tests_pass_with_patch"] = (rct == 0) or (
                bool(failed) and all("test_cli.py" in ln and
                                     "subprocess" in ln for ln in failed))
    finally:
        sh(f"git -C /repo worktree remove --force {wt}")
    # ---- run the check against /repo with the patch applied
    rc, out = sh(f"git -C /repo apply {patch}")
    assert rc == 0, out
    t0 = time.time()
    try:
        rcc, oc = sh(f"./check {pid} --tier {tier}", cwd=V, timeout=7200)
    finally:
        sh("git -C /repo checkout -- .")
    rcs, os_ = sh("git -C /repo status --short")
    assert os_.strip() == "", "repo not clean: " + os_
    viol = [ln for ln in oc.splitlines() if ln.startswith("  " + pid + ":")]
    meta["check_cmd"] = f"./check {pid} --tier {tier}"
    meta["check_exit"] = rcc
    meta["check_wall_s"] = round(time.time() - t0, 1)
    meta["check_violations"] = len(viol)
    meta["check_first_violations"] = [v[:300] for v in viol[:3]]
    meta["detected"] = rcc == 1
    if rcc == 2:
        meta["machinery_failure"] = [ln for ln in oc.splitlines()
                                     if "MACHINERY" in ln][:2]
    dst = os.path.join(V, "seeded", sid)
    os.makedirs(dst, exist_ok=True)
    shutil.copy(patch, os.path.join(dst, "patch.diff"))
    shutil.copy(demo, os.path.join(dst, "demo.py"))
    note = os.path.join(src, "note.txt")
    if os.path.exists(note):
        meta["needs"] = open(note).read().strip()
    with open(os.path.join(dst, "meta.json"), "w") as f:
        json.dump(meta, f, indent=1)
    print(json.dumps({k: meta[k] for k in (
        "id", "demo_unpatched_exit", "demo_patched_exit", "check_exit",
        "check_violations", "detected")}), meta.get("tests_tail"))
    for v in meta["check_first_violations"][:2]:
        print("   ", v[:250])
    # clean replays written by this run
    for fn in os.listdir(os.path.join(V, "replays")):
        if fn.startswith(pid + "-"):
            os.remove(os.path.join(V, "replays", fn))


if __name__ == "__main__":
    main()
