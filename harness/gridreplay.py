"""Replay of GridCache.tla behaviours on real emg3d.Simulation objects.

A grid is identified by what it equals: for every gridding mode a freshly
created simulation provides the reference grid of every source-frequency pair
(and the content of its _grid_single / _grid_frequency / _grid_source caches);
the projection maps each grid found in the object under test to the spec's
provenance record G(k, s, f).  After each step the returned grid (or model, or
error) and the projected caches are compared with the spec state.
"""
import os
import shutil
import tempfile

import numpy as np

import emg3d

SRC = {1: 'TxED-1', 2: 'TxED-2'}
FRQ = {1: 'f-1', 2: 'f-2'}
NONE = {"k": "none", "s": 0, "f": 0}
ERR = {"k": "error", "s": 0, "f": 0}
UNKNOWN = {"k": "unknown", "s": 0, "f": 0}


def G(k, s=0, f=0):
    return {"k": k, "s": s, "f": f}


def fresh_key(mode, s, f):
    return {"same": G("model"), "single": G("single"), "input": G("input"),
            "frequency": G("freq", 0, f), "source": G("src", s, 0),
            "both": G("both", s, f), "dict": G("dict", s, f)}[mode]


class GProblem:
    def __init__(self, mode):
        self.mode = mode
        h = np.ones(8)*200.
        self.grid = emg3d.TensorMesh([h, h, h], (-800, -800, -1400))
        rng = np.random.default_rng(5)
        self.px = 10**rng.uniform(-0.3, 0.3, self.grid.shape_cells)
        self.freqs = [0.5, 8.0]
        self.ref = None

    def survey(self):
        src = {'TxED-1': emg3d.TxElectricDipole((-300, -100, -500, 0, 0)),
               'TxED-2': emg3d.TxElectricDipole((255, 85, -470, 30, 0))}
        rec = {'RxEP-1': emg3d.RxElectricPoint((100, 50, -600, 0, 0))}
        return emg3d.Survey(src, rec, self.freqs, noise_floor=1e-16,
                            relative_error=0.05)

    def user_grids(self):
        def h(n, length):
            return np.ones(n)*length/n
        shp = [(8, 8, 8), (16, 8, 8), (8, 16, 8), (8, 8, 16), (16, 16, 8)]
        return [emg3d.TensorMesh([h(a, 1600.), h(b, 1600.), h(c, 1600.)],
                                 (-800, -800, -1400)) for a, b, c in shp]

    def simulation(self, file_dir=None):
        mode = self.mode
        if mode == "same":
            kw = dict(gridding='same')
        elif mode == "input":
            kw = dict(gridding='input', gridding_opts=self.user_grids()[4])
        elif mode == "dict":
            gs = self.user_grids()
            kw = dict(gridding='dict', gridding_opts={
                SRC[s]: {FRQ[f]: gs[2*(s-1) + (f-1)] for f in (1, 2)}
                for s in (1, 2)})
        else:
            kw = dict(gridding=mode, gridding_opts={
                'domain': ([-500, 500], [-400, 400], [-1000, -200]),
                'min_width_limits': ([100, 400], [100, 400], [100, 400]),
                'stretching': [1.0, 2.0], 'lambda_from_center': True,
                'center_on_edge': False,
                'max_buffer': 3000, 'cell_numbers': [8, 12, 16, 24, 32]})
        return emg3d.Simulation(
            self.survey(),
            emg3d.Model(self.grid, property_x=self.px, mapping='Resistivity'),
            max_workers=1, **kw,
            solver_opts={'plain': True, 'maxit': 1}, verb=-1,
            file_dir=file_dir, tqdm_opts={'disable': True})

    def prepare(self):
        fr = self.simulation()
        ref = {"pair": {}, "model": {}}
        for s in (1, 2):
            for f in (1, 2):
                ref["pair"][(s, f)] = fr.get_grid(SRC[s], FRQ[f])
                ref["model"][(s, f)] = np.array(
                    fr.get_model(SRC[s], FRQ[f]).property_x)
        # distinct spec keys must be distinguishable grids
        keys = {}
        for (s, f), g in ref["pair"].items():
            k = tuple(fresh_key(self.mode, s, f).values())
            keys.setdefault(k, []).append(g)
        reps = [(k, v[0]) for k, v in keys.items()]
        for i in range(len(reps)):
            for j in range(i+1, len(reps)):
                if reps[i][1] == reps[j][1]:
                    raise RuntimeError(
                        f"mode {self.mode}: grids of {reps[i][0]} and "
                        f"{reps[j][0]} coincide; the problem cannot tell "
                        f"them apart")
        self.ref = ref
        return self


class GWorld:
    def __init__(self, prob, seed):
        import random
        self.p = prob
        self.rng = random.Random(seed)
        self.tmp = tempfile.mkdtemp(prefix="c12g-")
        self.sim = prob.simulation()
        self.n = 0

    def close(self):
        shutil.rmtree(self.tmp, ignore_errors=True)

    def classify(self, g, hint=None):
        if g is None:
            return NONE
        P = self.p
        if hint is not None and g == P.ref["pair"][hint]:
            return fresh_key(P.mode, *hint)
        for (s, f), r in P.ref["pair"].items():
            if g == r:
                return fresh_key(P.mode, s, f)
        return UNKNOWN

    def freq_arg(self, f):
        # get_grid & co. accept the key or the value of a frequency
        return FRQ[f] if self.rng.random() < 0.5 else self.p.freqs[f-1]

    def apply(self, last):
        op, s, f, arg = last["op"], last["s"], last["f"], last["arg"]
        sim = self.sim
        try:
            if op == "grid":
                return self.classify(sim.get_grid(SRC[s], self.freq_arg(f)),
                                     (s, f)), None
            if op == "model":
                m = sim.get_model(SRC[s], self.freq_arg(f))
                note = None
                refm = self.p.ref["model"][(s, f)]
                if m.property_x.shape != refm.shape or not np.allclose(
                        m.property_x, refm, rtol=1e-12, atol=0):
                    note = ("get_model does not return the model a fresh "
                            "simulation returns for this pair")
                return self.classify(m.grid, (s, f)), note
            if op == "compute":
                sim.compute()
                return NONE, None
            if op == "repr":
                repr(sim)
                sim._repr_html_()
                return NONE, None
            if op == "info":
                sim.print_grid_info(return_info=True)
                return NONE, None
            if op == "clean":
                sim.clean(arg)
                return NONE, None
            if op == "copy":
                self.sim = sim.copy(arg)
                return NONE, None
            if op == "dict":
                self.sim = emg3d.Simulation.from_dict(sim.to_dict(arg))
                return NONE, None
            if op == "file":
                self.n += 1
                ext = self.rng.choice(["h5", "npz", "json"])
                fn = os.path.join(self.tmp, f"s{self.n}.{ext}")
                sim.to_file(fn, what=arg, verb=0)
                self.sim = emg3d.Simulation.from_file(fn, verb=0)
                return NONE, None
        except Exception as e:  # noqa
            return ERR, f"{type(e).__name__}: {str(e)[:200]}"
        raise ValueError(op)

    def project(self):
        sim = self.sim
        out = {"mode": sim.gridding}
        out["dg"] = {s: {f: self.classify(sim._dict_grid[SRC[s]][FRQ[f]],
                                          (s, f)) for f in (1, 2)}
                     for s in (1, 2)}
        sg = getattr(sim, "_grid_single", None)
        out["single"] = NONE if sg is None else self.classify(sg)
        gf = getattr(sim, "_grid_frequency", {})
        out["gfreq"] = {f: NONE if FRQ[f] not in gf
                        else self.classify(gf[FRQ[f]], (1, f))
                        for f in (1, 2)}
        gs = getattr(sim, "_grid_source", {})
        out["gsrc"] = {s: NONE if SRC[s] not in gs
                       else self.classify(gs[SRC[s]], (s, 1)) for s in (1, 2)}
        return out


def norm(x):
    """TLA records/functions (dicts, tuples with int keys) -> plain dicts."""
    if isinstance(x, dict):
        return {(int(k) if isinstance(k, str) and k.isdigit() else k): norm(v)
                for k, v in x.items()}
    if isinstance(x, (list, tuple)):
        return {i+1: norm(v) for i, v in enumerate(x)}
    return x


def replay(prob, steps, seed):
    w = GWorld(prob, seed)
    probs = []
    try:
        for i, st in enumerate(steps):
            last = st["last"]
            exp = norm(last["ret"])
            got, note = w.apply(last)
            if got != exp:
                what = "property" if exp["k"] != "error" else "ret"
                probs.append((i, what,
                              f"{last['op']}: spec returns {exp}, code "
                              f"{got}{' (' + note + ')' if note else ''}"))
                break
            if note and got["k"] != "error":
                probs.append((i, "property", note))
                break
            if got["k"] == "error":
                break          # the object may be half-updated after an error
            pr = w.project()
            diffs = []
            for k in ("dg", "gfreq", "gsrc"):
                if norm(st[k]) != pr[k]:
                    diffs.append(f"{k}: spec {norm(st[k])} code {pr[k]}")
            if norm(st["single"]) != pr["single"]:
                diffs.append(f"_grid_single: spec {st['single']} code "
                             f"{pr['single']}")
            if st["mode"] != pr["mode"]:
                diffs.append(f"gridding: spec {st['mode']} code {pr['mode']}")
            if diffs:
                probs.append((i, "state", "; ".join(diffs)[:600]))
                break
    finally:
        w.close()
    return probs
