"""C06 - multigrid converges at a grid-size-independent rate on the reference
problems.  Partial (level exploration): the factors are measurements; TLC
evaluates the recorded runs against Converge.tla.

1. TLC checks Converge.tla: if every fine-grid cycle contracts by at most the
   cap, the run converges within Need cycles (the smallest K with
   cap^K <= tol), never gives up; deviation Stall must be found.
2. Real stand-alone multigrid solves (sslsolver, semicoarsening and line
   relaxation off) on uniform grids of the SAME domain with 8, 16, 32 (and 64)
   cells per direction, cycles F/V/W, homogeneous isotropic, HTI (1:2), VTI
   (1:3) and triaxial (1:2:3) media, frequency and Laplace domain, 1..3 pre/post smoothing steps:
   one trace per solve with one Cycle event per fine-grid cycle (factor from
   info['error_at_cycle'] below the cap of its medium and smoothing count) and
   the End event; TLC: EveryCycleContracts, BoundedCycles, MustConverge,
   NoGiveUp, HIndep (worst factor <= 1.5 x the one at 16^3 + 0.01, cycles <=
   cycles at 16^3 + 2).
Caps = 1.5 x the worst per-cycle factor measured at 64^3 on the pinned tree
(2026-09-24): isotropic 0.243 / 0.138 / 0.085, triaxial (1:2:3) 0.456 / 0.211
/ 0.115, HTI (1:2) 0.425 / 0.195 / 0.106, VTI (1:3) 0.540 / 0.297 / 0.166 for
nu = 1 / 2 / 3.
"""
import itertools
import json
import math
import multiprocessing as mp
import os
import random

from . import common as C

MEASURED = {("iso", 1): 0.243, ("iso", 2): 0.138, ("iso", 3): 0.085,
            ("tri", 1): 0.456, ("tri", 2): 0.211, ("tri", 3): 0.115,
            ("hti", 1): 0.425, ("hti", 2): 0.195, ("hti", 3): 0.106,
            ("vti", 1): 0.540, ("vti", 2): 0.297, ("vti", 3): 0.166}
MARGIN = 1.5
SLACK = 1.5
TOL = 1e-6


def cap(medium, nu):
    return MARGIN*MEASURED[(medium, nu)]


def need(medium, nu, tol=TOL):
    return int(math.ceil(math.log(tol)/math.log(cap(medium, nu))))


def _solve(cfg):
    os.environ.setdefault("NUMBA_NUM_THREADS", "1")
    import warnings
    warnings.filterwarnings("ignore")
    import numpy as np
    import emg3d
    shape, cycle, medium, freq, nu = cfg[:5]
    tol = cfg[5] if len(cfg) > 5 else TOL
    L = 3200.0
    h = [np.ones(n)*L/max(shape) for n in shape]
    grid = emg3d.TensorMesh(h, [-a.sum()/2 for a in h])
    if medium == "iso":
        model = emg3d.Model(grid, 1.0, mapping='Resistivity')
    elif medium == "hti":       # mildly anisotropic: 1:2 in y
        model = emg3d.Model(grid, 1.0, property_y=2.0, mapping='Resistivity')
    elif medium == "vti":       # 1:3 in z
        model = emg3d.Model(grid, 1.0, property_z=3.0, mapping='Resistivity')
    else:
        model = emg3d.Model(grid, 1.0, 2.0, 3.0, mapping='Resistivity')
    sf = emg3d.get_source_field(grid, (0.0, 0.0, 0.0, 25, 10), freq)
    _, info = emg3d.solve(
        model, sf, sslsolver=False, semicoarsening=False,
        linerelaxation=False, cycle=cycle, nu_init=0, nu_pre=nu, nu_coarse=1,
        nu_post=nu, tol=tol, maxit=50, verb=-1, return_info=True)
    e = np.array(info['error_at_cycle'], dtype=float)/info['ref_error']
    r = (e[1:]/e[:-1]).tolist()
    return {"cfg": list(cfg), "ratios": r, "it": int(info['it_mg']),
            "exit": int(info['exit']), "msg": info['exit_message']}


def cfg_for(k):
    return (f"SPECIFICATION TraceSpec\nCONSTANTS Need = {k} MaxIt = 50 "
            "Deviations = {}\nCONSTRAINT Accept\nPOSTCONDITION Post\n"
            "CHECK_DEADLOCK FALSE\n")


def run(tier, replay=None):
    rep = C.Report("C06", tier, level="exploration")
    rng = random.Random(C.seed())
    rep.assumptions += [
        "partial: convergence factors are measurements on deterministic "
        "inputs compared with caps = 1.5 x the factors measured on the pinned "
        "tree at 64^3 and with the factor of the same configuration at 16^3 "
        "(x 1.5 + 0.01); TLC evaluates the recorded cycles against "
        "Converge.tla",
        "quick: 8, 16, 32 cells per direction for every configuration, 64 "
        "for a sample; thorough: 64 for all and non-cubic 2^a x 3 2^b x "
        "5 2^c shapes"]
    res = C.run_tlc("Converge", "Converge.cfg", coverage=True, timeout=300)
    if C.expect_tlc_ok(rep, "Converge: Need = 5, MaxIt = 8", res, "C06"):
        C.check_coverage(res, ["Cycle", "Converge"], "Converge")
    rep.cov["exhaustive"] = True
    dev = C.run_tlc("Converge", "Converge_dev.cfg", timeout=300)
    C.tlc_must_run(dev, "Converge_dev")
    rep.canary(dev.violated == "BoundedCycles")
    if dev.violated != "BoundedCycles":
        raise C.MachineryError("TLC did not find the Stall deviation")
    base = list(itertools.product("FVW", ["iso", "tri", "hti", "vti"],
                                  [1.0, -1.0], [1, 2, 3]))
    if replay:
        with open(replay) as f:
            c = json.load(f)["case"]["cfg"]
        b = (c[1], c[2], c[3], c[4])
        cfgs = [((16, 16, 16), *b, *c[5:]), (tuple(c[0]), *b, *c[5:])]
    else:
        cfgs = [((n, n, n), *b) for b in base for n in (8, 16, 32)]
        # non-cubic 2^a x 3 2^b x 5 2^c shapes (fewer cells in x than in y)
        cfgs += [(shp, *b) for b in base if b[3] == 2
                 for shp in ((8, 12, 20), (16, 24, 40))]
        big = base if tier == "thorough" else rng.sample(base, 8)
        cfgs += [((64, 64, 64), *b) for b in big]
        if tier == "thorough":
            for b in base:
                cfgs.append((rng.choice([(32, 48, 40), (64, 24, 40),
                                         (16, 96, 20), (48, 32, 80)]), *b))
    if not replay:
        # "to reach a given tolerance": a second, tighter one
        cfgs += [((n, n, n), *b, 1e-10) for b in base if b[3] == 2
                 for n in (16, 32)]
    order = sorted(range(len(cfgs)), key=lambda i: -max(cfgs[i][0]))
    with mp.get_context("fork").Pool(min(C.NCPU, 14)) as pool:
        out = pool.map(_solve, [cfgs[i] for i in order], chunksize=1)
    results = [None]*len(cfgs)
    for i, o in zip(order, out):
        results[i] = o
    ref16 = {tuple(r["cfg"][1:]): r for r in results
             if tuple(r["cfg"][0]) == (16, 16, 16)}
    for r in results:                     # the reference of a tight-tolerance
        if len(r["cfg"]) > 5:             # run is the 16^3 run of that tolerance
            ref16.setdefault(tuple(r["cfg"][1:]), r)
    groups = {}
    traces = []
    for k, r in enumerate(results):
        shape, cycle, medium, freq, nu = r["cfg"][:5]
        tol = r["cfg"][5] if len(r["cfg"]) > 5 else TOL
        cp = cap(medium, nu)
        ev = [{"e": "Cycle", "good": bool(x <= cp)} for x in r["ratios"]]
        ev.append({"e": "End", "conv": r["exit"] == 0})
        r16 = ref16.get(tuple(r["cfg"][1:]), r)
        worst, worst16 = max(r["ratios"]), max(r16["ratios"])
        hindep = True
        if max(shape) > 16 and len(set(shape)) == 1:
            hindep = bool(worst <= SLACK*worst16 + 0.01 and
                          r["it"] <= r16["it"] + 2)
        r["worst"], r["worst16"], r["cap"] = worst, worst16, cp
        traces.append({"ev": ev, "hindep": hindep})
        groups.setdefault(need(medium, nu, tol), []).append(k)
    nbad = 0
    for nd, idx in sorted(groups.items()):
        bad = dict(C.validate_batch(
            rep, "TraceConverge", "TraceConverge.cfg",
            [traces[k] for k in idx], f"impl Need={nd}", cfg_text=cfg_for(nd)))
        nbad += len(bad)
        for i, why in sorted(bad.items()):
            r = results[idx[i]]
            shape, cycle, medium, freq, nu = r["cfg"][:5]
            rep.violation(
                f"C06:trace:{why}:shape={'x'.join(map(str, shape))};"
                f"cycle={cycle};medium={medium};freq={freq};nu={nu};"
                f"tol={r['cfg'][5] if len(r['cfg']) > 5 else TOL}",
                f"multigrid on the reference problem: {why}; worst factor "
                f"{r['worst']:.4f} (cap {r['cap']:.4f}, at 16^3 "
                f"{r['worst16']:.4f}), {r['it']} cycles (at most "
                f"{nd} if every cycle contracts by the cap), exit "
                f"{r['exit']} {r['msg']}; factors "
                f"{[round(x, 4) for x in r['ratios']]}", {"cfg": r["cfg"]})
    rep.add_traces(len(traces) - nbad)
    rep.cov["evaluations"] = len(traces)
    rep.cov["distinct_nontrivial"] = len({json.dumps(r["cfg"])
                                          for r in results})
    rep.cov["rule"] = ("one solve per (shape, cycle, medium, domain, "
                       "smoothing count); all deterministic, all distinct")
    rep.cov["worst_factor_by_medium_nu"] = {
        f"{m},{n}": round(max(r["worst"] for r in results
                              if r["cfg"][2] == m and r["cfg"][4] == n), 4)
        for (m, n) in MEASURED
        if any(r["cfg"][2] == m and r["cfg"][4] == n for r in results)}
    rep.cov["sizes"] = sorted({max(r["cfg"][0]) for r in results})
    k = rng.randrange(len(results))
    rep.sample({"cfg": results[k]["cfg"], "factors": [
        round(x, 4) for x in results[k]["ratios"]], "events": traces[k]["ev"]})
    if not replay:
        import copy
        nd, idx = sorted(groups.items())[0]
        muts = []
        t = copy.deepcopy(traces[idx[0]])
        t["ev"][1]["good"] = False
        muts.append(t)                   # a cycle above the cap
        t = copy.deepcopy(traces[idx[1]])
        t["ev"] = [{"e": "Cycle", "good": True}]*(nd + 1) + [t["ev"][-1]]
        muts.append(t)                   # more cycles than the bound allows
        t = copy.deepcopy(traces[idx[2]])
        t["ev"][-1]["conv"] = False
        muts.append(t)                   # gave up
        t = copy.deepcopy(traces[idx[3]])
        t["hindep"] = False
        muts.append(t)
        cb = {b[0] for b in C.validate_batch(
            rep, "TraceConverge", "TraceConverge.cfg", muts, "canaries",
            count=False, cfg_text=cfg_for(nd))}
        for i in range(len(muts)):
            rep.canary(i in cb)
        if len(cb) != len(muts):
            raise C.MachineryError("canary traces accepted: " + str(
                sorted(set(range(len(muts))) - cb)))
    return rep.finish()
