"""C01 - reported solver success certifies the returned field.

1. TLC checks P1..P8 on Solve.tla (all configurations of solve(): modes x
   solver x supplied/fresh x zero source x return shape x error sequences)
   and, as anti-vacuity, requires TLC to FIND the violation when a named
   deviation / dropped environment assumption is switched on.
2. Real emg3d.solve calls are recorded (harness/solverec.py) and validated
   by TLC against Solve.tla (TraceSolve); the C01 properties are evaluated
   both on the model state and on the observations, which use an operator
   assembled independently of emg3d.core (harness/fit.py).
"""
import copy
import json
import multiprocessing as mp
import os
import random

from . import common as C

SC_INPUTS = [0, 1, 2, 3, True, 12, 1213, 20]
LR_INPUTS = [0, 1, 2, 3, 4, 5, 6, 7, True, 1213, 47]
NUS = [(0, 2, 1, 2), (1, 0, 2, 1), (2, 1, 1, 0), (0, 1, 1, 1), (0, 3, 2, 3)]


def _run(c):
    os.environ.setdefault("NUMBA_NUM_THREADS", "1")
    from . import solverec
    try:
        return solverec.run_config(c)
    except Exception as e:  # noqa
        import traceback
        return {"fatal": f"{type(e).__name__}: {e}\n{traceback.format_exc()}",
                "inp": c}


def key_of(t):
    c = t["inp"]
    return ("shape=%s;cycle=%s;ssl=%s;sc=%s;lr=%s;cl=%s;maxit=%s;tol=%g;"
            "nu=%s;freq=%g;given=%s;zero_src=%s;case=%s;ar=%s;ri=%s;seed=%s"
            % ("x".join(map(str, c["shape"])), c["cycle"], c["ssl"], c["sc"],
               c["lr"], c["cl"], c["maxit"], c["tol"],
               "".join(map(str, c["nu"])), c["freq"], c["given"],
               c.get("zero_src", False), c.get("case", 0),
               c.get("always_return", False), c["ret_info"], c["seed"]))


def gen_configs(tier, rng):
    cfgs = []
    n = 420 if tier == "quick" else 6000
    shapes = [(4, 4, 4), (4, 6, 8), (8, 4, 2), (5, 6, 4), (8, 8, 8), (3, 4, 6),
              (6, 6, 6), (2, 4, 8), (8, 12, 4), (2, 2, 2), (7, 5, 3)]
    if tier == "thorough":
        shapes += [(16, 8, 4), (12, 12, 12), (16, 16, 8), (10, 6, 14)]
    modes = [("F", False), ("V", False), ("W", False),
             ("F", "bicgstab"), ("V", "bicgstab"), ("W", "cgs"),
             ("F", "cgs"), ("F", "gcrotmk"), ("V", "gcrotmk"),
             (None, "bicgstab"), (None, "cgs"), (None, "gcrotmk")]
    for k in range(n):
        cycle, ssl = modes[k % len(modes)]
        c = dict(shape=rng.choice(shapes), cycle=cycle, ssl=ssl,
                 sc=rng.choice(SC_INPUTS) if cycle else 0,
                 lr=rng.choice(LR_INPUTS) if cycle else 0,
                 cl=rng.choice([-1, -1, -1, 0, 1, 2]),
                 maxit=rng.choice([1, 2, 5, 50, 50, 50]),
                 tol=rng.choice([1e-3, 1e-6, 1e-6, 1e-9]),
                 nu=rng.choice(NUS),
                 freq=rng.choice([1.0, 0.1, 10.0, -1.0, -5.0, 1000.0]),
                 given=rng.choice(["none", "none", "random", "converged",
                                   "zero"]),
                 zero_src=rng.random() < 0.1,
                 case=rng.choice([0, 0, 1, 2, 3]),
                 mu=rng.random() < 0.3, eps=rng.random() < 0.3,
                 stretch=rng.choice([0.0, 0.2, 0.5]),
                 src=rng.choice(["point", "random"]),
                 amp=rng.choice([1.0, 1.0, 1.0, 1e-6, 1e4, 1e-17, 1e-60,
                                 1e-120]),
                 ret_info=rng.random() < 0.8,
                 always_return=rng.random() < 0.2,
                 seed=rng.randrange(10**6))
        # (drawn from a separate stream: the configurations above stay the
        # ones earlier rounds were evaluated with)
        r2 = random.Random(c["seed"])
        c["prelude"] = r2.choice([None, None, None, "inplace", "setter"])
        # maxit = 0: SciPy's bicgstab / cgs return the start field with
        # info = 0 (gcrotmk raises inside SciPy, multigrid alone ignores it)
        if ssl in ("bicgstab", "cgs") and r2.random() < 0.12:
            c["maxit"] = 0
        if rng.random() < 0.03:
            c["given"] = "wrongdtype"
        if c["given"] == "none":
            c["always_return"] = False
        cfgs.append(c)
    return cfgs


def for_tlc(t):
    """What TLC reads: no floats, no nulls."""
    ev = []
    for e in t["ev"]:
        ev.append({k: v for k, v in e.items()
                   if not isinstance(v, float) and v is not None})
    fin = t["fin"]
    if fin is None:
        fin = {"exit": -1}
    fin = {k: v for k, v in fin.items()
           if not isinstance(v, float) and v is not None}
    return {"cfg": t["cfg"], "ev": ev, "fin": fin,
            "err": "none" if t["err"] is None else "error"}


def exhaustive(rep):
    res = C.run_tlc("Solve", "Solve.cfg", coverage=True, timeout=900)
    ok = C.expect_tlc_ok(rep, "Solve: all modes/solvers/fields/sources, "
                         "maxit<=3, fixed code, SciPy assumptions on", res,
                         "C01")
    if ok:
        C.check_coverage(res, ["FreshField", "DtypeError", "SuppliedField",
                               "ZeroSource", "Dispatch", "MGCycleStep", "KTop",
                               "KP1", "KMid", "KP2", "KUpdate", "KCallback",
                               "GTop", "GTest", "GNext", "Finish"], "Solve")
    rep.cov["exhaustive"] = True
    # anti-vacuity: the invariants must bite when a deviation is switched on
    for cfg, want in [("Solve_dev_zero.cfg", ("P5", "P8", "P4")),
                      ("Solve_dev_stale.cfg", ("P4",)),
                      ("Solve_env_breakdown.cfg", ("P1", "P6")),
                      ("Solve_env_est.cfg", ("P1", "P6"))]:
        r = C.run_tlc("Solve", cfg, timeout=600)
        C.tlc_must_run(r, cfg)
        hit = bool(r.violated and r.violated.startswith(want))  # tuple ok
        rep.canary(hit)
        if not hit:
            raise C.MachineryError(
                f"{cfg}: expected TLC to report {want}*, got {r.violated}")


def canaries(rep, good, rng):
    muts = []

    def pick(pred):
        cands = [t for t in good if pred(t)]
        return copy.deepcopy(rng.choice(cands)) if cands else None

    t = pick(lambda t: t["fin"] and t["fin"].get("exit") == 0
             and not t["cfg"]["zeroSrc"])
    if t:
        t["fin"]["cls"] = "bad"          # success reported, residual too big
        muts.append(("exit0-bad-residual", t))
    t = pick(lambda t: t["fin"] and t["fin"].get("exit") == 0)
    if t:
        t["fin"]["absMatches"] = False   # stale error figure
        muts.append(("stale-abs-error", t))
    t = pick(lambda t: t["fin"] and t["fin"].get("exit") == 1)
    if t:
        t["fin"]["exit"] = 0             # failure reported as success
        muts.append(("failure-as-success", t))
    t = pick(lambda t: any(e["e"] == "MGCycle" and e["stop"] for e in t["ev"]))
    if t:
        e = [x for x in t["ev"] if x["e"] == "MGCycle" and x["stop"]][0]
        e["msg"] = "CONVERGED" if e["msg"] != "CONVERGED" else "DIVERGED"
        muts.append(("terminate-message", t))
    t = pick(lambda t: t["fin"] and t["fin"].get("pec"))
    if t:
        t["fin"]["pec"] = False
        muts.append(("pec-violated", t))
    t = pick(lambda t: sum(e["e"] == "Callback" for e in t["ev"]) >= 2)
    if t:
        i = [i for i, e in enumerate(t["ev"]) if e["e"] == "Callback"][0]
        del t["ev"][i]                   # a missing callback
        muts.append(("drop-callback", t))
    t = pick(lambda t: t["cfg"]["zeroSrc"] and t["fin"])
    if t:
        t["fin"]["zero"] = False
        muts.append(("zero-source-nonzero-field", t))
    if len(muts) < 5:
        raise C.MachineryError("could not build canaries")
    bad = C.validate_batch(rep, "TraceSolve", "TraceSolve.cfg",
                           [for_tlc(m[1]) for m in muts], "canaries",
                           count=False)
    badidx = {b[0] for b in bad}
    for i, (name, t) in enumerate(muts):
        rep.canary(i in badidx)
    acc = [muts[i][0] for i in range(len(muts)) if i not in badidx]
    if acc:
        raise C.MachineryError(f"canary traces accepted: {acc}")


def run(tier, replay=None):
    rep = C.Report("C01", tier)
    rng = random.Random(C.seed())
    rep.assumptions += [
        "residual classes are computed with harness/fit.py (assembled from "
        "grid widths and cell conductivities only, not emg3d.core); runs "
        "whose residual lies within 1e-6 (relative) of a decision threshold "
        "are not validated (counted as borderline)",
        "Solve.tla's exhaustive config assumes SciPy reports info=0 only for "
        "a residual below its tolerance and no breakdown after an inner "
        "CONVERGED; traces are validated WITHOUT these assumptions",
        "sources are supported on interior edges only (statement: away from "
        "the outermost cells)"]
    if replay:
        with open(replay) as f:
            case = json.load(f)["case"]
        cfgs = [case["inp"]]
        for c in cfgs:
            c["shape"] = tuple(c["shape"])
            c["nu"] = tuple(c["nu"])
    else:
        exhaustive(rep)
        cfgs = gen_configs(tier, rng)
    with mp.get_context("fork").Pool(C.NCPU) as pool:
        traces = pool.map(_run, cfgs, chunksize=4)
    fatal = [t for t in traces if "fatal" in t]
    if fatal:
        raise C.MachineryError(f"harness failure: {fatal[0]['fatal']}")
    usable = [t for t in traces if not t["border"]]
    rep.cov["configs_run"] = len(traces)
    rep.cov["borderline_skipped"] = len(traces) - len(usable)
    bad = C.validate_batch(rep, "TraceSolve", "TraceSolve.cfg",
                           [for_tlc(t) for t in usable], "impl", chunk=3000)
    badidx = {}
    for i, why in bad:
        badidx[i] = why
    rep.add_traces(len(usable) - len(badidx))
    rep.cov["events_validated"] = sum(len(t["ev"]) for t in usable)
    rep.cov["distinct_mode_solver_field_source"] = len({
        (t["cfg"]["mg"], t["cfg"]["ssl"], t["cfg"]["given"],
         t["cfg"]["zeroSrc"], t["cfg"]["supGood"], t["cfg"]["retInfo"],
         t["cfg"]["alwaysRet"], (t["fin"] or {}).get("msg"))
        for t in usable})
    rep.cov["exit0_runs"] = sum(1 for t in usable
                                if t["fin"] and t["fin"].get("exit") == 0)
    rep.cov["exit1_runs"] = sum(1 for t in usable
                                if t["fin"] and t["fin"].get("exit") == 1)
    for i, why in sorted(badidx.items()):
        t = usable[i]
        d = C.diagnose_one("TraceSolve", "TraceSolve.cfg", for_tlc(t),
                           len(t["ev"]))
        nxt = (t["ev"][d["matched_events"]]
               if d["matched_events"] < len(t["ev"]) else "final state")
        rep.violation(
            f"C01:trace:{why}:{key_of(t)}",
            f"recorded solve() is not a behaviour of Solve.tla / violates "
            f"C01 ({why}); matched {d['matched_events']}/{d['of']} events; "
            f"next: {nxt}; fin={t['fin']}",
            {"inp": t["inp"], "cfg": t["cfg"], "ev": t["ev"][:100],
             "fin": t["fin"], "diag": d})
    good = [t for i, t in enumerate(usable) if i not in badidx]
    if good:
        s = rng.choice([t for t in good if len(t["ev"]) > 2] or good)
        rep.sample({"cfg": s["cfg"], "events_first_15": s["ev"][:15],
                    "n_events": len(s["ev"]), "fin": s["fin"],
                    "input": s["inp"]})
        if not replay:
            canaries(rep, good, rng)
    elif not replay:
        raise C.MachineryError("no accepted trace")
    return rep.finish()
