"""C08 - J v is the data derivative, J^T its exact adjoint.  Partial (level
exploration), same machinery as C07 (SensPipe.tla, harness/sens.py).

1. TLC: SensPipe.tla exhaustively, incl. ExpansionIsTranspose: the way jvec
   expands the rows of its vector to the three edge directions is the
   transpose of the way the gradient machinery collects them.
2. jtvec(w) of real Simulations is run with tag-writing kernels and validated
   by TLC (TraceSensPipe): adjoint sources exactly for the entries where
   w / weights is finite, collection, chain rule, shape - for
   gridding='same' and for a provided computational grid (adjoint volume
   averaging in the loop).
3. Observations attached to every trace: J v against central differences of
   the synthetic data (rtol 1e-4 of the largest entry; model grid), Re<w, J v>
   = <J^T w, v> for complex w (1e-6) for both gridding modes, jtvec(weighted
   residual) = gradient (1e-7), jtvec leaves the cached gradient untouched.
"""
from . import common as C
from . import sens
from . import c07


def _job(job):
    import numpy as np
    sens.silence()
    try:
        case = sens.Case(job).prepare()
        gridding = "input" if job["seed"] % 3 == 0 else "same"
        shape = (len(case.sources), sens.NR, len(case.freqs))
        w = (case.rng.standard_normal(shape) +
             1j*case.rng.standard_normal(shape))*1e-12
        w[case.rng.random(shape) < 0.15] = np.nan
        tr, notes = sens.structure_trace(case, "jtvec", w=w,
                                         gridding=gridding)
        notes += sens.observe_jvec(case, "same")
        if gridding != "same":
            notes += sens.observe_jvec(case, gridding)
        if job["seed"] % 4 == 1:
            # source- and frequency-dependent automatic grids
            notes += sens.observe_jvec(case, "both")
        tr["obsok"] = not notes
        return {"trace": tr, "notes": notes, "job": job}
    except Exception as e:  # noqa
        import traceback
        return {"fatal": f"{type(e).__name__}: {e}\n{traceback.format_exc()}",
                "job": job}


def run(tier, replay=None):
    rep = C.Report("C08", tier, level="exploration")
    rep.assumptions += [
        "partial: derivative and adjointness are floating-point observations "
        "(1e-4 / 1e-6; solver tolerance 1e-10) handed to TLC as booleans; "
        "TLC decides the structure of jtvec (gradient machinery with the "
        "residual replaced) and that jvec's expansion is the transpose of "
        "the gradient's collection",
        "gridding modes: 'same', a provided computational grid ('input') and "
        "automatic grids per source and frequency ('both', a quarter of the "
        "cases); in-memory; small grids"]
    return c07.run_common("C08", _job, tier, replay, 48, 480, rep)
