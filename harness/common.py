"""Common machinery: TLC driver, batch trace validation, evidence, findings.

Everything here is standard library only.  The verdict about a property is
always TLC's (exhaustive config and/or trace config); Python only produces
traces from the real code, replays TLC behaviours into the real code, and
reports what TLC said.
"""
import json
import os
import re
import shutil
import subprocess
import sys
import tempfile
import time

VERIF = os.path.dirname(os.path.dirname(os.path.abspath(__file__)))
SPEC = os.path.join(VERIF, "spec")
# development runs against a scratch worktree (harness/seedpar.py) redirect
# their output; the registered commands never set these variables
EVID = os.environ.get("VERIF_EVIDENCE_DIR", os.path.join(VERIF, "evidence"))
REPLAYS = os.environ.get("VERIF_REPLAY_DIR", os.path.join(VERIF, "replays"))
REPO = os.environ.get("EMG3D_REPO", "/repo")
TLA_CP = ("/opt/veriftools/tla/tla2tools.jar:"
          "/opt/veriftools/tla/CommunityModules-deps.jar")
NCPU = os.cpu_count() or 4


class MachineryError(Exception):
    """The checking machinery itself failed (exit code 2)."""


def seed():
    try:
        return int(os.environ.get("VERIF_SEED", "0"))
    except ValueError:
        return 0


_scratch = []


def scratch(prefix="emg3dverif-"):
    d = tempfile.mkdtemp(prefix=prefix)
    _scratch.append(d)
    return d


def cleanup():
    for d in _scratch:
        shutil.rmtree(d, ignore_errors=True)
    del _scratch[:]


# --------------------------------------------------------------------------
# TLC
# --------------------------------------------------------------------------
class TLCResult(dict):
    __getattr__ = dict.get


_RE_STATES = re.compile(
    r"(\d+) states generated, (\d+) distinct states found, "
    r"(\d+) states left on queue")
_RE_DEPTH = re.compile(r"The depth of the complete state graph search is (\d+)")
_RE_INV = re.compile(r"Error: Invariant (\S+) is violated")
_RE_PROP = re.compile(r"Error: (Action|Temporal) propert\w+ (\S*) ?\w* ?violated")


def run_tlc(module, cfg, workdir=None, workers=None, timeout=1800, env=None,
            extra=(), simulate=None, depth=None, coverage=False,
            deadlock=True, dfs=False):
    """Run TLC on spec/<module>.tla with spec/<cfg>.  Returns TLCResult.

    The spec directory is copied into a scratch directory (so TLC never
    writes into /verif), metadir is scratch as well.
    """
    wd = workdir or scratch("tlc-")
    specdir = os.path.join(wd, "spec")
    if not os.path.isdir(specdir):
        shutil.copytree(SPEC, specdir)
    meta = tempfile.mkdtemp(prefix="meta-", dir=wd)
    cmd = ["java", "-Xmx12g", "-Xss64m"]
    if dfs:
        cmd.append("-Dtlc2.tool.queue.IStateQueue=StateDeque")
    cmd += ["-cp", TLA_CP, "tlc2.TLC",
            "-workers", str(workers or NCPU), "-metadir", meta,
            "-noGenerateSpecTE", "-config", cfg]
    if not deadlock:
        cmd.append("-deadlock")
    if coverage:
        cmd += ["-coverage", "1"]
    if simulate is not None:
        cmd += ["-simulate", simulate]
        if depth:
            cmd += ["-depth", str(depth)]
    cmd += list(extra)
    cmd.append(module + ".tla")
    e = dict(os.environ)
    e.pop("JAVA_TOOL_OPTIONS", None)
    if env:
        e.update({k: str(v) for k, v in env.items()})
    t0 = time.time()
    try:
        p = subprocess.run(cmd, cwd=specdir, env=e, stdout=subprocess.PIPE,
                           stderr=subprocess.STDOUT, timeout=timeout,
                           text=True, errors="replace")
        out, rc, timed_out = p.stdout, p.returncode, False
    except subprocess.TimeoutExpired as ex:
        out = ex.stdout or ""
        if isinstance(out, bytes):
            out = out.decode(errors="replace")
        rc, timed_out = -9, True
    shutil.rmtree(meta, ignore_errors=True)
    res = TLCResult(out=out, rc=rc, timed_out=timed_out,
                    wall=time.time() - t0, cmd=" ".join(cmd))
    m = None
    for m in _RE_STATES.finditer(out):
        pass
    if m:
        res["generated"] = int(m.group(1))
        res["distinct"] = int(m.group(2))
        res["queue"] = int(m.group(3))
    else:
        res["generated"] = res["distinct"] = 0
        res["queue"] = -1
    d = _RE_DEPTH.search(out)
    res["depth"] = int(d.group(1)) if d else 0
    res["ok"] = ("Model checking completed. No error has been found." in out
                 and rc == 0)
    inv = _RE_INV.search(out)
    res["violated"] = inv.group(1) if inv else None
    if res["violated"] is None:
        pr = _RE_PROP.search(out)
        if pr:
            res["violated"] = pr.group(2) or pr.group(1)
    if "Error: Deadlock reached" in out and res["violated"] is None:
        res["violated"] = "Deadlock"
    res["postcondition_failed"] = "POSTCONDITION" in out and "violated" in out \
        or "Error: The postcondition" in out
    res["prints"] = parse_prints(out)
    return res


def tlc_must_run(res, what):
    """Raise MachineryError if TLC did not run to a verdict."""
    if res.timed_out:
        raise MachineryError(f"TLC timed out: {what}")
    bad = ("Parsing or semantic analysis failed" in res.out or
           "Error: TLC threw an unexpected exception" in res.out and
           res.violated is None and not res.postcondition_failed or
           "TLC encountered an unexpected exception" in res.out)
    if bad or (not res.ok and res.violated is None
               and not res.postcondition_failed):
        tail = "\n".join(res.out.splitlines()[-40:])
        raise MachineryError(f"TLC failed ({what}):\n{tail}")


def parse_prints(out):
    """Values printed by PrintT(<<"VP", tag, value>>) as (tag, raw) pairs.
    TLC wraps long values over several lines: match brackets."""
    res = []
    for m in re.finditer(r'<<\s*"VP",\s*"([^"]+)",\s*', out):
        depth, j = 1, m.end()
        while j < len(out) and depth > 0:
            if out.startswith("<<", j):
                depth += 1
                j += 2
            elif out.startswith(">>", j):
                depth -= 1
                j += 2
            else:
                j += 1
        raw = out[m.end():j-2]
        res.append((m.group(1), " ".join(raw.split())))
    return res


def parse_coverage(out):
    """Per-action counts from -coverage output: name -> (distinct, total)."""
    cov = {}
    for m in re.finditer(r"^<(\w+) line \d+, col \d+ to line \d+, col \d+ of "
                         r"module (\w+)>: (\d+):(\d+)", out, re.M):
        name = m.group(1)
        d, t = int(m.group(3)), int(m.group(4))
        a = cov.get(name, (0, 0))
        cov[name] = (a[0] + d, a[1] + t)
    return cov


def tla_set_ints(raw):
    return [int(x) for x in re.findall(r"-?\d+", raw)]


# --------------------------------------------------------------------------
# Batch trace validation
# --------------------------------------------------------------------------
def validate_traces(module, cfg, traces, timeout=1800, env=None, dfs=False,
                    keep=None):
    """Validate a batch of traces with TLC.

    `traces` is a list (JSON-serialisable); written to a scratch file whose
    path is handed over in env TRACE_FILE.  The trace spec prints
    <<"VP","accepted",{tids}>> in its POSTCONDITION.  Returns
    (accepted_tid_set, TLCResult).
    """
    wd = scratch("trace-")
    path = os.path.join(wd, "traces.json")
    with open(path, "w") as f:
        json.dump(traces, f, separators=(",", ":"))
    e = {"TRACE_FILE": path}
    if env:
        e.update(env)
    res = run_tlc(module, cfg, workdir=wd, workers=1, timeout=timeout, env=e,
                  deadlock=False, dfs=dfs)
    tlc_must_run(res, f"trace validation {module}")
    acc = None
    for tag, raw in res.prints:
        if tag == "accepted":
            acc = set(tla_set_ints(raw))
    if acc is None:
        raise MachineryError(
            "trace spec did not print the accepted set:\n" +
            "\n".join(res.out.splitlines()[-30:]))
    if keep:
        shutil.copy(path, keep)
    return acc, res


def diagnose_trace(module, cfg, trace, timeout=600, env=None):
    """Re-run a single rejected trace; the trace spec prints the longest
    matched prefix <<"VP","maxl",n>> and the state there."""
    acc, res = validate_traces(module, cfg, [trace], timeout=timeout,
                               env=dict(env or {}, TRACE_DIAG="1"))
    info = {"accepted": bool(acc)}
    for tag, raw in res.prints:
        if tag in ("maxl", "laststate"):
            info[tag] = raw
    return info


# --------------------------------------------------------------------------
# Evidence, findings, verdict
# --------------------------------------------------------------------------
def load_known_findings():
    p = os.path.join(VERIF, "known_findings.json")
    if not os.path.exists(p):
        return {"findings": [], "fixed": []}
    with open(p) as f:
        return json.load(f)


def to_jsonable(o):
    """Tuple keys -> "(a, b)" strings, tuples/sets -> lists."""
    if isinstance(o, dict):
        return {(repr(k) if isinstance(k, tuple) else k): to_jsonable(v)
                for k, v in o.items()}
    if isinstance(o, (list, tuple, set, frozenset)):
        return [to_jsonable(v) for v in o]
    return o


def from_jsonable(o):
    """Inverse for dict keys written by to_jsonable."""
    import ast
    if isinstance(o, dict):
        return {(ast.literal_eval(k) if isinstance(k, str) and
                 k.startswith("(") and k.endswith(")") else k):
                from_jsonable(v) for k, v in o.items()}
    if isinstance(o, list):
        return [from_jsonable(v) for v in o]
    return o


CURRENT = None      # the Report of the running check (see ./check)


class Report:
    """Collects violations, known findings and coverage; writes evidence."""

    def __init__(self, pid, tier, level="model_checking"):
        global CURRENT
        CURRENT = self
        self.pid, self.tier, self.level = pid, tier, level
        self.t0 = time.time()
        self.violations = []      # (key, text, replay)
        self.known_hit = []       # finding entries that matched
        self.cov = {"states": 0, "transitions": 0,
                    "traces_validated_against_impl": 0, "samples": [],
                    "tlc_runs": [], "canaries_tried": 0,
                    "canaries_rejected": 0, "exhaustive": False}
        self.assumptions = []
        kf = load_known_findings()
        self.findings = [f for f in kf.get("findings", [])
                         if f.get("property") == pid]

    # ---- coverage
    def add_tlc(self, name, res, kind="exhaustive"):
        self.cov["states"] += int(res.distinct or 0)
        self.cov["transitions"] += int(res.generated or 0)
        self.cov["tlc_runs"].append({
            "name": name, "kind": kind, "distinct_states": res.distinct,
            "states_generated": res.generated, "depth": res.depth,
            "wall_s": round(res.wall, 2)})

    def add_traces(self, n):
        self.cov["traces_validated_against_impl"] += int(n)

    def sample(self, obj):
        if len(self.cov["samples"]) < 6:
            self.cov["samples"].append(obj)

    def canary(self, rejected):
        self.cov["canaries_tried"] += 1
        self.cov["canaries_rejected"] += 1 if rejected else 0

    # ---- verdicts
    def violation(self, key, text, replay_obj=None):
        """Record a violation; `key` identifies it for known-finding match."""
        for f in self.findings:
            if re.search(f["match"], key):
                if f not in self.known_hit:
                    self.known_hit.append(f)
                return False
        path = "-"
        if replay_obj is not None:
            os.makedirs(REPLAYS, exist_ok=True)
            n = len(self.violations)
            path = os.path.join(REPLAYS, f"{self.pid}-{seed()}-{n}.json")
            with open(path, "w") as f:
                json.dump({"property": self.pid, "key": key, "text": text,
                           "seed": seed(), "case": to_jsonable(replay_obj)},
                          f, indent=1, default=str)
        self.violations.append((key, text, path))
        return True

    def finish(self):
        wall = time.time() - self.t0
        for f in self.known_hit:
            print(f"KNOWN-FINDING: property={self.pid} {f['what']}")
        for key, text, path in self.violations:
            print(f"VIOLATION property={self.pid} replay={path}")
            print(f"  {key}: {text}")
        if self.cov["states"] < 1 or self.cov["transitions"] < 1:
            raise MachineryError("no TLC states recorded")
        if not self.cov["samples"]:
            raise MachineryError("no samples recorded")
        ev = {
            "property_id": self.pid, "tier": self.tier, "seed": seed(),
            "level": self.level, "coverage": self.cov,
            "assumptions": self.assumptions, "wall_s": round(wall, 2),
            "violations": len(self.violations),
            "known_findings_hit": [f["what"] for f in self.known_hit],
        }
        os.makedirs(EVID, exist_ok=True)
        with open(os.path.join(EVID, f"{self.pid}.json"), "w") as f:
            json.dump(ev, f, indent=1, default=str)
        print(f"[{self.pid}] tier={self.tier} states={self.cov['states']} "
              f"transitions={self.cov['transitions']} "
              f"traces={self.cov['traces_validated_against_impl']} "
              f"canaries={self.cov['canaries_rejected']}/"
              f"{self.cov['canaries_tried']} violations="
              f"{len(self.violations)} wall={wall:.1f}s")
        return 1 if self.violations else 0


def crash_in_code_under_test(tb):
    """An unexpected exception ended the check.  If the innermost frame that
    belongs to either the harness or emg3d (library frames below it are
    skipped) is an emg3d frame, the implementation raised on an input the
    harness considers valid; returns "<file>:<line> <exception line>" then,
    else None (the harness itself failed).  Tracebacks of pool workers arrive
    as text (RemoteTraceback) and are part of `tb`."""
    import emg3d
    edir = os.path.dirname(os.path.abspath(emg3d.__file__)) + os.sep
    # the remote traceback (if any) is the innermost one
    m = re.search(r'"""\n(Traceback.*?)"""', tb, re.S)
    text = m.group(1) if m else tb
    frames = re.findall(r'File "([^"]+)", line (\d+), in [^\n]*\n\s*([^\n]*)',
                        text)
    mine = [(f, ln, code) for f, ln, code in frames
            if f.startswith(edir) or f.startswith(VERIF + os.sep)]
    if not mine or not mine[-1][0].startswith(edir):
        return None
    if mine[-1][2].lstrip().startswith("raise"):
        # emg3d deliberately rejected the input: the harness fed something
        # the implementation documents as invalid - that is a harness fault
        return None
    exc = [ln for ln in text.strip().splitlines() if ln and ln[0] != " "]
    return f"{os.path.relpath(mine[-1][0], edir)}:{mine[-1][1]} " \
           f"{exc[-1][:200] if exc else ''}"


def report_crash(pid, tier, crash, tb):
    key = f"{pid}:crash:{crash}"
    for f in load_known_findings().get("findings", []):
        if f["property"] == pid and re.search(f["match"], key):
            print(f"KNOWN-FINDING: property={pid} {f['what']}")
            return 2          # nothing else was checked: not a pass
    os.makedirs(REPLAYS, exist_ok=True)
    path = os.path.join(REPLAYS, f"{pid}-{seed()}-crash.json")
    with open(path, "w") as f:
        json.dump({"property": pid, "key": key, "seed": seed(),
                   "text": "emg3d raised an unexpected exception on an input "
                           "of the check", "traceback": tb}, f, indent=1)
    ev = {"property_id": pid, "tier": tier, "seed": seed(), "level": "other",
          "coverage": {"evaluations": 1, "distinct_nontrivial": 1,
                       "rule": "the run ended at the first input on which "
                               "the implementation raised",
                       "samples": [key], "explanation": tb[-1500:]},
          "assumptions": [], "wall_s": 0.0, "violations": 1}
    os.makedirs(EVID, exist_ok=True)
    with open(os.path.join(EVID, f"{pid}.json"), "w") as f:
        json.dump(ev, f, indent=1)
    print(f"VIOLATION property={pid} replay={path}")
    print(f"  {key}: emg3d raised an unexpected exception on an input the "
          f"check considers valid")
    return 1


def expect_tlc_ok(rep, name, res, key_prefix, kind="exhaustive"):
    """Exhaustive/simulation run of a base spec: a violated invariant is a
    violation of the property in the model."""
    tlc_must_run(res, name)
    rep.add_tlc(name, res, kind)
    if not res.ok:
        tail = "\n".join(res.out.splitlines()[-60:])
        rep.violation(f"{key_prefix}:spec:{res.violated}",
                      f"TLC reports {res.violated} violated in {name}",
                      {"tlc_cmd": res.cmd, "tlc_tail": tail})
        return False
    return True


def check_coverage(res, required, what):
    """Anti-vacuity: every action in `required` was taken at least once."""
    cov = parse_coverage(res.out)
    missing = [a for a in required if cov.get(a, (0, 0))[1] == 0]
    if missing:
        raise MachineryError(f"{what}: actions never taken: {missing}")
    return cov


# --------------------------------------------------------------------------
# Generic batch validation with invariant-violation peeling and diagnosis
# --------------------------------------------------------------------------
def _tid_of_counterexample(out):
    m = re.findall(r"/\\ tid = (\d+)", out)
    return int(m[-1]) if m else None


def validate_batch(rep, module, cfg, tlc_traces, label, chunk=2500,
                   count=True, timeout=3000, dfs=False, cfg_text=None):
    """Validate `tlc_traces` (JSON-able, what TLC reads).  Returns a list of
    (index, reason) for traces that are not accepted: reason is
    'invariant <name>' (TLC found an invariant of the spec violated in a
    state of that recorded execution) or 'rejected' (not a behaviour)."""
    bad = []
    idx = list(range(len(tlc_traces)))
    for c0 in range(0, len(idx), chunk):
        cur = idx[c0:c0+chunk]
        for _ in range(40):
            if not cur:
                break
            wd = scratch("trace-")
            if cfg_text is not None:      # configuration with literal
                shutil.copytree(SPEC, os.path.join(wd, "spec"))   # constants
                with open(os.path.join(wd, "spec", cfg), "w") as f:
                    f.write(cfg_text)
            path = os.path.join(wd, "traces.json")
            with open(path, "w") as f:
                json.dump([tlc_traces[i] for i in cur], f,
                          separators=(",", ":"))
            res = run_tlc(module, cfg, workdir=wd, workers=1, timeout=timeout,
                          env={"TRACE_FILE": path}, deadlock=False, dfs=dfs)
            tlc_must_run(res, f"trace validation {label}")
            if count:
                rep.add_tlc(f"{module}[{label}] {len(cur)} traces", res,
                            "trace")
            shutil.rmtree(wd, ignore_errors=True)
            if res.violated:
                tid = _tid_of_counterexample(res.out)
                if tid is None:
                    raise MachineryError(
                        "cannot find tid in TLC counterexample:\n" +
                        res.out[-3000:])
                bad.append((cur[tid-1], f"invariant {res.violated}"))
                cur = cur[:tid-1] + cur[tid:]
                continue
            rej = None
            inv = {}
            for tag, raw in res.prints:
                if tag == "rejected":
                    rej = tla_set_ints(raw)
                if tag == "invfail":
                    for m in re.finditer(r'<<(\d+), "(\w+)">>', raw):
                        inv.setdefault(int(m.group(1)), []).append(m.group(2))
            if rej is None:
                raise MachineryError("no rejected set printed:\n" +
                                     res.out[-3000:])
            for t in sorted(inv):
                bad.append((cur[t-1],
                            "invariant " + ",".join(sorted(inv[t]))))
            bad += [(cur[t-1], "rejected") for t in rej if t not in inv]
            break
        else:
            raise MachineryError("too many invariant violations in traces")
    return bad


def diagnose_one(module, cfg, tlc_trace, n_events):
    wd = scratch("diag-")
    path = os.path.join(wd, "traces.json")
    with open(path, "w") as f:
        json.dump([tlc_trace], f)
    res = run_tlc(module, cfg, workdir=wd, workers=1, timeout=600,
                  env={"TRACE_FILE": path, "TRACE_DIAG": "1"}, deadlock=False)
    info = dict(res.prints)
    try:
        ml = int(info.get("maxl", "0"))
    except ValueError:
        ml = 0
    return {"matched_events": max(ml-1, 0), "of": n_events,
            "spec_state_there": info.get("laststate"),
            "violated": res.violated}
