"""TLC state-graph dump -> Python: TLA+ value parser, graph loader, paths.

Used for replay (spec -> code): TLC enumerates the behaviours, the harness
walks them through the real objects.
"""
import os
import random
import re
from collections import deque

from . import common as C


# --------------------------------------------------------------------------
# TLA+ value parser (what TLC prints): ints, strings, booleans, <<tuples>>,
# {sets}, [records], (functions d :> v @@ ...).
# --------------------------------------------------------------------------
class _P:
    def __init__(self, s):
        self.s, self.i = s, 0

    def ws(self):
        while self.i < len(self.s) and self.s[self.i] in " \n\t\r":
            self.i += 1

    def eat(self, tok):
        self.ws()
        if self.s.startswith(tok, self.i):
            self.i += len(tok)
            return True
        return False

    def need(self, tok):
        if not self.eat(tok):
            raise ValueError(f"expected {tok!r} at {self.i}: "
                             f"{self.s[self.i:self.i+40]!r}")

    def value(self):
        self.ws()
        s = self.s
        if self.eat("<<"):
            out = []
            if self.eat(">>"):
                return tuple(out)
            while True:
                out.append(self.value())
                if self.eat(">>"):
                    return tuple(out)
                self.need(",")
        if self.eat("{"):
            out = []
            if self.eat("}"):
                return frozenset(out)
            while True:
                out.append(self.value())
                if self.eat("}"):
                    return frozenset(out)
                self.need(",")
        if self.eat("["):
            out = {}
            if self.eat("]"):
                return out
            while True:
                self.ws()
                m = re.compile(r"[A-Za-z_][A-Za-z0-9_]*").match(s, self.i)
                key = m.group(0)
                self.i = m.end()
                self.need("|->")
                out[key] = self.value()
                if self.eat("]"):
                    return out
                self.need(",")
        if self.eat("("):
            out = {}
            while True:
                k = self.value()
                self.need(":>")
                out[k] = self.value()
                if self.eat(")"):
                    return out
                self.need("@@")
        if s.startswith('"', self.i):
            j = self.i + 1
            buf = []
            while s[j] != '"':
                if s[j] == "\\":
                    j += 1
                buf.append(s[j])
                j += 1
            self.i = j + 1
            return "".join(buf)
        m = re.compile(r"-?\d+").match(s, self.i)
        if m:
            self.i = m.end()
            return int(m.group(0))
        if self.eat("TRUE"):
            return True
        if self.eat("FALSE"):
            return False
        m = re.compile(r"[A-Za-z_][A-Za-z0-9_]*").match(s, self.i)
        if m:       # model value
            self.i = m.end()
            return m.group(0)
        raise ValueError(f"cannot parse at {self.i}: {s[self.i:self.i+40]!r}")


def parse_value(s):
    p = _P(s)
    v = p.value()
    p.ws()
    if p.i != len(s):
        raise ValueError(f"trailing text: {s[p.i:p.i+40]!r}")
    return v


def parse_state(label):
    """'/\\ a = ...\n/\\ b = ...' -> dict."""
    out = {}
    parts = re.split(r"(?:^|\n)/\\ ", label)
    for part in parts:
        if not part.strip():
            continue
        name, _, val = part.partition(" = ")
        out[name.strip()] = parse_value(val.strip())
    return out


def _unescape(s):
    return s.replace("\\n", "\n").replace('\\"', '"').replace("\\\\", "\\")


class Graph:
    def __init__(self):
        self.state = {}      # id -> dict
        self.out = {}        # id -> [(label, dst)]
        self.init = []
        self.nedges = 0

    def path_to_edges(self, limit=None, rng=None):
        """Shortest path (list of edge triples) ending with each edge: a
        transition cover.  Yields lists [(src, label, dst), ...]."""
        # BFS tree from init states
        parent = {}
        dq = deque()
        for i in self.init:
            parent[i] = None
            dq.append(i)
        while dq:
            u = dq.popleft()
            for lab, v in self.out.get(u, []):
                if v not in parent:
                    parent[v] = (u, lab)
                    dq.append(v)

        def path_to(u):
            p = []
            while parent[u] is not None:
                pu, lab = parent[u]
                p.append((pu, lab, u))
                u = pu
            return p[::-1]
        edges = [(u, lab, v) for u in self.out for lab, v in self.out[u]
                 if u in parent]
        if rng is not None:
            rng.shuffle(edges)
        if limit is not None:
            edges = edges[:limit]
        for u, lab, v in edges:
            yield path_to(u) + [(u, lab, v)]

    def random_walk(self, rng, maxlen):
        u = rng.choice(self.init)
        p = []
        for _ in range(maxlen):
            outs = self.out.get(u, [])
            if not outs:
                break
            lab, v = rng.choice(outs)
            p.append((u, lab, v))
            u = v
        return p


def load_dot(path):
    g = Graph()
    node_re = re.compile(r'^(-?\d+) \[label="((?:[^"\\]|\\.)*)"(.*)$')
    edge_re = re.compile(r'^(-?\d+) -> (-?\d+) \[label="((?:[^"\\]|\\.)*)"')
    seen_edges = set()
    with open(path) as f:
        for line in f:
            m = edge_re.match(line)
            if m:
                u, v, lab = int(m.group(1)), int(m.group(2)), m.group(3)
                if (u, v, lab) not in seen_edges:
                    seen_edges.add((u, v, lab))
                    g.out.setdefault(u, []).append((lab, v))
                    g.nedges += 1
                continue
            m = node_re.match(line)
            if m:
                i = int(m.group(1))
                if i not in g.state:
                    g.state[i] = parse_state(_unescape(m.group(2)))
                if "style = filled" in m.group(3) and i not in g.init:
                    g.init.append(i)
    return g


def dump_graph(module, cfg, timeout=1800):
    """Run TLC with -dump dot,actionlabels on spec/<module> with spec/<cfg>
    stripped of INVARIANT/PROPERTY lines; return (Graph, TLCResult)."""
    wd = C.scratch("graph-")
    import shutil
    specdir = os.path.join(wd, "spec")
    shutil.copytree(C.SPEC, specdir)
    with open(os.path.join(specdir, cfg)) as f:
        lines = [ln for ln in f if not ln.startswith(("INVARIANT", "PROPERTY"))]
    gcfg = "graph_" + cfg
    with open(os.path.join(specdir, gcfg), "w") as f:
        f.writelines(lines)
    dot = os.path.join(wd, "graph.dot")
    res = C.run_tlc(module, gcfg, workdir=wd, workers=4, timeout=timeout,
                    extra=["-dump", "dot,actionlabels", dot])
    C.tlc_must_run(res, f"graph dump {module}/{cfg}")
    g = load_dot(dot)
    os.remove(dot)
    if not g.init or not g.state:
        raise C.MachineryError("empty state graph")
    return g, res


def simulate(module, cfg, num, depth, seed, timeout=1800):
    """TLC -simulate: returns a list of behaviours; each behaviour is a list
    of (action_label, state_dict), the first being the initial state."""
    wd = C.scratch("sim-")
    out = os.path.join(wd, "tr")
    os.makedirs(out)
    res = C.run_tlc(module, cfg, workdir=wd, workers=1, timeout=timeout,
                    simulate=f"file={out}/t,num={num}", depth=depth,
                    extra=["-seed", str(seed)])
    if res.timed_out or "Error:" in res.out:
        raise C.MachineryError("TLC simulate failed:\n" + res.out[-2000:])
    behs = []
    for fn in sorted(os.listdir(out)):
        with open(os.path.join(out, fn)) as f:
            txt = f.read()
        beh = []
        for m in re.finditer(r"\\\* <(\w+)(\([^)]*\))? line[^\n]*>\nSTATE_\d+ == \n"
                             r"(.*?)(?=\n\n\n|\n====|\Z)", txt, re.S):
            label = m.group(1) + (m.group(2) or "")
            beh.append((label, parse_state(m.group(3))))
        if beh:
            behs.append(beh)
    import shutil
    shutil.rmtree(out, ignore_errors=True)
    return behs, res


def reachable(g, init):
    seen, dq = {init}, deque([init])
    while dq:
        x = dq.popleft()
        for _, v in g.out.get(x, []):
            if v not in seen:
                seen.add(v)
                dq.append(v)
    return seen


def greedy_edge_cover(g, rng, maxlen, budget=None, init=None):
    """Walks from an initial state, each at most `maxlen` edges, that together
    cover every reachable edge (or `budget` walks).  Each walk first goes by a
    shortest path to the nearest state with an uncovered out-edge, then keeps
    following uncovered edges."""
    if init is None:
        init = g.init[0]
        uncovered = {(u, lab, v) for u in g.out for lab, v in g.out[u]}
    else:
        rs = reachable(g, init)
        uncovered = {(u, lab, v) for u in rs for lab, v in g.out.get(u, [])}
    walks = []

    def nearest(u, left):
        # BFS up to `left` steps for a state with an uncovered out-edge
        seen = {u: None}
        dq = deque([(u, 0)])
        while dq:
            x, d = dq.popleft()
            if any((x, lab, v) in uncovered for lab, v in g.out.get(x, [])):
                path = []
                while seen[x] is not None:
                    px, lab = seen[x]
                    path.append((px, lab, x))
                    x = px
                return path[::-1]
            if d >= left - 1:
                continue
            for lab, v in g.out.get(x, []):
                if v not in seen:
                    seen[v] = (x, lab)
                    dq.append((v, d + 1))
        return None

    while uncovered and (budget is None or len(walks) < budget):
        before = len(uncovered)
        u, walk = init, []
        while len(walk) < maxlen:
            outs = [(lab, v) for lab, v in g.out.get(u, [])
                    if (u, lab, v) in uncovered]
            if outs:
                lab, v = rng.choice(outs)
                uncovered.discard((u, lab, v))
                walk.append((u, lab, v))
                u = v
                continue
            p = nearest(u, maxlen - len(walk))
            if not p:
                break
            walk += p
            u = p[-1][2]
        if len(uncovered) == before:
            break       # remaining edges are deeper than maxlen
        walks.append(walk)
    return walks, len(uncovered)
