#!/bin/bash
# development tool: thorough tier of the checks added in build round 2
cd "$(dirname "$0")/.."
for id in C07 C08 C14 C19 C06; do
  t0=$(date +%s)
  ./check $id --tier thorough > /tmp/thorough-$id.log 2>&1
  echo "$id exit=$? $(( $(date +%s) - t0 ))s $(tail -1 /tmp/thorough-$id.log | cut -c1-200)"
done
