"""C17 - save / load / convert round-trip every emg3d object in every format.

1. TLC checks RoundTrip and ContentPreserved on IOFormats.tla for every tree
   of depth <= 2 over all leaf kinds and every chain of up to three
   save / convert steps through the three formats (1.9 M states).
2. Random trees (depth <= 4, arbitrary identifier keys) whose leaves are
   numbers, strings, booleans, None, real / complex / integer arrays and
   instances of every registered class in several variants (all mappings,
   anisotropy cases, coordinate formats, complex strengths, NaN data, array
   noise, Laplace / frequency / frequency-free fields, simulations with and
   without results) are pushed through the REAL emg3d.save / load / convert.
   After every load the abstract type tree of what came back and the value
   equality are logged; TLC validates the chain against IOFormats.tla.
"""
import copy
import json
import multiprocessing as mp
import os
import random
import shutil
import tempfile
import warnings

from . import common as C

FMTS = ["h5", "npz", "json"]
VARIANTS = {"TensorMesh": 2, "Model": 3, "Field": 3, "TxElectricPoint": 1,
            "TxMagneticPoint": 1, "TxElectricDipole": 3, "TxMagneticDipole": 2,
            "TxElectricWire": 1, "RxElectricPoint": 2, "RxMagneticPoint": 2,
            "Survey": 3, "Simulation": 6}
SCALARS = ["none", "bool", "int", "float", "complex", "str"]
ARRAYS = ["arr_f", "arr_c", "arr_i"]
_SIM = {}


def make_obj(cls, var, rng):
    import numpy as np
    import emg3d
    r = np.random.default_rng(rng.randrange(10**9))
    if cls == "TensorMesh":
        if var == 1:
            return emg3d.TensorMesh([np.ones(4)*r.uniform(1, 9)]*3, (0, 0, 0))
        return emg3d.TensorMesh([r.uniform(1, 5, 3), r.uniform(1, 5, 5),
                                 r.uniform(1, 5, 2)], r.uniform(-9, 9, 3))
    grid = emg3d.TensorMesh([r.uniform(1, 5, 3), r.uniform(1, 5, 4),
                             r.uniform(1, 5, 2)], (0., -1., 2.))
    if cls == "Model":
        mp_ = rng.choice(["Conductivity", "Resistivity", "LgConductivity",
                          "LgResistivity", "LnConductivity", "LnResistivity"])
        pos = not mp_.startswith("L")
        def v():
            a = r.uniform(0.5, 3, grid.shape_cells)
            return a if pos else a - 1.0
        if var == 1:
            return emg3d.Model(grid, property_x=v(), mapping=mp_)
        if var == 2:
            return emg3d.Model(grid, property_x=v(), property_y=v(),
                               property_z=v(), mapping=mp_,
                               mu_r=r.uniform(1, 2, grid.shape_cells),
                               epsilon_r=r.uniform(1, 9, grid.shape_cells))
        kw = rng.choice([dict(property_z=v()), dict(property_y=v())])
        return emg3d.Model(grid, property_x=v(), mapping=mp_,
                           mu_r=rng.choice([None, 1.5]), **kw)
    if cls == "Field":
        if var == 1:
            f = emg3d.Field(grid, frequency=r.uniform(0.1, 9))
            f.field[:] = r.standard_normal(f.field.size) + 1j*r.standard_normal(f.field.size)
            return f
        if var == 2:
            f = emg3d.Field(grid, frequency=-r.uniform(0.1, 9))
            f.field[:] = r.standard_normal(f.field.size)
            return f
        f = emg3d.Field(grid, dtype=rng.choice([float, complex]),
                        electric=rng.choice([True, False]))
        f.field[:] = r.standard_normal(f.field.size)
        return f
    st = rng.choice([1.0, 2.5, complex(r.uniform(-2, 2), r.uniform(-2, 2))])
    p5 = tuple(float(x) for x in np.r_[r.uniform(-50, 50, 3),
                                       r.uniform(-180, 180), r.uniform(-90, 90)])
    if cls == "TxElectricPoint":
        return emg3d.TxElectricPoint(p5, strength=st)
    if cls == "TxMagneticPoint":
        return emg3d.TxMagneticPoint(p5, strength=st)
    flat = tuple(float(x) for x in r.uniform(-50, 50, 6))
    two = [[float(x) for x in r.uniform(-50, 50, 3)],
           [float(x) for x in r.uniform(-50, 50, 3)]]
    if cls == "TxElectricDipole":
        if var == 1:
            return emg3d.TxElectricDipole(p5, strength=st,
                                          length=float(r.uniform(1, 99)))
        return emg3d.TxElectricDipole(flat if var == 2 else two, strength=st)
    if cls == "TxMagneticDipole":
        if var == 1:
            return emg3d.TxMagneticDipole(flat, strength=st)
        return emg3d.TxMagneticDipole(p5, strength=st,
                                      length=float(r.uniform(1, 9)))
    if cls == "TxElectricWire":
        return emg3d.TxElectricWire(r.uniform(-50, 50, (rng.randrange(3, 7), 3)),
                                    strength=st)
    if cls == "RxElectricPoint":
        return emg3d.RxElectricPoint(p5, relative=(var == 2))
    if cls == "RxMagneticPoint":
        return emg3d.RxMagneticPoint(p5, relative=(var == 2))
    if cls == "Survey":
        return make_survey(var, rng, r)
    if cls == "Simulation":
        return make_sim(var, rng)
    raise ValueError(cls)


def make_survey(var, rng, r):
    import numpy as np
    import emg3d
    src = [emg3d.TxElectricDipole((0, 0, 0, 0, 0)),
           emg3d.TxMagneticDipole((-20, 10, 5, 30, 10), strength=2+1j),
           emg3d.TxElectricWire([[0, 0, 0], [10, 5, 0], [20, 0, 5]])]
    rec = [emg3d.RxElectricPoint((100, 0, 0, 0, 0)),
           emg3d.RxMagneticPoint((50, 20, 0, 45, 10), relative=True)]
    fr = [0.5, 1.0]
    if var == 3:
        return emg3d.Survey(src[:1], rec[:1], 1.0, name="s3",
                            info="single datum")
    d = r.standard_normal((3, 2, 2)) + 1j*r.standard_normal((3, 2, 2))
    if var == 1:
        return emg3d.Survey(src, rec, fr, data=d, noise_floor=1e-3,
                            relative_error=0.05, date="2026-09-23")
    d[1, 0, 1] = np.nan
    s = emg3d.Survey(src, rec, fr, data={"observed": d, "extra": 2*d},
                     noise_floor=r.uniform(1, 2, (3, 1, 1)),
                     relative_error=r.uniform(0.01, 0.1, (1, 2, 2)))
    if rng.random() < 0.5:
        s.standard_deviation = r.uniform(1, 2, (3, 2, 2))
    return s


def make_sim(var, rng):
    import numpy as np
    import emg3d
    if var in _SIM:
        return _SIM[var]
    hx = np.array([2, 1, 1, 1, 1, 2.])*100
    grid = emg3d.TensorMesh([hx, hx, hx], (-400, -400, -400))
    survey = emg3d.Survey([emg3d.TxElectricDipole((-50, 0, 0, 0, 0))],
                          [emg3d.RxElectricPoint((100, 50, 0, 0, 0)),
                           emg3d.RxMagneticPoint((-100, 50, 20, 45, 0))],
                          [1.0, 2.0], noise_floor=1e-16, relative_error=0.05)
    model = emg3d.Model(grid, np.linspace(0.5, 2, grid.n_cells).reshape(
        grid.shape_cells, order='F'), mapping='Conductivity')
    # 4: provided grid ('input'), computed; 5: provided grids ('dict'),
    # plain; 6: automatic gridding ('frequency'), grids built
    def cg(n):
        h = np.ones(n)*800./n
        return emg3d.TensorMesh([h, np.ones(8)*100., np.ones(8)*100.],
                                (-400, -400, -400))
    gkw = {1: dict(gridding='same'), 2: dict(gridding='same'),
           3: dict(gridding='same'),
           4: dict(gridding='input', gridding_opts=cg(16)),
           5: dict(gridding='dict', gridding_opts={
               'TxED-1': {'f-1': cg(8), 'f-2': cg(16)}}),
           6: dict(gridding='frequency', gridding_opts={
               'domain': ([-300, 300], [-300, 300], [-300, 100]),
               'min_width_limits': ([100, 200], [100, 200], [100, 200]),
               'stretching': [1.0, 2.0], 'center_on_edge': False,
               'max_buffer': 2000, 'cell_numbers': [8, 12, 16, 24, 32]}),
           }[var]
    sim = emg3d.Simulation(survey, model, max_workers=1, **gkw,
                           receiver_interpolation='linear', name="c17",
                           solver_opts={'plain': True, 'tol': 1e-4,
                                        'tol_gradient': 1e-3, 'maxit': 20},
                           tqdm_opts={'disable': True})
    if var == 6:
        for f in ('f-1', 'f-2'):
            sim.get_grid('TxED-1', f)
    if var == 4:
        sim.compute()
    if var in (2, 3):
        sim.compute(observed=True, add_noise=False)
        sim.model = emg3d.Model(grid, 1.0, mapping='Conductivity')
        sim.clean('computed')
        sim.compute()
    if var == 3:
        _ = sim.gradient
    _SIM[var] = sim
    return sim


def make_leaf(kind, rng):
    import numpy as np
    r = np.random.default_rng(rng.randrange(10**9))
    if kind == "none":
        return None
    if kind == "bool":
        return rng.random() < 0.5
    if kind == "int":
        return rng.choice([0, -7, 3, 2**40 + 1, rng.randrange(-99, 99)])
    if kind == "float":
        return rng.choice([0.0, -1.5, 1e-300, 1e300, float(r.standard_normal())])
    if kind == "complex":
        return complex(r.standard_normal(), r.standard_normal())
    if kind == "str":
        return rng.choice(["hello", "", "a b c", "x_y-z.1", "Grüße", "None"])
    shape = tuple(rng.randrange(1, 4) for _ in range(rng.randrange(1, 4)))
    if rng.random() < 0.1:
        shape = (0,)
    if kind == "arr_f":
        a = r.standard_normal(shape)
        if a.size and rng.random() < 0.2:
            a.flat[0] = rng.choice([np.nan, np.inf, -np.inf])
        return a
    if kind == "arr_c":
        a = r.standard_normal(shape) + 1j*r.standard_normal(shape)
        if a.size and rng.random() < 0.2:
            a.flat[-1] = np.nan + 1j*np.nan
        return a
    if kind == "arr_i":
        return r.integers(-1000, 1000, shape)
    cls, var = kind.split("#")
    return make_obj(cls, int(var), rng)


def gen_tree(rng, depth, kinds):
    """Returns (abstract tree, concrete value)."""
    if depth == 0 or rng.random() < 0.45:
        k = rng.choice(kinds)
        return {"leaf": k}, make_leaf(k, rng)
    n = rng.randrange(1, 4)
    keys = rng.sample(["a", "b", "c1", "data", "x_y", "K", "n0", "info2",
                       "Z9", "list"], n)
    abst, conc = {}, {}
    for k in keys:
        abst[k], conc[k] = gen_tree(rng, depth-1, kinds)
    return abst, conc


def abstract(v, exp):
    """Type tree of a loaded value (exp: expected abstract tree, only used to
    name the variant of an object whose class matches)."""
    import numpy as np
    if isinstance(v, dict):
        return {str(k): abstract(x, exp.get(k, {}) if isinstance(exp, dict)
                                 and "leaf" not in exp else {})
                for k, x in v.items()}
    if v is None:
        k = "none"
    elif isinstance(v, (bool, np.bool_)):
        k = "bool" if isinstance(v, bool) else "npbool"
    elif isinstance(v, np.integer):
        k = "npint"
    elif isinstance(v, np.floating):      # np.float64 is also a float
        k = "npfloat"
    elif isinstance(v, np.complexfloating):
        k = "npcomplex"
    elif isinstance(v, int):
        k = "int"
    elif isinstance(v, float):
        k = "float"
    elif isinstance(v, complex):
        k = "complex"
    elif isinstance(v, str):
        k = "str"
    elif isinstance(v, np.ndarray):
        base = {"f": "f", "c": "c", "i": "i", "u": "i"}.get(v.dtype.kind)
        if base is None:
            k = f"unknown_array_{v.dtype}"
        else:
            k = ("arr0_" if v.ndim == 0 else "arr_") + base
    else:
        name = type(v).__name__
        want = exp.get("leaf", "") if isinstance(exp, dict) else ""
        k = want if want.startswith(name + "#") else f"obj_{name}"
    return {"leaf": k}


def deep_equal(a, b, ordered=False):
    import numpy as np
    if isinstance(a, dict) or isinstance(b, dict):
        if not (isinstance(a, dict) and isinstance(b, dict)):
            return False
        if set(map(str, a)) != set(map(str, b)):
            return False
        # inside an object the order of keys carries meaning (sources,
        # receivers and frequencies label the axes of the data arrays)
        if ordered and list(map(str, a)) != list(map(str, b)):
            return False
        bb = {str(k): v for k, v in b.items()}
        return all(deep_equal(v, bb[str(k)], ordered) for k, v in a.items())
    if hasattr(a, "to_dict") or hasattr(b, "to_dict"):
        if type(a).__name__ != type(b).__name__:
            return False
        if type(a).__name__ == "Simulation":
            # settings as the object itself knows them (to_dict() of both
            # sides could agree on a wrong value)
            for att in ("tol_forward", "tol_gradient", "max_workers",
                        "gridding", "receiver_interpolation", "name",
                        "layered"):
                if getattr(a, att, None) != getattr(b, att, None):
                    return False
        return deep_equal(a.to_dict(), b.to_dict(), True)
    if a is None or b is None:
        return a is None and b is None
    if isinstance(a, str) or isinstance(b, str):
        return isinstance(a, str) and isinstance(b, str) and a == b
    if isinstance(a, (list, tuple)) and isinstance(b, (list, tuple)) and \
            any(isinstance(x, (str, dict, list)) for x in a):
        return len(a) == len(b) and all(deep_equal(x, y, ordered)
                                        for x, y in zip(a, b))
    try:
        x, y = np.asarray(a), np.asarray(b)
    except Exception:  # noqa
        return False
    if x.dtype.kind in "OU" or y.dtype.kind in "OU":
        return x.dtype.kind == y.dtype.kind and x.shape == y.shape and \
            bool(np.all(x == y))
    kind = {"u": "i"}
    if kind.get(x.dtype.kind, x.dtype.kind) != kind.get(y.dtype.kind,
                                                         y.dtype.kind):
        return False
    if x.shape != y.shape:
        return False
    return bool(np.array_equal(x, y, equal_nan=(x.dtype.kind in "fc")))


def _drive(seed):
    import contextlib
    import io
    with contextlib.redirect_stdout(io.StringIO()):
        return _drive0(seed)


def _drive0(seed):
    import emg3d
    warnings.filterwarnings("ignore")
    rng = random.Random(seed)
    kinds = SCALARS + ARRAYS + [f"{c}#{v}" for c, n in VARIANTS.items()
                                for v in range(1, n+1)]
    if rng.random() < 0.5:     # emphasise the registered classes
        kinds = kinds[9:] + ["int", "none", "arr_c"]
    abst, conc = {}, {}
    for k in rng.sample(["a", "b", "grid", "m1", "f_1", "S", "x2"],
                        rng.randrange(1, 4)):
        abst[k], conc[k] = gen_tree(rng, rng.choice([0, 1, 2, 3]), kinds)
    tmp = tempfile.mkdtemp(prefix="c17-")
    ev = []
    err = None
    try:
        # simulations are also written through their own to_file(what=...)
        # first; what was written must come back, and the later generic save
        # must not be influenced by it
        def sims(a, cc, out):
            if isinstance(a, dict) and "leaf" in a and \
                    isinstance(a["leaf"], str):
                if a["leaf"].startswith("Simulation#"):
                    out.append(cc)
            elif isinstance(a, dict):
                for k in a:
                    sims(a[k], cc[k], out)
            return out
        for j, sim in enumerate(sims(abst, conc, [])[:2]):
            if rng.random() < 0.6:
                what = rng.choice(["computed", "results", "all", "plain"])
                fs = os.path.join(tmp, f"s{j}.{rng.choice(FMTS)}")
                sim.to_file(fs, what=what, verb=0)
                back = emg3d.Simulation.from_file(fs, verb=0)
                if not deep_equal(sim.to_dict(what), back.to_dict(what)):
                    raise AssertionError(
                        f"Simulation.to_file(what='{what}') / from_file does "
                        f"not return the same content")
        chain = [rng.choice(FMTS)]
        for _ in range(rng.choice([0, 0, 1, 1, 2])):
            chain.append(rng.choice([f for f in FMTS if f != chain[-1]]))
        fn = os.path.join(tmp, f"f0.{chain[0]}")
        emg3d.save(fn, verb=0, **conc)
        ev.append({"e": "save", "fmt": chain[0]})
        for i, f in enumerate(chain[1:], 1):
            fn2 = os.path.join(tmp, f"f{i}.{f}")
            emg3d.io.convert(fn, fn2, verb=0)
            ev.append({"e": "convert", "fmt": f})
            fn = fn2
        out = emg3d.load(fn, verb=0)
        for k in ("_date", "_version", "_format"):
            out.pop(k, None)
        ev.append({"e": "load", "obs": abstract(out, abst),
                   "valeq": bool(deep_equal(conc, out))})
    except Exception as e:  # noqa
        import traceback
        err = f"{type(e).__name__}: {e}"
        ev.append({"e": "error", "msg": err[:200]})
    finally:
        shutil.rmtree(tmp, ignore_errors=True)
    return {"orig": abst, "ev": ev, "err": err, "seed": seed}


def for_tlc(t):
    return {"orig": t["orig"], "ev": t["ev"]}


def leaves_of(t, out=None):
    out = [] if out is None else out
    if "leaf" in t and isinstance(t["leaf"], str):
        out.append(t["leaf"])
    else:
        for v in t.values():
            leaves_of(v, out)
    return out


def run(tier, replay=None):
    rep = C.Report("C17", tier)
    rng = random.Random(C.seed())
    rep.assumptions += [
        "alphabet of the property: numbers, strings, booleans, None, real / "
        "complex / integer arrays, registered classes, nested dictionaries "
        "with string keys.  Outside it and not generated (documented "
        "limitations of the formats): boolean arrays with more than one "
        "element, lists/tuples, empty dictionaries (npz), the string "
        "'NoneType', keys containing '>' or '__array' / '__complex'",
        "equality: same class and equal to_dict() content for objects, equal "
        "values and dtype kind for arrays and scalars (Python scalar = NumPy "
        "scalar = 0-d array of the same kind), NaN equal to NaN"]
    if replay:
        with open(replay) as f:
            seeds = [json.load(f)["case"]["seed"]]
    else:
        res = C.run_tlc("MC_IOFormats", "IOFormats.cfg", coverage=True,
                        timeout=1500)
        if C.expect_tlc_ok(rep, "IOFormats: all trees of depth <= 2, all "
                           "chains of <= 3 save/convert steps", res, "C17"):
            C.check_coverage(res, ["Save", "Load", "Convert"], "IOFormats")
        rep.cov["exhaustive"] = True
        n = 600 if tier == "quick" else 12000
        seeds = [rng.randrange(10**9) for _ in range(n)]
    with mp.get_context("fork").Pool(C.NCPU) as pool:
        traces = pool.map(_drive, seeds, chunksize=8)
    bad = C.validate_batch(rep, "TraceIOFormats", "TraceIOFormats.cfg",
                           [for_tlc(t) for t in traces], "impl", chunk=3000)
    badidx = dict(bad)
    rep.add_traces(len(traces) - len(badidx))
    for i, why in sorted(badidx.items()):
        t = traces[i]
        lv = sorted(set(leaves_of(t["orig"])))
        last = t["ev"][-1]
        chain = ">".join(e.get("fmt", e["e"]) for e in t["ev"])
        detail = t["err"] or ("values differ" if not last.get("valeq", True)
                              else "type tree differs from the specification")
        rep.violation(f"C17:trace:{why}:{chain}:{','.join(lv)[:160]}:"
                      f"seed={t['seed']}",
                      f"chain {chain} on leaves {lv}: {detail}",
                      {"seed": t["seed"], "orig": t["orig"], "ev": t["ev"]})
    rep.cov["distinct_leaf_kinds"] = len({k for t in traces
                                          for k in leaves_of(t["orig"])})
    rep.cov["chains"] = sorted({">".join(e.get("fmt", e["e"]) for e in t["ev"])
                                for t in traces})[:40]
    good = [t for i, t in enumerate(traces) if i not in badidx]
    if good:
        rep.sample(for_tlc(rng.choice([t for t in good
                                       if len(leaves_of(t["orig"])) > 2]
                                      or good)))
    if good and not replay:
        muts = []
        t = copy.deepcopy(for_tlc(good[0]))
        t["ev"][-1]["valeq"] = False
        muts.append(t)                       # values differ after load

        def first_leaf(tr):
            if "leaf" in tr and isinstance(tr["leaf"], str):
                return tr
            for v in tr.values():
                x = first_leaf(v)
                if x is not None:
                    return x
        t = copy.deepcopy(for_tlc(good[1]))
        first_leaf(t["ev"][-1]["obs"])["leaf"] = "unknown_thing"
        muts.append(t)                       # something else came back
        t = copy.deepcopy(for_tlc(good[2]))
        lf = first_leaf(t["ev"][-1]["obs"])
        lf["leaf"] = "str" if lf["leaf"] != "str" else "int"
        muts.append(t)                       # kind changed (e.g. number->str)
        cb = C.validate_batch(rep, "TraceIOFormats", "TraceIOFormats.cfg",
                              muts, "canaries", count=False)
        cbi = {b[0] for b in cb}
        for i in range(len(muts)):
            rep.canary(i in cbi)
        if len(cbi) != len(muts):
            raise C.MachineryError("canaries accepted: " + str(
                sorted(set(range(len(muts))) - cbi)))
    return rep.finish()
