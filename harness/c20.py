"""C20 - time-domain helper: partition / fill of the required frequencies.

1. TLC checks Partition, ComputeInBand, MutualExclusion, FilledCorrectly and
   TransformArgsCurrent on Fourier.tla for all setter histories over abstract
   frequency axes with 4..6 required frequencies, and must find the two named
   deviations (size comparison in interpolate(); signal setter not re-deriving
   the transform arguments).
2. Random setter / interpolate / freq2time histories are run on real
   emg3d.Fourier objects (dlf lagged / splined with several filters, fftlog);
   after every call the observed bookkeeping, expressed as positions relative
   to the object's own required frequencies, is logged and TLC validates the
   history against Fourier.tla (TraceFourier), all invariants on.
"""
import copy
import json
import multiprocessing as mp
import random
import warnings

from . import common as C


def _snap(F):
    """The values interpolate()/the properties compare, as arrays."""
    import numpy as np
    return {"req": np.asarray(F.freq_required, dtype=float).ravel().copy(),
            "fmin": float(F.fmin), "fmax": float(F.fmax),
            "inp": None if F.input_freq is None
            else np.asarray(F.input_freq, dtype=float).ravel().copy()}


def _axis(*snaps):
    """Sorted distinct values of everything that is ever compared."""
    import numpy as np
    vals = []
    for s in snaps:
        vals += [s["req"], np.array([s["fmin"], s["fmax"]])]
        if s["inp"] is not None:
            vals.append(s["inp"])
    return np.unique(np.concatenate(vals))


def _val(req, p):
    """A frequency at 'doubled' position p relative to the sorted array req
    (even: the required frequency itself; odd: strictly between / outside)."""
    import numpy as np
    if p % 2 == 0:
        return float(req[p//2-1])
    i = (p-1)//2
    if i == 0:
        return float(req[0]/2)
    if i >= len(req):
        return float(req[-1]*2)
    return float(np.sqrt(req[i-1]*req[i]))


def _pos(req, x):
    import numpy as np
    i = np.searchsorted(req, x)
    if i < len(req) and req[i] == x:
        return int(2*(i+1))
    return int(2*i+1)


def _rk(ax, x):
    import numpy as np
    x = np.atleast_1d(x)
    return [int(i) + 1 for i in np.searchsorted(ax, x)] if x.size else []


def _ranks(ax, s):
    return {"req": _rk(ax, s["req"]), "fmin": _rk(ax, s["fmin"])[0],
            "fmax": _rk(ax, s["fmax"])[0],
            "inp": [] if s["inp"] is None else _rk(ax, s["inp"])}


def _observe(F, pre=None):
    """State after a call (and before it, if given) as ranks on one axis."""
    post = _snap(F)
    ax = _axis(post) if pre is None else _axis(pre, post)
    req = F.freq_required
    o = _ranks(ax, post)
    o.update({"n": int(req.size),
              "everyx": 0 if F.every_x_freq is None else int(F.every_x_freq),
              "signal": int(F.signal),
              "compute": _rk(ax, F.freq_compute),
              "extrap": _rk(ax, F.freq_extrapolate),
              "interp": _rk(ax, F.freq_interpolate)})
    # "above": what interpolate() leaves untouched (neither of the two masks)
    rest = ~(F.ifreq_extrapolate | F.ifreq_interpolate)
    o["above"] = _rk(ax, req[rest])
    if pre is not None:
        o["pre"] = _ranks(ax, pre)
    return o


def spectrum(f):
    import numpy as np
    return 1.0/(1.0 + 2j*np.pi*f*0.37) + 0.25/(1.0 + 2j*np.pi*f*0.011)


def _drive(job):
    import numpy as np
    import scipy.interpolate as si
    import empymod
    import emg3d
    warnings.filterwarnings("ignore")
    seed = job
    rng = random.Random(seed)
    times = [np.logspace(-2, 1, 11), np.array([0.5, 1.0, 2.0]),
             np.linspace(0.1, 5, 7), np.logspace(-1, 0.5, 5)]
    fts = [("dlf", {}), ("dlf", {"pts_per_dec": 5}),
           ("dlf", {"dlf": "key_81_2009"}), ("fftlog", {}),
           ("dlf", {"dlf": "key_101_2012", "pts_per_dec": 8}),
           ("fftlog", {"pts_per_dec": 6})]

    def band(req):
        n = len(req)
        lo = rng.randrange(max(2, n//4), n//2)
        hi = rng.randrange(n//2 + 8, min(n, n//2 + 60))
        return (_val(req, 2*lo + rng.choice([0, 1])),
                _val(req, 2*hi + rng.choice([0, 1])))
    ft, ftarg = rng.choice(fts)
    t = rng.choice(times)
    probe = emg3d.Fourier(t, 0.01, 10., ft=ft, ftarg=dict(ftarg), verb=0)
    fmin, fmax = band(probe.freq_required)
    sig = rng.choice([-1, 0, 1])
    F = emg3d.Fourier(t, fmin, fmax, signal=sig, ft=ft, ftarg=dict(ftarg),
                      verb=0)
    init = _observe(F)
    ev = []
    err = None
    nops = rng.randrange(3, 8)
    try:
        for k in range(nops + 2):
            req = F.freq_required
            if k >= nops:
                op = ["interpolate", "freq2time"][k - nops]
            else:
                op = rng.choice(["time", "fmin", "fmax", "signal", "every_x",
                                 "input_freq", "input_freq", "ftarg",
                                 "interpolate", "freq2time"])
            e = {"e": op}
            pre = _snap(F)
            if op == "time":
                F.time = rng.choice(times)
            elif op == "ftarg":
                ft, ftarg = rng.choice(fts)
                F.fourier_arguments(ft, dict(ftarg))
            elif op == "fmin":
                p = rng.randrange(1, max(2, _pos(req, F.fmax) - 10))
                F.fmin = _val(req, p)
            elif op == "fmax":
                # (a short list of required frequencies may leave less than
                # ten positions above fmin)
                top = 2*len(req) + 2
                p = rng.randrange(min(_pos(req, F.fmin) + 10, top - 1), top)
                F.fmax = _val(req, p)
            elif op == "signal":
                F.signal = rng.choice([-1, 0, 1])
            elif op == "every_x":
                F.every_x_freq = rng.choice([None, 2, 3, 5])
            elif op == "input_freq":
                kind = rng.choice(["none", "same", "shift", "lastdiff",
                                   "subset", "offgrid"])
                n = len(req)
                if kind == "none":
                    q = None
                elif kind == "same":
                    q = req.copy()
                elif kind == "shift":
                    q = np.array([_val(req, 2*i+1) for i in range(1, n+1)])
                elif kind == "lastdiff":
                    q = req.copy()
                    q[-1] = _val(req, 2*n+1)
                elif kind == "subset":
                    q = req[::rng.choice([2, 3, 4])].copy()
                else:
                    ps = sorted(rng.sample(range(1, 2*n+2), max(8, n//3)))
                    q = np.unique(np.array([_val(req, p) for p in ps]))
                F.input_freq = q
            elif op in ("interpolate", "freq2time"):
                if F.freq_compute.size < 4:
                    continue
                fdata = spectrum(F.freq_compute)
                if op == "interpolate":
                    try:
                        out = F.interpolate(fdata)
                        e["ok"] = True
                    except ValueError:
                        out = None
                        e["ok"] = False
                    codes = []
                    if out is not None:
                        comp = F.freq_compute
                        for i, f in enumerate(req):
                            v = out[i]
                            own = np.flatnonzero(comp == f)
                            if v == 0:
                                codes.append(0)
                            elif own.size and abs(v - fdata[own[0]]) <= \
                                    1e-11*abs(v):
                                codes.append(1)
                            elif np.any((v == fdata) &
                                        (np.abs(comp - f) > 1e-9*f)):
                                # verbatim datum of a DIFFERENT frequency
                                # (a computed frequency one ulp away from f
                                # is the same frequency up to rounding)
                                codes.append(2)
                            else:
                                codes.append(3)
                        # extrapolation: real part stays at the lowest
                        # computed value, imaginary part shrinks monotonically
                        # to zero (towards f -> 0)
                        ex = out[F.ifreq_extrapolate]
                        ok = True
                        if ex.size:
                            r0 = fdata[0].real
                            ok = bool(np.all(np.abs(ex.real - r0) <=
                                             1e-9*abs(r0) + 1e-300))
                            im = np.r_[ex.imag, fdata[0].imag]
                            ok &= bool(np.all(np.abs(im[:-1]) <=
                                              np.abs(im[1:])*(1+1e-12)))
                            ok &= bool(np.all(im[:-1]*fdata[0].imag >= 0))
                        e["extrapOK"] = ok
                        # off-knot in-band values: those of the cubic spline
                        # through the supplied data (recomputed here)
                        kn = True
                        inter = F.ifreq_interpolate
                        if any(c == 3 for c, m in zip(codes, inter) if m):
                            Sp = si.InterpolatedUnivariateSpline
                            lf = np.log(F.freq_compute)
                            ref = Sp(lf, fdata.real)(np.log(req[inter])) + \
                                1j*Sp(lf, fdata.imag)(np.log(req[inter]))
                            kn = bool(np.allclose(out[inter], ref, rtol=1e-12,
                                                  atol=0))
                        e["knotsOK"] = kn
                    e["codes"] = codes
                else:
                    try:
                        td = F.freq2time(fdata, 500.0)
                    except ValueError:
                        continue
                    filled = F.interpolate(fdata)
                    own, _ = empymod.model.tem(
                        filled[:, None], np.array(500.0), freq=req,
                        time=F.time, signal=F.signal, ft=F.ft, ftarg=F.ftarg)
                    # reference transform for the CURRENT settings: arguments
                    # as the reference modeller derives them
                    _, f2, ft2, ftarg2 = empymod.utils.check_time(
                        F.time, F.signal, F.ft, F.ftarg, 0)
                    ref, _ = empymod.model.tem(
                        filled[:, None], np.array(500.0), freq=f2,
                        time=F.time, signal=F.signal, ft=ft2, ftarg=ftarg2)
                    e["matchesOwnArgs"] = bool(np.array_equal(
                        td, np.squeeze(own)))
                    e["matchesReference"] = bool(np.array_equal(
                        td, np.squeeze(ref)))
            e.update(_observe(F, pre))
            ev.append(e)
    except Exception as ex:  # noqa
        import traceback
        err = f"{type(ex).__name__}: {ex}\n{traceback.format_exc()}"
    return {"init": init, "ev": ev, "err": err, "seed": seed}


def for_tlc(t):
    ev = []
    for e in t["ev"]:
        e = dict(e)
        e.setdefault("ok", True)
        e.setdefault("codes", [])
        e.setdefault("extrapOK", True)
        e.setdefault("knotsOK", True)
        e.setdefault("matchesOwnArgs", True)
        e.setdefault("matchesReference", True)
        ev.append(e)
    return {"init": t["init"], "ev": ev}


def run(tier, replay=None):
    rep = C.Report("C20", tier)
    rng = random.Random(C.seed())
    rep.assumptions += [
        "frequencies are compared as positions relative to the object's own "
        "freq_required (exact float equality decides 'coincides')",
        "the spline / PCHIP numerics are SciPy's; the reference transform is "
        "empymod.model.tem with the arguments empymod.utils.check_time "
        "derives for the current (time, signal, ft, ftarg)",
        "standard DLF (pts_per_dec=0, two-dimensional frequency array) is "
        "not exercised"]
    if replay:
        with open(replay) as f:
            seeds = [json.load(f)["case"]["seed"]]
    else:
        res = C.run_tlc("Fourier", "Fourier.cfg", coverage=True, timeout=900)
        if C.expect_tlc_ok(rep, "Fourier: all setter histories, N in 4..6",
                           res, "C20"):
            C.check_coverage(res, ["SetTime",
                                   "SetSignal", "SetEveryX",
                                   "SetFtArgs", "DoInterpolate",
                                   "DoFreq2Time"], "Fourier")
        rep.cov["exhaustive"] = True
        for cfg in ("Fourier_dev_size.cfg", "Fourier_dev_signal.cfg"):
            r = C.run_tlc("Fourier", cfg, timeout=600)
            C.tlc_must_run(r, cfg)
            rep.canary(bool(r.violated))
            if not r.violated:
                raise C.MachineryError(f"TLC did not find deviation {cfg}")
        n = 300 if tier == "quick" else 5000
        seeds = [rng.randrange(10**9) for _ in range(n)]
    with mp.get_context("fork").Pool(C.NCPU) as pool:
        traces = pool.map(_drive, seeds, chunksize=4)
    for t in traces:
        if t["err"]:
            # an exception raised by emg3d on a valid input is a finding; one
            # raised by the driver itself is a fault of the machinery
            if C.crash_in_code_under_test(t["err"]) is None:
                raise C.MachineryError("driver failed (seed "
                                       f"{t['seed']}):\n" + t["err"])
            rep.violation(f"C20:error:seed={t['seed']}",
                          "unexpected exception while driving Fourier: "
                          + t["err"].splitlines()[0], {"seed": t["seed"]})
    ok = [t for t in traces if not t["err"]]
    bad = C.validate_batch(rep, "TraceFourier", "TraceFourier.cfg",
                           [for_tlc(t) for t in ok], "impl", chunk=400)
    badidx = dict(bad)
    rep.add_traces(len(ok) - len(badidx))
    for i, why in sorted(badidx.items()):
        t = ok[i]
        d = C.diagnose_one("TraceFourier", "TraceFourier.cfg", for_tlc(t),
                           len(t["ev"]))
        k = d["matched_events"]
        nxt = t["ev"][k] if k < len(t["ev"]) else {"e": "end"}
        short = {kk: v for kk, v in nxt.items()
                 if kk not in ("compute", "extrap", "interp", "above",
                               "codes", "inp", "req", "pre")}
        ops = [e["e"] for e in t["ev"][:k+1]]
        rep.violation(f"C20:trace:{why}:{'>'.join(ops)}:seed={t['seed']}",
                      f"history {' ; '.join(ops)} is not a behaviour of "
                      f"Fourier.tla ({why}); event {k}: {short}",
                      {"seed": t["seed"], "diag": d})
    rep.cov["events_validated"] = sum(len(t["ev"]) for t in ok)
    rep.cov["distinct_required_sizes"] = len({e["n"] for t in ok
                                              for e in t["ev"]})
    good = [t for i, t in enumerate(ok) if i not in badidx]
    if good:
        s = rng.choice(good)
        rep.sample({"seed": s["seed"], "init": {
            k: (v if not isinstance(v, list) else v[:8]) for k, v in
            s["init"].items()}, "events": [
            {k: (v if not isinstance(v, list) else v[:6])
             for k, v in e.items()} for e in s["ev"][:6]]})
    if good and not replay:
        muts = []

        def pick(pred):
            c = [t for t in good if any(pred(e) for e in t["ev"])]
            return copy.deepcopy(rng.choice(c)) if c else None
        t = pick(lambda e: e["e"] == "interpolate" and 1 in e.get("codes", []))
        if t:
            e = [x for x in t["ev"] if x["e"] == "interpolate"
                 and 1 in x["codes"]][0]
            e["codes"][e["codes"].index(1)] = 2     # datum of another freq.
            muts.append(("pass-through-wrong-frequency", t))
        t = pick(lambda e: len(e["above"]) > 0 and e["e"] == "interpolate"
                 and e.get("codes"))
        if t:
            e = [x for x in t["ev"] if x["e"] == "interpolate"
                 and x.get("codes") and x["above"]][0]
            e["codes"][-1] = 3                      # not zero above fmax
            muts.append(("nonzero-above-fmax", t))
        t = pick(lambda e: len(e["compute"]) > 4)
        if t:
            e = [x for x in t["ev"] if len(x["compute"]) > 4][0]
            e["compute"] = e["compute"] + [e["fmax"] + 1]
            muts.append(("computed-outside-band", t))
        t = pick(lambda e: e["e"] == "freq2time" and "matchesReference" in e)
        if t:
            e = [x for x in t["ev"] if x["e"] == "freq2time"
                 and "matchesReference" in x][0]
            e["matchesReference"] = False
            muts.append(("transform-differs-from-reference", t))
        t = pick(lambda e: e["e"] == "every_x" and e["everyx"] != 0)
        if t:
            e = [x for x in t["ev"] if x["e"] == "every_x"
                 and x["everyx"] != 0][0]
            e["inp"] = e["req"][:4]                 # both coarse options set
            muts.append(("both-coarse-options", t))
        if len(muts) < 4:
            raise C.MachineryError("could not build canaries")
        cb = C.validate_batch(rep, "TraceFourier", "TraceFourier.cfg",
                              [for_tlc(m[1]) for m in muts], "canaries",
                              count=False)
        cbi = {b[0] for b in cb}
        for i in range(len(muts)):
            rep.canary(i in cbi)
        if len(cbi) != len(muts):
            raise C.MachineryError("canary traces accepted: " + str(
                [muts[i][0] for i in range(len(muts)) if i not in cbi]))
    return rep.finish()
