"""C16 - automatic gridding meets its stated postconditions or fails loudly.

1. TLC checks Gridding.tla exhaustively (3 permitted cell numbers, up to 2
   stretching candidates per loop, direct call and construct_mesh with three
   directions): FirstFit, FailsLoudly, Ascending, Chained, ThreeDirs,
   NeverMeshWithoutFit, termination; the deviation GiveUpEarly must be found.
2. Real meshes.construct_mesh / origin_and_widths calls over random inputs in
   every accepted format are recorded (meshes._stretch and
   meshes.origin_and_widths wrapped at run time): every candidate tried, in
   order, with its outcome; TLC validates each recorded search against
   Gridding (first fit returned, nothing skipped, failure only after
   everything was tried, buffer grown from the survey-domain result).  The
   Ret event carries the postconditions of C16 evaluated by the harness on the
   RETURNED origin and widths with the harness's own routing of the
   per-direction arguments and its own skin-depth / wavelength / buffer
   formulas taken from the documentation; TLC evaluates them as invariants.
"""
import json
import math
import multiprocessing as mp
import random
import warnings

from . import common as C

MU0 = 4e-7*math.pi
MAPS = ["Conductivity", "Resistivity", "LgConductivity", "LgResistivity",
        "LnConductivity", "LnResistivity"]
DEFAULT_NX = [16, 24, 32, 40, 48, 64, 80, 96, 128, 160, 192, 256, 320, 384,
              512, 640, 768, 1024]


def to_cond(mapping, p):
    return {"Conductivity": lambda x: x, "Resistivity": lambda x: 1.0/x,
            "LgConductivity": lambda x: 10.0**x,
            "LgResistivity": lambda x: 10.0**(-x),
            "LnConductivity": math.exp,
            "LnResistivity": lambda x: math.exp(-x)}[mapping](p)


def from_cond(mapping, c):
    return {"Conductivity": lambda x: x, "Resistivity": lambda x: 1.0/x,
            "LgConductivity": math.log10,
            "LgResistivity": lambda x: -math.log10(x),
            "LnConductivity": math.log,
            "LnResistivity": lambda x: -math.log(x)}[mapping](c)


def skin(f, cond):
    d = 1.0/math.sqrt(math.pi*abs(f)*cond*MU0)
    return d/math.sqrt(2*math.pi) if f < 0 else d


# --------------------------------------------------------------------------
# the documented routing of construct_mesh arguments to the directions
# --------------------------------------------------------------------------
def per_dir(value, scalar_ok=True):
    """value -> [x, y, z] following the documented formats."""
    import numpy as np
    if value is None:
        return [None]*3
    if isinstance(value, dict):
        return [value['x'], value['y'], value['z']]
    if isinstance(value, np.ndarray):
        return [value]*3
    if isinstance(value, (bool, int, float)):
        return [value]*3
    if len(value) == 3:
        return list(value)
    return [value]*3


def route(inp):
    """Per-direction parameters as the documentation of construct_mesh
    describes them (harness's own reading, independent of the code)."""
    import numpy as np
    p = [to_cond(inp["mapping"], x) for x in np.atleast_1d(inp["properties"])]
    n = len(p)
    if n == 1:
        pr = [(p[0], p[0], p[0])]*3
    elif n == 2:
        pr = [(p[0], p[1], p[1])]*3
    elif n == 3:
        pr = [(p[0], p[2], p[2]), (p[0], p[2], p[2]), (p[0], p[1], p[2])]
    elif n == 4:
        pr = [(p[0], p[1], p[1]), (p[0], p[1], p[1]), (p[0], p[2], p[3])]
    else:
        pr = [(p[0], p[1], p[2]), (p[0], p[3], p[4]), (p[0], p[5], p[6])]
    dom = per_dir(inp.get("domain"))
    dist = per_dir(inp.get("distance"))
    vec = per_dir(inp.get("vector"))
    st = per_dir(inp.get("stretching")) if inp.get("stretching") is not None \
        else [None]*3
    lim = per_dir(inp.get("min_width_limits"))
    pps = per_dir(inp.get("min_width_pps"))
    coe = per_dir(inp.get("center_on_edge"))
    out = []
    for d in range(3):
        out.append(dict(
            center=float(inp["center"][d]), props=pr[d],
            domain=dom[d], distance=dist[d], vector=vec[d],
            seasurface=inp.get("seasurface") if d == 2 else None,
            stretching=list(st[d]) if st[d] is not None else [1.0, 1.5],
            limits=lim[d], pps=3 if pps[d] is None else pps[d],
            coe=coe[d]))
    return out


def postconditions(inp, q, x0, hx, warned):
    """The postconditions of C16 for one direction.  q: routed parameters of
    that direction; x0, hx: what the code returned."""
    import numpy as np
    f = inp["frequency"]
    hx = np.asarray(hx, dtype=float)
    nodes = x0 + np.r_[0.0, np.cumsum(hx)]
    ext = nodes[-1] - nodes[0]
    tol = 1e-9*max(abs(ext), 1.0)
    c = q["center"]
    vec = None if q["vector"] is None else np.asarray(q["vector"], float)
    # survey domain: domain > distance > vector; sea surface included
    if q["domain"] is not None:
        ds = [float(q["domain"][0]), float(q["domain"][1])]
    elif q["distance"] is not None:
        ds = [c - abs(q["distance"][0]), c + abs(q["distance"][1])]
    else:
        ds = [float(vec.min()), float(vec.max())]
    ds_user = list(ds)      # the vector is trimmed to the domain as given
    sea = q["seasurface"]
    if sea is not None:
        ds[1] = max(ds[1], sea)
    lam = [2*math.pi*skin(f, q["props"][1]), 2*math.pi*skin(f, q["props"][2])]
    lf = inp.get("lambda_factor", 1.0)
    mb = inp.get("max_buffer", 100000)
    if inp.get("lambda_from_center", False):
        dc = []
        for k, sgn in ((0, -1), (1, 1)):
            ind = abs(ds[k] - c)
            buf = max(0.0, (2*lf*lam[k] - ind)/2)
            dc.append(ds[k] + sgn*buf)
        dc[0] = max(dc[0], c - mb)
        dc[1] = min(dc[1], c + mb)
    else:
        dc = [ds[0] - min(lf*lam[0], mb), ds[1] + min(lf*lam[1], mb)]
    lo, hi = min(ds[0], dc[0]), max(ds[1], dc[1])
    post = {}
    post["count"] = int(hx.size) in set(int(x) for x in inp["cell_numbers"])
    post["positive"] = bool(np.all(np.isfinite(hx)) and np.all(hx > 0)
                            and math.isfinite(x0))
    post["cover"] = bool(nodes[0] <= lo + tol and nodes[-1] >= hi - tol)
    # stretching between neighbours, outside a provided node vector
    smax = max(q["stretching"])*(1 + 1e-9)
    ok = True
    for i in range(hx.size - 1):
        if vec is not None and nodes[i] >= vec.min() - tol and \
                nodes[i+2] <= vec.max() + tol:
            continue            # both cells inside the user's own vector
        r = max(hx[i+1]/hx[i], hx[i]/hx[i+1])
        if r > smax:
            ok = False
    post["stretch"] = ok
    # centre on a node / on a cell centre as requested
    if vec is None and sea is None and q["coe"] is not None:
        if q["coe"]:
            post["center"] = bool(np.min(np.abs(nodes - c)) <= tol)
        else:
            cc = (nodes[1:] + nodes[:-1])/2
            post["center"] = bool(np.min(np.abs(cc - c)) <= tol)
    else:
        post["center"] = True
    # nodes of a provided vector inside the domain are nodes of the mesh
    post["vector"] = True
    if vec is not None:
        inside = vec[(vec >= ds_user[0]) & (vec <= ds_user[1])]
        if inside.size >= 3:     # documented: at least two cells in the domain
            post["vector"] = bool(all(np.min(np.abs(nodes - v)) <= tol
                                      for v in inside))
    # the sea surface is a node, or a warning says it is not
    post["sea"] = True
    if sea is not None:
        post["sea"] = bool(np.min(np.abs(nodes - sea)) <= 1e-6*max(
            1.0, abs(sea)) or warned)
    return post, {"ds": ds, "dc": dc}


# --------------------------------------------------------------------------
# recording
# --------------------------------------------------------------------------
def _record(job):
    import numpy as np
    from emg3d import meshes
    inp = job["inp"]
    ev = []
    state = {"nxs": sorted(set(int(x) for x in inp["cell_numbers"])),
             "lastS": None, "lastSout": None, "lastC": None, "lastCout": None,
             "st": None, "d": 0, "sea_warn": False, "results": {}}
    orig_stretch, orig_oaw = meshes._stretch, meshes.origin_and_widths

    def stretch(edges, widths, stretching, nx, domain, use_up=False):
        out = orig_stretch(edges, widths, stretching, nx, domain, use_up)
        ok = out[2] is not False
        nxi = state["nxs"].index(int(nx)) + 1 if int(nx) in state["nxs"] else 0
        s0, s1 = state["st"]
        a = float(stretching)
        if not use_up:
            prev = state["lastS"]
            e = {"e": "S", "i": nxi, "first": a == 1.0,
                 "last": bool(a == s0 or s0 - 1.0 < 0.002),
                 "mono": bool(prev is not None and prev[0] == nxi
                              and a > prev[1]), "ok": bool(ok)}
            state["lastS"] = (nxi, a)
            state["lastC"] = None
            if ok:
                state["lastSout"] = (np.array(out[0], dtype=float),
                                     np.array(out[1], dtype=float))
        else:
            sa = state["lastS"][1] if state["lastS"] else None
            prev = state["lastC"]
            so = state["lastSout"]
            chained = so is not None and np.array_equal(
                np.asarray(edges, dtype=float), so[0]) and np.array_equal(
                np.atleast_1d(np.asarray(widths, dtype=float)), so[1])
            e = {"e": "C", "i": nxi, "first": bool(a == sa),
                 "last": bool(a == s1 or s1 - sa < 0.002),
                 "mono": bool(prev is not None and a > prev), "ok": bool(ok),
                 "chained": bool(chained)}
            state["lastC"] = a
            if ok:
                state["lastCout"] = (float(out[0][0]),
                                     np.array(out[1], dtype=float))
        ev.append(e)
        return out

    def oaw(*args, **kw):
        state["d"] += 1
        d = state["d"]
        st = kw.get("stretching", [1.0, 1.5])
        state["st"] = (float(st[0]), float(st[1]))
        state.update(lastS=None, lastSout=None, lastC=None, lastCout=None)
        if job["mode"] == "mesh":
            ev.append({"e": "Dir", "d": d})
        with warnings.catch_warnings(record=True) as w:
            warnings.simplefilter("always")
            try:
                out = orig_oaw(*args, **kw)
            except RuntimeError as e:
                if "No suitable grid" in str(e):
                    ev.append({"e": "Raise"})
                raise
        warned = any("Seasurface is not at an actual boundary" in
                     str(x.message) for x in w)
        x0, hx = out[0], out[1]
        if x0 is None:
            ev.append({"e": "None"})
        else:
            lc = state["lastCout"]
            same = lc is not None and float(x0) == lc[0] and \
                np.array_equal(np.asarray(hx, dtype=float), lc[1])
            state["results"][d] = (float(x0), np.array(hx, dtype=float),
                                   warned)
            ev.append({"e": "Ret", "same": bool(same), "post": None, "d": d})
        return out

    meshes._stretch, meshes.origin_and_widths = stretch, oaw
    what, err, mesh = "mesh", None, None
    try:
        with warnings.catch_warnings():
            warnings.simplefilter("ignore")
            kw = {k: v for k, v in inp.items() if k not in (
                "frequency", "properties", "center", "domain", "vector",
                "seasurface", "direction")}
            if job["mode"] == "mesh":
                mesh = meshes.construct_mesh(
                    inp["frequency"], inp["properties"], inp["center"],
                    domain=inp.get("domain"), vector=inp.get("vector"),
                    seasurface=inp.get("seasurface"), **kw)
            else:
                oaw(inp["frequency"], inp["properties"], inp["center"],
                    domain=inp.get("domain"), vector=inp.get("vector"),
                    seasurface=inp.get("seasurface"), **kw)
    except RuntimeError as e:
        if "No suitable grid" not in str(e):
            raise
        what = "error"
    finally:
        meshes._stretch, meshes.origin_and_widths = orig_stretch, orig_oaw
    ev.append({"e": "End", "what": what})
    # ---- postconditions on what was returned, with the harness's routing
    notes = []
    if job["mode"] == "mesh":
        qs = route(inp)
    else:
        p = [to_cond(inp["mapping"], x)
             for x in np.atleast_1d(inp["properties"])]
        pr = (p[0], p[min(len(p)-1, 1)], p[min(len(p)-1, 2)])
        qs = [dict(center=float(inp["center"]), props=pr,
                   domain=inp.get("domain"), distance=inp.get("distance"),
                   vector=inp.get("vector"), seasurface=inp.get("seasurface"),
                   stretching=list(inp.get("stretching", [1.0, 1.5])),
                   limits=inp.get("min_width_limits"),
                   pps=inp.get("min_width_pps", 3),
                   coe=inp.get("center_on_edge"))]
    geo = {}
    for e in ev:
        if e["e"] == "Ret":
            d = e.pop("d")
            x0, hx, warned = state["results"][d]
            e["post"], geo[d] = postconditions(inp, qs[d-1], x0, hx, warned)
    if mesh is not None:
        # the mesh is made of exactly the three returned directions
        for d in range(3):
            r = state["results"].get(d+1)
            if r is None or not np.array_equal(mesh.h[d], r[1]) or \
                    mesh.origin[d] != r[0]:
                notes.append(f"mesh direction {d} differs from what "
                             f"origin_and_widths returned")
    ncalls = sum(1 for e in ev if e["e"] in ("S", "C"))
    return {"trace": {"mode": job["mode"], "ev": rle(ev)},
            "nnx": len(state["nxs"]), "ncalls": ncalls,
            "notes": notes, "geo": {str(k): v for k, v in geo.items()}}


def rle(ev):
    """Run-length encode identical calls in the middle of a loop (not first,
    not last, did not fit): they leave the specification's state as it is."""
    out = []
    for e in ev:
        mid = e["e"] in ("S", "C") and not e["first"] and not e["last"] \
            and not e["ok"] and e["mono"] and e.get("chained", True)
        if mid and out and out[-1].get("_mid") and \
                all(out[-1].get(k) == v for k, v in e.items()):
            out[-1]["rep"] += 1
        else:
            e2 = dict(e)
            if e["e"] in ("S", "C"):
                e2["rep"] = 1
            e2["_mid"] = mid
            out.append(e2)
    for e in out:
        del e["_mid"]
    return out


def _job(job):
    try:
        return _record(job)
    except Exception as e:  # noqa
        import traceback
        return {"fatal": f"{type(e).__name__}: {e}\n{traceback.format_exc()}",
                "job": job}


# --------------------------------------------------------------------------
# inputs
# --------------------------------------------------------------------------
def gen_inputs(rng, n):
    import numpy as np
    jobs = []
    for i in range(n):
        mapping = MAPS[i % 6]
        f = rng.choice([0.05, 0.3, 1.0, 2.5, 10.0, 77.0])
        if rng.random() < 0.25:
            f = -f
        npr = [1, 2, 3, 4, 7][i % 5]
        props = [from_cond(mapping, 10**rng.uniform(-2.5, 0.5))
                 for _ in range(npr)]
        if npr >= 3 and rng.random() < 0.4:     # air above
            props[-1] = from_cond(mapping, 10**rng.uniform(-8, -6))
        if npr == 1 and rng.random() < 0.5:
            props = props[0]
        center = [rng.uniform(-500, 500), rng.uniform(-500, 500),
                  rng.uniform(-1500, -200)]
        inp = {"frequency": f, "properties": props, "center": center,
               "mapping": mapping}
        # survey domain per direction: domain / distance / vector
        kinds = [rng.choice(["domain", "distance", "vector", "both"])
                 for _ in range(3)]
        dom, dist, vec = [None]*3, [None]*3, [None]*3
        for d in range(3):
            c = center[d]
            a, b = rng.uniform(200, 4000), rng.uniform(200, 4000)
            if kinds[d] in ("domain", "both"):
                dom[d] = [c - a, c + b]
            if kinds[d] == "distance":
                dist[d] = [a, b]
            if kinds[d] in ("vector", "both"):
                w = rng.choice([25.0, 50.0, 100.0])
                k0, k1 = rng.randint(2, 8), rng.randint(2, 8)
                v = c + w*np.arange(-k0, k1+1)
                if rng.random() < 0.3:
                    v = c + 7.0 + w*np.arange(-k0, k1+1)   # centre off-node
                if rng.random() < 0.4:
                    # non-uniform node vector (as taken from a model grid)
                    ws = [w*rng.choice([0.5, 1.0, 1.0, 1.5, 2.0])
                          for _ in range(k0 + k1)]
                    v = c - sum(ws[:k0]) + np.r_[0.0, np.cumsum(ws)]
                vec[d] = v
                if kinds[d] == "both" and rng.random() < 0.5 and v.size >= 7:
                    # survey domain limited by nodes of that vector, with
                    # further vector nodes outside of it
                    i0 = rng.randint(1, 2)
                    i1 = v.size - 1 - rng.randint(1, 2)
                    dom[d] = [float(v[i0]), float(v[i1])]
        twin = rng.random() < 0.15
        if twin:
            # x and y alike in centre and survey domain, but (below) not in
            # every per-direction option
            center[1] = center[0]
            inp["center"] = center
            dom[1], dist[1], vec[1] = dom[0], dist[0], vec[0]
        fmt = rng.choice(["tuple", "dict"])

        def pack(v3):
            if all(x is None for x in v3):
                return None
            if fmt == "dict":
                return {'x': v3[0], 'y': v3[1], 'z': v3[2]}
            return tuple(v3)
        inp["domain"], inp["vector"] = pack(dom), pack(vec)
        if pack(dist) is not None:
            inp["distance"] = pack(dist)
        r = rng.random()
        if r < 0.3:
            inp["stretching"] = rng.choice([[1.0, 1.5], [1.05, 1.3],
                                            [1.1, 2.0], [1.2, 1.2],
                                            [1.0, 1.1]])
        elif r < 0.45:
            inp["stretching"] = ([1.0, 1.5], [1.1, 1.4], [1.05, 1.8])
        elif r < 0.55:
            inp["stretching"] = {'x': [1.0, 1.3], 'y': [1.02, 1.5],
                                 'z': [1.1, 1.6]}
        r = rng.random()
        if r < 0.15:
            inp["min_width_limits"] = rng.choice([20.0, 50.0, 100.0])
        elif r < 0.35:
            inp["min_width_limits"] = [rng.choice([5.0, 20.0]),
                                       rng.choice([60.0, 200.0])]
        elif r < 0.45:
            inp["min_width_limits"] = ([10.0, 100.0], None, 40.0)
        if rng.random() < 0.3:
            inp["min_width_pps"] = rng.choice([2, 4, 5, (2, 3, 5)])
        if rng.random() < 0.3:
            inp["lambda_factor"] = rng.choice([0.5, 0.8, 2.0])
        if rng.random() < 0.3:
            inp["max_buffer"] = rng.choice([1000.0, 5000.0, 30000.0])
        if rng.random() < 0.3:
            inp["lambda_from_center"] = True
        r = rng.random()
        if r < 0.35:
            inp["center_on_edge"] = rng.random() < 0.5
        elif r < 0.55:
            inp["center_on_edge"] = (True, False, rng.random() < 0.5)
        elif r < 0.7:
            inp["center_on_edge"] = {'x': False, 'y': True, 'z': False}
        if twin:
            k = rng.randrange(4)
            if k == 0:
                inp["center_on_edge"] = (True, False, rng.random() < 0.5)
            elif k == 1:
                inp["stretching"] = ([1.0, 1.5], [1.1, 1.3], [1.05, 1.8])
            elif k == 2:
                inp["min_width_limits"] = (30.0, 70.0, None)
            else:
                inp["min_width_pps"] = (2, 5, 3)
        if rng.random() < 0.3:
            inp["seasurface"] = center[2] + rng.choice([60.0, 333.0, 1000.0,
                                                        2500.0])
        r = rng.random()
        if r < 0.6:
            inp["cell_numbers"] = list(DEFAULT_NX)
        elif r < 0.8:
            inp["cell_numbers"] = [8, 16, 32, 64, 128, 256]
        elif r < 0.9:
            inp["cell_numbers"] = [20, 40, 80, 10, 40]       # unsorted, dup
        else:
            inp["cell_numbers"] = [8, 12, 16]               # may not fit
        mode = "mesh"
        if i % 4 == 3:
            # a direct call of origin_and_widths for one direction
            mode = "direct"
            d = rng.randrange(3)
            q = route(inp)[d]
            one = {"frequency": f, "center": center[d], "mapping": mapping,
                   "cell_numbers": inp["cell_numbers"],
                   "properties": [from_cond(mapping, x) for x in q["props"]][
                       :rng.choice([1, 2, 3])],
                   "domain": q["domain"], "vector": q["vector"],
                   "seasurface": q["seasurface"],
                   "stretching": q["stretching"]}
            if q["distance"] is not None:
                one["distance"] = q["distance"]
            if q["limits"] is not None:
                one["min_width_limits"] = q["limits"]
            one["min_width_pps"] = q["pps"]
            if q["coe"] is not None:
                one["center_on_edge"] = q["coe"]
            for k in ("lambda_factor", "max_buffer", "lambda_from_center"):
                if k in inp:
                    one[k] = inp[k]
            inp = one
        jobs.append({"mode": mode, "inp": inp, "id": i})
    return jobs


# --------------------------------------------------------------------------
# estimate_gridding_opts: defaults from model and survey
# --------------------------------------------------------------------------
PASS = ["seasurface", "cell_numbers", "lambda_factor", "lambda_from_center",
        "max_buffer", "verb", "stretching", "min_width_limits",
        "min_width_pps", "center_on_edge"]


def _same(a, b):
    import numpy as np
    if a is None or b is None:
        return a is None and b is None
    if isinstance(a, dict) and isinstance(b, dict):
        return set(a) == set(b) and all(_same(a[k], b[k]) for k in a)
    if isinstance(a, dict) or isinstance(b, dict):
        return False
    try:
        a_, b_ = np.asarray(a, dtype=float), np.asarray(b, dtype=float)
        return a_.shape == b_.shape and np.array_equal(a_, b_)
    except (TypeError, ValueError):
        if isinstance(a, (list, tuple)) and isinstance(b, (list, tuple)):
            return len(a) == len(b) and all(_same(x, y) for x, y in zip(a, b))
        return a == b


def _xyz(v):
    """A triple as the x/y/z dict the function hands on."""
    if isinstance(v, (list, tuple)) and len(v) == 3:
        return {'x': v[0], 'y': v[1], 'z': v[2]}
    return v


def _gopts_inst(seed):
    import warnings
    warnings.filterwarnings("ignore")
    import numpy as np
    import emg3d
    from emg3d import meshes
    rng = random.Random(seed)
    nrng = np.random.default_rng(seed)
    hx = np.array([300.0, 200, 150, 150, 150, 200, 300, 400])
    hy = np.array([250.0, 200, 200, 200, 250, 300])
    hz = np.array([400.0, 300, 200, 200, 100, 500])
    grid = emg3d.TensorMesh([hx, hy, hz], (-900.0, -700.0, -1500.0))
    mapping = rng.choice(MAPS)
    case = rng.choice(["iso", "vti", "tri"])
    cond = [10**nrng.uniform(-2, 0.5, grid.shape_cells) for _ in range(3)]
    kw = {"property_x": np.vectorize(lambda c: from_cond(mapping, c))(cond[0])}
    used = [cond[0]]
    if case == "tri":
        kw["property_y"] = np.vectorize(
            lambda c: from_cond(mapping, c))(cond[1])
        used.append(cond[1])
    if case in ("vti", "tri"):
        kw["property_z"] = np.vectorize(
            lambda c: from_cond(mapping, c))(cond[2])
        used.append(cond[2])
    model = emg3d.Model(grid, mapping=mapping, **kw)
    nsrc = rng.randint(1, 3)
    sources = [emg3d.TxElectricDipole(
        (rng.uniform(-500, 300), rng.uniform(-400, 300),
         rng.uniform(-1100, -300), rng.uniform(0, 90), rng.uniform(-10, 10)))
        for _ in range(nsrc)]
    recs = []
    for _ in range(rng.randint(1, 4)):
        if rng.random() < 0.3:
            recs.append(emg3d.RxElectricPoint(
                (rng.uniform(-300, 300), rng.uniform(-100, 100),
                 rng.uniform(-50, 50), 0, 0), relative=True))
        else:
            recs.append(emg3d.RxElectricPoint(
                (rng.uniform(-700, 900), rng.uniform(-600, 500),
                 rng.uniform(-1300, -200), 0, 0)))
    freqs = [rng.choice([0.1, 0.5, 1.0, 3.0, 10.0])
             for _ in range(rng.randint(1, 3))]
    freqs = sorted(set(freqs))
    survey = emg3d.Survey(sources, recs, freqs)
    # ---- what the caller provides
    g = {}
    if rng.random() < 0.4:
        g["frequency"] = rng.choice([0.7, 2.0, -1.0])
    if rng.random() < 0.3:
        g["center"] = (rng.uniform(-200, 200), rng.uniform(-100, 100), -600.0)
    if rng.random() < 0.2:
        g["mapping"] = rng.choice(MAPS)
    if rng.random() < 0.25:
        g["properties"] = rng.choice([0.3, [0.3, 1.0], [0.3, 1.0, 1e8]])
    prov = ["survey"]*3
    r = rng.random()
    if r < 0.35:
        dom = [[-800.0 - 100*i, 700.0 + 50*i] if rng.random() < 0.6 else None
               for i in range(3)]
        if any(d is not None for d in dom):
            g["domain"] = dict(zip("xyz", dom)) if rng.random() < 0.5 \
                else tuple(dom)
            for i in range(3):
                if dom[i] is not None:
                    prov[i] = "domain"
    r = rng.random()
    if r < 0.3:
        dist = [[300.0 + 100*i, 500.0] if rng.random() < 0.6 else None
                for i in range(3)]
        if any(d is not None for d in dist):
            g["distance"] = dict(zip("xyz", dist)) if rng.random() < 0.5 \
                else tuple(dist)
            for i in range(3):
                if dist[i] is not None and prov[i] == "survey":
                    prov[i] = "distance"
    vecstr = False
    r = rng.random()
    if r < 0.2:
        vs = rng.choice(["x", "xy", "xyz", "z", "yz"])
        g["vector"] = vs
        vecstr = True
        for i, c in enumerate("xyz"):
            if c in vs and prov[i] == "survey":
                prov[i] = "vector"
    elif r < 0.4:
        vec = [np.linspace(-400.0 - 50*i, 300.0, 8) if rng.random() < 0.6
               else None for i in range(3)]
        if any(v is not None for v in vec):
            g["vector"] = dict(zip("xyz", vec)) if rng.random() < 0.5 \
                else tuple(vec)
            for i in range(3):
                if vec[i] is not None and prov[i] == "survey":
                    prov[i] = "vector"
    for k, v in (("seasurface", 0.0), ("cell_numbers", [16, 32, 64]),
                 ("lambda_factor", 0.7), ("lambda_from_center", True),
                 ("max_buffer", 20000.0), ("verb", 0),
                 ("stretching", rng.choice([[1.0, 1.3],
                                            ([1.0, 1.3], [1.1, 1.5],
                                             [1.0, 2.0])])),
                 ("min_width_limits", rng.choice([50.0, (30.0, None, 60.0)])),
                 ("min_width_pps", rng.choice([4, (2, 3, 5)])),
                 ("center_on_edge", rng.choice([True, (True, False, True)]))):
        if rng.random() < 0.25:
            g[k] = v
    unknown = rng.random() < 0.05
    if unknown:
        g["cell_number"] = [16, 32]
    given = dict(g)
    notes = []
    try:
        out = meshes.estimate_gridding_opts(dict(g), model, survey)
        raised = False
    except TypeError as e:
        raised = "Unexpected gridding_opts" in str(e)
        out = None
        if not raised:
            raise
    if unknown:
        return {"skip": True, "ok": bool(raised), "seed": seed}
    if out is None:
        return {"skip": True, "ok": False, "seed": seed}
    # ---- the harness's own estimates
    own_f = 10**np.mean(np.log10(freqs))
    own_c = np.mean([s.center for s in sources], axis=0)
    mp_name = given.get("mapping", mapping)

    def outer_min(ix, iy, iz):
        return min(float(np.min(c[ix, iy, iz])) for c in used)
    sl = slice(None)
    own_buf = [outer_min(0, sl, sl), outer_min(-1, sl, sl),
               outer_min(sl, 0, sl), outer_min(sl, -1, sl),
               outer_min(sl, sl, 0), outer_min(sl, sl, -1)]
    cmin = min(float(c.min()) for c in used)
    cmax = max(float(c.max()) for c in used)
    cls = {}
    for k in PASS:
        if k not in out:
            cls[k] = "absent"
        elif k in given and _same(out[k], _xyz(given[k])
                                  if k in ("stretching", "min_width_limits",
                                           "min_width_pps", "center_on_edge")
                                  else given[k]):
            cls[k] = "given"
        else:
            cls[k] = "other"
    m_out = out.get("mapping")
    cls["mapping"] = "given" if "mapping" in given and m_out == given[
        "mapping"] else ("model" if m_out == mapping else "other")
    fo = out.get("frequency")
    cls["frequency"] = "given" if "frequency" in given and fo == given[
        "frequency"] else ("survey" if fo is not None and np.isclose(
            fo, own_f, rtol=1e-12) else "other")
    co = out.get("center")
    cls["center"] = "given" if "center" in given and _same(
        co, given["center"]) else ("survey" if co is not None and np.allclose(
            co, own_c, rtol=1e-12, atol=1e-9) else "other")
    po = out.get("properties")
    if "properties" in given and _same(po, given["properties"]):
        cls["properties"] = "given"
    else:
        ok = po is not None and len(po) == 7
        if ok:
            pc = [to_cond(mp_name, float(x)) for x in po]
            ok = np.allclose(pc[1:], own_buf, rtol=1e-10) and \
                cmin*(1-1e-10) <= pc[0] <= cmax*(1+1e-10)
        cls["properties"] = "model" if ok else "other"
    vo = out.get("vector", "missing")
    if "vector" not in given:
        cls["vector"] = "none" if vo is None else "other"
    elif vecstr:
        want = {c: (getattr(grid, "nodes_" + c) if c in given["vector"]
                    else None) for c in "xyz"}
        cls["vector"] = "grid" if _same(vo, want) else "other"
    else:
        cls["vector"] = "given" if _same(vo, _xyz(given["vector"])) \
            else "other"
    do = out.get("distance", "missing")
    if "distance" not in given:
        cls["distance"] = "none" if do is None else "other"
    else:
        cls["distance"] = "given" if _same(do, _xyz(given["distance"])) \
            else "other"
    # ---- the domain, per direction
    dom_cls, widened = [], []
    dout = out.get("domain")
    gd = given.get("domain")
    gd = [gd[c] for c in "xyz"] if isinstance(gd, dict) else gd
    gv = None
    if "vector" in given:
        if vecstr:
            gv = [getattr(grid, "nodes_" + c) if c in given["vector"] else None
                  for c in "xyz"]
        else:
            v = given["vector"]
            gv = [v[c] for c in "xyz"] if isinstance(v, dict) else list(v)
    ext0 = []
    for i in range(3):
        pts = [s.center[i] for s in sources]
        for s_ in sources:
            pts += [r_.center_abs(s_)[i] for r_ in recs]
        lo, hi = min(pts), max(pts)
        d = hi - lo
        ext0.append([lo - d/10, hi + d/10])
    for i, c in enumerate("xyz"):
        dd = None if dout is None else dout[c]
        w = False
        if prov[i] == "domain":
            k = "given" if _same(dd, gd[i]) else "other"
        elif prov[i] == "distance":
            k = "none" if dd is None else "other"
        elif prov[i] == "vector":
            k = "vector" if dd is not None and np.allclose(
                dd, [np.min(gv[i]), np.max(gv[i])]) else "other"
        else:
            e0 = ext0[i]
            if dd is None:
                k = "other"
            elif np.allclose(dd, e0, rtol=1e-12, atol=1e-9):
                k = "survey"
            elif dd[0] <= e0[0] + 1e-9 and dd[1] >= e0[1] - 1e-9:
                k, w = "survey", True        # widened by a ratio rule
            else:
                k = "other"
        dom_cls.append(k)
        widened.append(w)
    # ---- observations on the ratio rules (survey-derived directions)
    if dout is not None and all(dout[c] is not None for c in "xy") and \
            all(k != "other" for k in dom_cls[:2]):
        dx = dout['x'][1] - dout['x'][0]
        dy = dout['y'][1] - dout['y'][0]
        # (the widening is rounded to whole metres: one metre of slack)
        if prov[1] == "survey" and dx/3.0 > dy + 1.0 + 1e-6:
            notes.append(f"x:y extent {dx:.0f}:{dy:.0f} exceeds 3 although "
                         f"y was estimated")
        if prov[0] == "survey" and dy/3.0 > dx + 1.0 + 1e-6 and \
                not (prov[1] == "survey" and dx/max(dy, 1e-9) > 3):
            notes.append(f"y:x extent {dy:.0f}:{dx:.0f} exceeds 3 although "
                         f"x was estimated")
        for i, c in ((0, 'x'), (1, 'y')):
            if widened[i]:    # symmetric
                a = ext0[i][0] - dout[c][0]
                b = dout[c][1] - ext0[i][1]
                if abs(a - b) > 1e-6:
                    notes.append(f"{c}-extent not widened symmetrically")
    if dout is not None and widened[2]:
        a = ext0[2][0] - dout['z'][0]
        b = dout['z'][1] - ext0[2][1]
        if b <= 0 or abs(a/b - 9.0) > 1e-6:
            notes.append("z-extent not widened 9 parts down, 1 part up")
    return {"given": sorted(k for k in given), "vecstr": vecstr,
            "prov": prov, "out": cls, "dom": dom_cls, "widened": widened,
            "obs": not notes, "notes": notes, "seed": seed}


def jsonable(o):
    import numpy as np
    if isinstance(o, dict):
        return {k: jsonable(v) for k, v in o.items()}
    if isinstance(o, (list, tuple)):
        return [jsonable(v) for v in o]
    if isinstance(o, np.ndarray):
        return {"__nd__": o.tolist()}
    if isinstance(o, (np.floating, np.integer)):
        return o.item()
    return o


def unjson(o, top=True):
    import numpy as np
    if isinstance(o, dict):
        if "__nd__" in o:
            return np.array(o["__nd__"])
        return {k: unjson(v, False) for k, v in o.items()}
    if isinstance(o, list):
        return [unjson(v, False) for v in o]
    return o


def cfg_for(nnx):
    return (f"SPECIFICATION TraceSpec\nCONSTANTS NNX = {nnx} MaxA = 1000 "
            "Deviations = {}\nCONSTRAINT Accept\nPOSTCONDITION Post\n"
            "CHECK_DEADLOCK FALSE\n")


def run(tier, replay=None):
    rep = C.Report("C16", tier, level="exploration")
    rng = random.Random(C.seed())
    rep.assumptions += [
        "partial: whether a candidate fits and the widths themselves are "
        "real arithmetic (environment of the specification); TLC decides "
        "the search protocol and evaluates the postconditions, which the "
        "harness computes from the returned origin/widths with its own "
        "reading of the documented routing, skin depth, wavelength and "
        "buffer rules (tolerance 1e-9 of the extent)",
        "'if no such mesh exists an error is raised' is decided relative to "
        "the candidates the search enumerates (every permitted cell number "
        "and every stretching tried before failing); no independent search "
        "for a mesh is made",
        "estimate_gridding_opts: the origin of every returned value is "
        "classified by comparison with the given value and with the "
        "harness's own estimates (documentation); the property of the source "
        "cell is only required to lie in the model's range"]
    res = C.run_tlc("Gridding", "Gridding.cfg", coverage=True, timeout=1200)
    if C.expect_tlc_ok(rep, "Gridding: 4 cell numbers, <= 3 candidates per "
                       "stretching loop, direct and three directions", res,
                       "C16"):
        C.check_coverage(res, ["SurveyCall", "CompCall", "Return", "Fail",
                               "NextDir", "Finish"], "Gridding")
    rep.cov["exhaustive"] = True
    dev = C.run_tlc("Gridding", "Gridding_dev.cfg", timeout=600)
    C.tlc_must_run(dev, "Gridding_dev")
    rep.canary(dev.violated == "FailsLoudly")
    if dev.violated != "FailsLoudly":
        raise C.MachineryError("TLC did not find the GiveUpEarly deviation")
    if replay:
        with open(replay) as f:
            jobs = [unjson(json.load(f)["case"]["job"])]
    else:
        jobs = gen_inputs(rng, 240 if tier == "quick" else 4000)
    with mp.get_context("fork").Pool(C.NCPU) as pool:
        results = pool.map(_job, jobs, chunksize=4)
    fatal = [r for r in results if "fatal" in r]
    if fatal:
        raise C.MachineryError(fatal[0]["fatal"])
    groups = {}
    for k, r in enumerate(results):
        groups.setdefault(r["nnx"], []).append(k)
        for n in r["notes"]:
            rep.violation(f"C16:compose:{n}:job{jobs[k]['id']}", n,
                          {"job": jsonable(jobs[k])})
    nbad = 0
    for nnx, idx in sorted(groups.items()):
        bad = dict(C.validate_batch(
            rep, "TraceGridding", "TraceGridding.cfg",
            [results[k]["trace"] for k in idx], f"impl nnx={nnx}",
            cfg_text=cfg_for(nnx)))
        nbad += len(bad)
        for i, why in sorted(bad.items()):
            k = idx[i]
            t = results[k]["trace"]
            inp = jobs[k]["inp"]
            failing = [e for e in t["ev"] if e["e"] == "Ret" and
                       not all(e["post"].values())]
            rep.violation(
                f"C16:trace:{why}:{jobs[k]['mode']};f={inp['frequency']};"
                f"map={inp['mapping']};nprops="
                f"{len(inp['properties']) if isinstance(inp['properties'], list) else 1};"
                f"job{jobs[k]['id']}",
                f"recorded gridding is not accepted by Gridding ({why}); "
                f"events {len(t['ev'])}; postconditions "
                f"{[e['post'] for e in failing][:2]}; geometry "
                f"{results[k]['geo']}",
                {"job": jsonable(jobs[k]), "trace": t})
    rep.add_traces(len(results) - nbad)
    # ---- estimate_gridding_opts
    res = C.run_tlc("GridOpts", "GridOpts.cfg", timeout=300)
    C.expect_tlc_ok(rep, "GridOpts: decision table of estimate_gridding_opts, "
                    "all combinations of given keys and provenances", res,
                    "C16")
    if replay:
        gseeds = []
    else:
        gseeds = [rng.randrange(10**6)
                  for _ in range(300 if tier == "quick" else 5000)]
    with mp.get_context("fork").Pool(C.NCPU) as pool:
        ginst = pool.map(_gopts_inst, gseeds, chunksize=8)
    for x in ginst:
        if x.get("skip") and not x["ok"]:
            rep.violation(f"C16:gopts:unknown-key:seed={x['seed']}",
                          "estimate_gridding_opts accepted an unknown key "
                          "(or failed on a valid input)", x)
    gi = [x for x in ginst if not x.get("skip")]
    gbad = dict(C.validate_batch(
        rep, "GridOptsCode", "GridOptsCode.cfg",
        [{k: x[k] for k in ("given", "vecstr", "prov", "out", "dom",
                            "widened", "obs")} for x in gi], "gopts"))
    rep.add_traces(len(gi) - len(gbad))
    for i, why in sorted(gbad.items()):
        x = gi[i]
        rep.violation(
            f"C16:gopts:{why}:given={'+'.join(x['given'])};prov="
            f"{'/'.join(x['prov'])};seed={x['seed']}",
            f"estimate_gridding_opts: {why}; origin of the returned values "
            f"{x['out']}, domain {x['dom']}, widened {x['widened']}; "
            f"{x['notes']}", x)
    rep.cov["estimate_gridding_opts_instances"] = len(gi)
    if gi:
        rep.sample({k: gi[0][k] for k in ("given", "prov", "out", "dom")})
    ends = [r["trace"]["ev"][-1]["what"] for r in results]
    rep.cov["evaluations"] = len(results)
    rep.cov["distinct_nontrivial"] = len({json.dumps(r["trace"]["ev"][:40])
                                          for r in results
                                          if len(r["trace"]["ev"]) > 4})
    rep.cov["rule"] = ("one trace per construct_mesh / origin_and_widths "
                       "call on random inputs in every accepted format; "
                       "non-trivial = more than one candidate tried; "
                       "distinct = different event sequences")
    rep.cov["calls_returning_mesh"] = ends.count("mesh")
    rep.cov["calls_failing_loudly"] = ends.count("error")
    rep.cov["stretch_calls_recorded"] = sum(r["ncalls"] for r in results)
    k = rng.randrange(len(jobs))
    rep.sample({"input": jsonable(jobs[k]["inp"]),
                "events_first_10": results[k]["trace"]["ev"][:10],
                "events_last_3": results[k]["trace"]["ev"][-3:]})
    if not replay:
        if ends.count("mesh") < 20 or ends.count("error") < 3:
            raise C.MachineryError(f"inputs not diverse: {ends.count('mesh')}"
                                   f" meshes, {ends.count('error')} errors")
        import copy
        good = [r for r in results if r["nnx"] == 18 and
                r["trace"]["ev"][-1]["what"] == "mesh" and
                len(r["trace"]["ev"]) > 8]
        muts = []
        t = copy.deepcopy(good[0]["trace"])      # coverage postcondition
        [e for e in t["ev"] if e["e"] == "Ret"][0]["post"]["cover"] = False
        muts.append(t)
        t = copy.deepcopy(good[1]["trace"])      # a candidate skipped
        k = [i for i, e in enumerate(t["ev"]) if e["e"] == "S"][0]
        del t["ev"][k]
        muts.append(t)
        t = copy.deepcopy(good[2]["trace"])      # not the candidate's widths
        [e for e in t["ev"] if e["e"] == "Ret"][-1]["same"] = False
        muts.append(t)
        t = copy.deepcopy(good[3]["trace"])      # buffer not from the survey
        [e for e in t["ev"] if e["e"] == "C"][0]["chained"] = False
        muts.append(t)
        t = copy.deepcopy(good[4]["trace"])      # a mesh reported as error
        t["ev"][-1]["what"] = "error"
        muts.append(t)
        t = copy.deepcopy(good[5]["trace"])      # gave up without trying all
        k = [i for i, e in enumerate(t["ev"]) if e["e"] == "Ret"][0]
        t["ev"][k] = {"e": "None" if t["mode"] == "mesh" else "Raise"}
        t["ev"][-1]["what"] = "error"
        muts.append(t)
        cb = {b[0] for b in C.validate_batch(
            rep, "TraceGridding", "TraceGridding.cfg", muts, "canaries",
            count=False, cfg_text=cfg_for(18))}
        for i in range(len(muts)):
            rep.canary(i in cb)
        if len(cb) != len(muts):
            raise C.MachineryError("canary traces accepted: " + str(
                sorted(set(range(len(muts))) - cb)))
        gg = [x for i, x in enumerate(gi) if i not in gbad]
        gm = []
        x = copy.deepcopy({k: gg[0][k] for k in (
            "given", "vecstr", "prov", "out", "dom", "widened", "obs")})
        x["out"]["frequency"] = "other"
        gm.append(x)                       # frequency neither given nor mean
        x = copy.deepcopy({k: gg[1][k] for k in (
            "given", "vecstr", "prov", "out", "dom", "widened", "obs")})
        x["dom"][0] = "survey" if x["dom"][0] != "survey" else "given"
        gm.append(x)                       # domain priority violated
        cb = {b[0] for b in C.validate_batch(
            rep, "GridOptsCode", "GridOptsCode.cfg", gm, "canaries",
            count=False)}
        for i in range(len(gm)):
            rep.canary(i in cb)
        if len(cb) != len(gm):
            raise C.MachineryError("gopts canaries accepted")
    return rep.finish()
