"""C16 - automatic gridding meets its stated postconditions or fails loudly.

1. TLC checks Gridding.tla exhaustively (3 permitted cell numbers, up to 2
   stretching candidates per loop, direct call and construct_mesh with three
   directions): FirstFit, FailsLoudly, Ascending, Chained, ThreeDirs,
   NeverMeshWithoutFit, termination; the deviation GiveUpEarly must be found.
2. Real meshes.construct_mesh / origin_and_widths calls over random inputs in
   every accepted format are recorded (meshes._stretch and
   meshes.origin_and_widths wrapped at run time): every candidate tried, in
   order, with its outcome; TLC validates each recorded search against
   Gridding (first fit returned, nothing skipped, failure only after
   everything was tried, buffer grown from the survey-domain result).  The
   Ret event carries the postconditions of C16 evaluated by the harness on the
   RETURNED origin and widths with the harness's own routing of the
   per-direction arguments and its own skin-depth / wavelength / buffer
   formulas taken from the documentation; TLC evaluates them as invariants.
"""
import json
import math
import multiprocessing as mp
import random
import warnings

from . import common as C

MU0 = 4e-7*math.pi
MAPS = ["Conductivity", "Resistivity", "LgConductivity", "LgResistivity",
        "LnConductivity", "LnResistivity"]
DEFAULT_NX = [16, 24, 32, 40, 48, 64, 80, 96, 128, 160, 192, 256, 320, 384,
              512, 640, 768, 1024]


def to_cond(mapping, p):
    return {"Conductivity": lambda x: x, "Resistivity": lambda x: 1.0/x,
            "LgConductivity": lambda x: 10.0**x,
            "LgResistivity": lambda x: 10.0**(-x),
            "LnConductivity": math.exp,
            "LnResistivity": lambda x: math.exp(-x)}[mapping](p)


def from_cond(mapping, c):
    return {"Conductivity": lambda x: x, "Resistivity": lambda x: 1.0/x,
            "LgConductivity": math.log10,
            "LgResistivity": lambda x: -math.log10(x),
            "LnConductivity": math.log,
            "LnResistivity": lambda x: -math.log(x)}[mapping](c)


def skin(f, cond):
    d = 1.0/math.sqrt(math.pi*abs(f)*cond*MU0)
    return d/math.sqrt(2*math.pi) if f < 0 else d


# --------------------------------------------------------------------------
# the documented routing of construct_mesh arguments to the directions
# --------------------------------------------------------------------------
def per_dir(value, scalar_ok=True):
    """value -> [x, y, z] following the documented formats."""
    import numpy as np
    if value is None:
        return [None]*3
    if isinstance(value, dict):
        return [value['x'], value['y'], value['z']]
    if isinstance(value, np.ndarray):
        return [value]*3
    if isinstance(value, (bool, int, float)):
        return [value]*3
    if len(value) == 3:
        return list(value)
    return [value]*3


def route(inp):
    """Per-direction parameters as the documentation of construct_mesh
    describes them (harness's own reading, independent of the code)."""
    import numpy as np
    p = [to_cond(inp["mapping"], x) for x in np.atleast_1d(inp["properties"])]
    n = len(p)
    if n == 1:
        pr = [(p[0], p[0], p[0])]*3
    elif n == 2:
        pr = [(p[0], p[1], p[1])]*3
    elif n == 3:
        pr = [(p[0], p[2], p[2]), (p[0], p[2], p[2]), (p[0], p[1], p[2])]
    elif n == 4:
        pr = [(p[0], p[1], p[1]), (p[0], p[1], p[1]), (p[0], p[2], p[3])]
    else:
        pr = [(p[0], p[1], p[2]), (p[0], p[3], p[4]), (p[0], p[5], p[6])]
    dom = per_dir(inp.get("domain"))
    dist = per_dir(inp.get("distance"))
    vec = per_dir(inp.get("vector"))
    st = per_dir(inp.get("stretching")) if inp.get("stretching") is not None \
        else [None]*3
    lim = per_dir(inp.get("min_width_limits"))
    pps = per_dir(inp.get("min_width_pps"))
    coe = per_dir(inp.get("center_on_edge"))
    out = []
    for d in range(3):
        out.append(dict(
            center=float(inp["center"][d]), props=pr[d],
            domain=dom[d], distance=dist[d], vector=vec[d],
            seasurface=inp.get("seasurface") if d == 2 else None,
            stretching=list(st[d]) if st[d] is not None else [1.0, 1.5],
            limits=lim[d], pps=3 if pps[d] is None else pps[d],
            coe=coe[d]))
    return out


def postconditions(inp, q, x0, hx, warned):
    """The postconditions of C16 for one direction.  q: routed parameters of
    that direction; x0, hx: what the code returned."""
    import numpy as np
    f = inp["frequency"]
    hx = np.asarray(hx, dtype=float)
    nodes = x0 + np.r_[0.0, np.cumsum(hx)]
    ext = nodes[-1] - nodes[0]
    tol = 1e-9*max(abs(ext), 1.0)
    c = q["center"]
    vec = None if q["vector"] is None else np.asarray(q["vector"], float)
    # survey domain: domain > distance > vector; sea surface included
    if q["domain"] is not None:
        ds = [float(q["domain"][0]), float(q["domain"][1])]
    elif q["distance"] is not None:
        ds = [c - abs(q["distance"][0]), c + abs(q["distance"][1])]
    else:
        ds = [float(vec.min()), float(vec.max())]
    ds_user = list(ds)      # the vector is trimmed to the domain as given
    sea = q["seasurface"]
    if sea is not None:
        ds[1] = max(ds[1], sea)
    lam = [2*math.pi*skin(f, q["props"][1]), 2*math.pi*skin(f, q["props"][2])]
    lf = inp.get("lambda_factor", 1.0)
    mb = inp.get("max_buffer", 100000)
    if inp.get("lambda_from_center", False):
        dc = []
        for k, sgn in ((0, -1), (1, 1)):
            ind = abs(ds[k] - c)
            buf = max(0.0, (2*lf*lam[k] - ind)/2)
            dc.append(ds[k] + sgn*buf)
        dc[0] = max(dc[0], c - mb)
        dc[1] = min(dc[1], c + mb)
    else:
        dc = [ds[0] - min(lf*lam[0], mb), ds[1] + min(lf*lam[1], mb)]
    lo, hi = min(ds[0], dc[0]), max(ds[1], dc[1])
    post = {}
    post["count"] = int(hx.size) in set(int(x) for x in inp["cell_numbers"])
    post["positive"] = bool(np.all(np.isfinite(hx)) and np.all(hx > 0)
                            and math.isfinite(x0))
    post["cover"] = bool(nodes[0] <= lo + tol and nodes[-1] >= hi - tol)
    # stretching between neighbours, outside a provided node vector
    smax = max(q["stretching"])*(1 + 1e-9)
    ok = True
    for i in range(hx.size - 1):
        if vec is not None and nodes[i] >= vec.min() - tol and \
                nodes[i+2] <= vec.max() + tol:
            continue            # both cells inside the user's own vector
        r = max(hx[i+1]/hx[i], hx[i]/hx[i+1])
        if r > smax:
            ok = False
    post["stretch"] = ok
    # centre on a node / on a cell centre as requested
    if vec is None and sea is None and q["coe"] is not None:
        if q["coe"]:
            post["center"] = bool(np.min(np.abs(nodes - c)) <= tol)
        else:
            cc = (nodes[1:] + nodes[:-1])/2
            post["center"] = bool(np.min(np.abs(cc - c)) <= tol)
    else:
        post["center"] = True
    # nodes of a provided vector inside the domain are nodes of the mesh
    post["vector"] = True
    if vec is not None:
        inside = vec[(vec >= ds_user[0]) & (vec <= ds_user[1])]
        if inside.size >= 3:     # documented: at least two cells in the domain
            post["vector"] = bool(all(np.min(np.abs(nodes - v)) <= tol
                                      for v in inside))
    # the sea surface is a node, or a warning says it is not
    post["sea"] = True
    if sea is not None:
        post["sea"] = bool(np.min(np.abs(nodes - sea)) <= 1e-6*max(
            1.0, abs(sea)) or warned)
    return post, {"ds": ds, "dc": dc}


# --------------------------------------------------------------------------
# recording
# --------------------------------------------------------------------------
def _record(job):
    import numpy as np
    from emg3d import meshes
    inp = job["inp"]
    ev = []
    state = {"nxs": sorted(set(int(x) for x in inp["cell_numbers"])),
             "lastS": None, "lastSout": None, "lastC": None, "lastCout": None,
             "st": None, "d": 0, "sea_warn": False, "results": {}}
    orig_stretch, orig_oaw = meshes._stretch, meshes.origin_and_widths

    def stretch(edges, widths, stretching, nx, domain, use_up=False):
        out = orig_stretch(edges, widths, stretching, nx, domain, use_up)
        ok = out[2] is not False
        nxi = state["nxs"].index(int(nx)) + 1 if int(nx) in state["nxs"] else 0
        s0, s1 = state["st"]
        a = float(stretching)
        if not use_up:
            prev = state["lastS"]
            e = {"e": "S", "i": nxi, "first": a == 1.0,
                 "last": bool(a == s0 or s0 - 1.0 < 0.002),
                 "mono": bool(prev is not None and prev[0] == nxi
                              and a > prev[1]), "ok": bool(ok)}
            state["lastS"] = (nxi, a)
            state["lastC"] = None
            if ok:
                state["lastSout"] = (np.array(out[0], dtype=float),
                                     np.array(out[1], dtype=float))
        else:
            sa = state["lastS"][1] if state["lastS"] else None
            prev = state["lastC"]
            so = state["lastSout"]
            chained = so is not None and np.array_equal(
                np.asarray(edges, dtype=float), so[0]) and np.array_equal(
                np.atleast_1d(np.asarray(widths, dtype=float)), so[1])
            e = {"e": "C", "i": nxi, "first": bool(a == sa),
                 "last": bool(a == s1 or s1 - sa < 0.002),
                 "mono": bool(prev is not None and a > prev), "ok": bool(ok),
                 "chained": bool(chained)}
            state["lastC"] = a
            if ok:
                state["lastCout"] = (float(out[0][0]),
                                     np.array(out[1], dtype=float))
        ev.append(e)
        return out

    def oaw(*args, **kw):
        state["d"] += 1
        d = state["d"]
        st = kw.get("stretching", [1.0, 1.5])
        state["st"] = (float(st[0]), float(st[1]))
        state.update(lastS=None, lastSout=None, lastC=None, lastCout=None)
        if job["mode"] == "mesh":
            ev.append({"e": "Dir", "d": d})
        with warnings.catch_warnings(record=True) as w:
            warnings.simplefilter("always")
            try:
                out = orig_oaw(*args, **kw)
            except RuntimeError as e:
                if "No suitable grid" in str(e):
                    ev.append({"e": "Raise"})
                raise
        warned = any("Seasurface is not at an actual boundary" in
                     str(x.message) for x in w)
        x0, hx = out[0], out[1]
        if x0 is None:
            ev.append({"e": "None"})
        else:
            lc = state["lastCout"]
            same = lc is not None and float(x0) == lc[0] and \
                np.array_equal(np.asarray(hx, dtype=float), lc[1])
            state["results"][d] = (float(x0), np.array(hx, dtype=float),
                                   warned)
            ev.append({"e": "Ret", "same": bool(same), "post": None, "d": d})
        return out

    meshes._stretch, meshes.origin_and_widths = stretch, oaw
    what, err, mesh = "mesh", None, None
    try:
        with warnings.catch_warnings():
            warnings.simplefilter("ignore")
            kw = {k: v for k, v in inp.items() if k not in (
                "frequency", "properties", "center", "domain", "vector",
                "seasurface", "direction")}
            if job["mode"] == "mesh":
                mesh = meshes.construct_mesh(
                    inp["frequency"], inp["properties"], inp["center"],
                    domain=inp.get("domain"), vector=inp.get("vector"),
                    seasurface=inp.get("seasurface"), **kw)
            else:
                oaw(inp["frequency"], inp["properties"], inp["center"],
                    domain=inp.get("domain"), vector=inp.get("vector"),
                    seasurface=inp.get("seasurface"), **kw)
    except RuntimeError as e:
        if "No suitable grid" not in str(e):
            raise
        what = "error"
    finally:
        meshes._stretch, meshes.origin_and_widths = orig_stretch, orig_oaw
    ev.append({"e": "End", "what": what})
    # ---- postconditions on what was returned, with the harness's routing
    notes = []
    if job["mode"] == "mesh":
        qs = route(inp)
    else:
        p = [to_cond(inp["mapping"], x)
             for x in np.atleast_1d(inp["properties"])]
        pr = (p[0], p[min(len(p)-1, 1)], p[min(len(p)-1, 2)])
        qs = [dict(center=float(inp["center"]), props=pr,
                   domain=inp.get("domain"), distance=inp.get("distance"),
                   vector=inp.get("vector"), seasurface=inp.get("seasurface"),
                   stretching=list(inp.get("stretching", [1.0, 1.5])),
                   limits=inp.get("min_width_limits"),
                   pps=inp.get("min_width_pps", 3),
                   coe=inp.get("center_on_edge"))]
    geo = {}
    for e in ev:
        if e["e"] == "Ret":
            d = e.pop("d")
            x0, hx, warned = state["results"][d]
            e["post"], geo[d] = postconditions(inp, qs[d-1], x0, hx, warned)
    if mesh is not None:
        # the mesh is made of exactly the three returned directions
        for d in range(3):
            r = state["results"].get(d+1)
            if r is None or not np.array_equal(mesh.h[d], r[1]) or \
                    mesh.origin[d] != r[0]:
                notes.append(f"mesh direction {d} differs from what "
                             f"origin_and_widths returned")
    ncalls = sum(1 for e in ev if e["e"] in ("S", "C"))
    return {"trace": {"mode": job["mode"], "ev": rle(ev)},
            "nnx": len(state["nxs"]), "ncalls": ncalls,
            "notes": notes, "geo": {str(k): v for k, v in geo.items()}}


def rle(ev):
    """Run-length encode identical calls in the middle of a loop (not first,
    not last, did not fit): they leave the specification's state as it is."""
    out = []
    for e in ev:
        mid = e["e"] in ("S", "C") and not e["first"] and not e["last"] \
            and not e["ok"] and e["mono"] and e.get("chained", True)
        if mid and out and out[-1].get("_mid") and \
                all(out[-1].get(k) == v for k, v in e.items()):
            out[-1]["rep"] += 1
        else:
            e2 = dict(e)
            if e["e"] in ("S", "C"):
                e2["rep"] = 1
            e2["_mid"] = mid
            out.append(e2)
    for e in out:
        del e["_mid"]
    return out


def _job(job):
    try:
        return _record(job)
    except Exception as e:  # noqa
        import traceback
        return {"fatal": f"{type(e).__name__}: {e}\n{traceback.format_exc()}",
                "job": job}


# --------------------------------------------------------------------------
# inputs
# --------------------------------------------------------------------------
def gen_inputs(rng, n):
    import numpy as np
    jobs = []
    for i in range(n):
        mapping = MAPS[i % 6]
        f = rng.choice([0.05, 0.3, 1.0, 2.5, 10.0, 77.0])
        if rng.random() < 0.25:
            f = -f
        npr = [1, 2, 3, 4, 7][i % 5]
        props = [from_cond(mapping, 10**rng.uniform(-2.5, 0.5))
                 for _ in range(npr)]
        if npr >= 3 and rng.random() < 0.4:     # air above
            props[-1] = from_cond(mapping, 10**rng.uniform(-8, -6))
        if npr == 1 and rng.random() < 0.5:
            props = props[0]
        center = [rng.uniform(-500, 500), rng.uniform(-500, 500),
                  rng.uniform(-1500, -200)]
        inp = {"frequency": f, "properties": props, "center": center,
               "mapping": mapping}
        # survey domain per direction: domain / distance / vector
        kinds = [rng.choice(["domain", "distance", "vector", "both"])
                 for _ in range(3)]
        dom, dist, vec = [None]*3, [None]*3, [None]*3
        for d in range(3):
            c = center[d]
            a, b = rng.uniform(200, 4000), rng.uniform(200, 4000)
            if kinds[d] in ("domain", "both"):
                dom[d] = [c - a, c + b]
            if kinds[d] == "distance":
                dist[d] = [a, b]
            if kinds[d] in ("vector", "both"):
                w = rng.choice([25.0, 50.0, 100.0])
                k0, k1 = rng.randint(2, 8), rng.randint(2, 8)
                v = c + w*np.arange(-k0, k1+1)
                if rng.random() < 0.3:
                    v = c + 7.0 + w*np.arange(-k0, k1+1)   # centre off-node
                if rng.random() < 0.4:
                    # non-uniform node vector (as taken from a model grid)
                    ws = [w*rng.choice([0.5, 1.0, 1.0, 1.5, 2.0])
                          for _ in range(k0 + k1)]
                    v = c - sum(ws[:k0]) + np.r_[0.0, np.cumsum(ws)]
                vec[d] = v
                if kinds[d] == "both" and rng.random() < 0.5 and v.size >= 7:
                    # survey domain limited by nodes of that vector, with
                    # further vector nodes outside of it
                    i0 = rng.randint(1, 2)
                    i1 = v.size - 1 - rng.randint(1, 2)
                    dom[d] = [float(v[i0]), float(v[i1])]
        fmt = rng.choice(["tuple", "dict"])

        def pack(v3):
            if all(x is None for x in v3):
                return None
            if fmt == "dict":
                return {'x': v3[0], 'y': v3[1], 'z': v3[2]}
            return tuple(v3)
        inp["domain"], inp["vector"] = pack(dom), pack(vec)
        if pack(dist) is not None:
            inp["distance"] = pack(dist)
        r = rng.random()
        if r < 0.3:
            inp["stretching"] = rng.choice([[1.0, 1.5], [1.05, 1.3],
                                            [1.1, 2.0], [1.2, 1.2],
                                            [1.0, 1.1]])
        elif r < 0.45:
            inp["stretching"] = ([1.0, 1.5], [1.1, 1.4], [1.05, 1.8])
        elif r < 0.55:
            inp["stretching"] = {'x': [1.0, 1.3], 'y': [1.02, 1.5],
                                 'z': [1.1, 1.6]}
        r = rng.random()
        if r < 0.15:
            inp["min_width_limits"] = rng.choice([20.0, 50.0, 100.0])
        elif r < 0.35:
            inp["min_width_limits"] = [rng.choice([5.0, 20.0]),
                                       rng.choice([60.0, 200.0])]
        elif r < 0.45:
            inp["min_width_limits"] = ([10.0, 100.0], None, 40.0)
        if rng.random() < 0.3:
            inp["min_width_pps"] = rng.choice([2, 4, 5, (2, 3, 5)])
        if rng.random() < 0.3:
            inp["lambda_factor"] = rng.choice([0.5, 0.8, 2.0])
        if rng.random() < 0.3:
            inp["max_buffer"] = rng.choice([1000.0, 5000.0, 30000.0])
        if rng.random() < 0.3:
            inp["lambda_from_center"] = True
        r = rng.random()
        if r < 0.35:
            inp["center_on_edge"] = rng.random() < 0.5
        elif r < 0.55:
            inp["center_on_edge"] = (True, False, rng.random() < 0.5)
        elif r < 0.7:
            inp["center_on_edge"] = {'x': False, 'y': True, 'z': False}
        if rng.random() < 0.3:
            inp["seasurface"] = center[2] + rng.choice([60.0, 333.0, 1000.0,
                                                        2500.0])
        r = rng.random()
        if r < 0.6:
            inp["cell_numbers"] = list(DEFAULT_NX)
        elif r < 0.8:
            inp["cell_numbers"] = [8, 16, 32, 64, 128, 256]
        elif r < 0.9:
            inp["cell_numbers"] = [20, 40, 80, 10, 40]       # unsorted, dup
        else:
            inp["cell_numbers"] = [8, 12, 16]               # may not fit
        mode = "mesh"
        if i % 4 == 3:
            # a direct call of origin_and_widths for one direction
            mode = "direct"
            d = rng.randrange(3)
            q = route(inp)[d]
            one = {"frequency": f, "center": center[d], "mapping": mapping,
                   "cell_numbers": inp["cell_numbers"],
                   "properties": [from_cond(mapping, x) for x in q["props"]][
                       :rng.choice([1, 2, 3])],
                   "domain": q["domain"], "vector": q["vector"],
                   "seasurface": q["seasurface"],
                   "stretching": q["stretching"]}
            if q["distance"] is not None:
                one["distance"] = q["distance"]
            if q["limits"] is not None:
                one["min_width_limits"] = q["limits"]
            one["min_width_pps"] = q["pps"]
            if q["coe"] is not None:
                one["center_on_edge"] = q["coe"]
            for k in ("lambda_factor", "max_buffer", "lambda_from_center"):
                if k in inp:
                    one[k] = inp[k]
            inp = one
        jobs.append({"mode": mode, "inp": inp, "id": i})
    return jobs


def jsonable(o):
    import numpy as np
    if isinstance(o, dict):
        return {k: jsonable(v) for k, v in o.items()}
    if isinstance(o, (list, tuple)):
        return [jsonable(v) for v in o]
    if isinstance(o, np.ndarray):
        return {"__nd__": o.tolist()}
    if isinstance(o, (np.floating, np.integer)):
        return o.item()
    return o


def unjson(o, top=True):
    import numpy as np
    if isinstance(o, dict):
        if "__nd__" in o:
            return np.array(o["__nd__"])
        return {k: unjson(v, False) for k, v in o.items()}
    if isinstance(o, list):
        return [unjson(v, False) for v in o]
    return o


def cfg_for(nnx):
    return (f"SPECIFICATION TraceSpec\nCONSTANTS NNX = {nnx} MaxA = 1000 "
            "Deviations = {}\nCONSTRAINT Accept\nPOSTCONDITION Post\n"
            "CHECK_DEADLOCK FALSE\n")


def run(tier, replay=None):
    rep = C.Report("C16", tier, level="exploration")
    rng = random.Random(C.seed())
    rep.assumptions += [
        "partial: whether a candidate fits and the widths themselves are "
        "real arithmetic (environment of the specification); TLC decides "
        "the search protocol and evaluates the postconditions, which the "
        "harness computes from the returned origin/widths with its own "
        "reading of the documented routing, skin depth, wavelength and "
        "buffer rules (tolerance 1e-9 of the extent)",
        "'if no such mesh exists an error is raised' is decided relative to "
        "the candidates the search enumerates (every permitted cell number "
        "and every stretching tried before failing); no independent search "
        "for a mesh is made",
        "estimate_gridding_opts is not covered"]
    res = C.run_tlc("Gridding", "Gridding.cfg", coverage=True, timeout=1200)
    if C.expect_tlc_ok(rep, "Gridding: 4 cell numbers, <= 3 candidates per "
                       "stretching loop, direct and three directions", res,
                       "C16"):
        C.check_coverage(res, ["SurveyCall", "CompCall", "Return", "Fail",
                               "NextDir", "Finish"], "Gridding")
    rep.cov["exhaustive"] = True
    dev = C.run_tlc("Gridding", "Gridding_dev.cfg", timeout=600)
    C.tlc_must_run(dev, "Gridding_dev")
    rep.canary(dev.violated == "FailsLoudly")
    if dev.violated != "FailsLoudly":
        raise C.MachineryError("TLC did not find the GiveUpEarly deviation")
    if replay:
        with open(replay) as f:
            jobs = [unjson(json.load(f)["case"]["job"])]
    else:
        jobs = gen_inputs(rng, 240 if tier == "quick" else 4000)
    with mp.get_context("fork").Pool(C.NCPU) as pool:
        results = pool.map(_job, jobs, chunksize=4)
    fatal = [r for r in results if "fatal" in r]
    if fatal:
        raise C.MachineryError(fatal[0]["fatal"])
    groups = {}
    for k, r in enumerate(results):
        groups.setdefault(r["nnx"], []).append(k)
        for n in r["notes"]:
            rep.violation(f"C16:compose:{n}:job{jobs[k]['id']}", n,
                          {"job": jsonable(jobs[k])})
    nbad = 0
    for nnx, idx in sorted(groups.items()):
        bad = dict(C.validate_batch(
            rep, "TraceGridding", "TraceGridding.cfg",
            [results[k]["trace"] for k in idx], f"impl nnx={nnx}",
            cfg_text=cfg_for(nnx)))
        nbad += len(bad)
        for i, why in sorted(bad.items()):
            k = idx[i]
            t = results[k]["trace"]
            inp = jobs[k]["inp"]
            failing = [e for e in t["ev"] if e["e"] == "Ret" and
                       not all(e["post"].values())]
            rep.violation(
                f"C16:trace:{why}:{jobs[k]['mode']};f={inp['frequency']};"
                f"map={inp['mapping']};nprops="
                f"{len(inp['properties']) if isinstance(inp['properties'], list) else 1};"
                f"job{jobs[k]['id']}",
                f"recorded gridding is not accepted by Gridding ({why}); "
                f"events {len(t['ev'])}; postconditions "
                f"{[e['post'] for e in failing][:2]}; geometry "
                f"{results[k]['geo']}",
                {"job": jsonable(jobs[k]), "trace": t})
    rep.add_traces(len(results) - nbad)
    ends = [r["trace"]["ev"][-1]["what"] for r in results]
    rep.cov["evaluations"] = len(results)
    rep.cov["distinct_nontrivial"] = len({json.dumps(r["trace"]["ev"][:40])
                                          for r in results
                                          if len(r["trace"]["ev"]) > 4})
    rep.cov["rule"] = ("one trace per construct_mesh / origin_and_widths "
                       "call on random inputs in every accepted format; "
                       "non-trivial = more than one candidate tried; "
                       "distinct = different event sequences")
    rep.cov["calls_returning_mesh"] = ends.count("mesh")
    rep.cov["calls_failing_loudly"] = ends.count("error")
    rep.cov["stretch_calls_recorded"] = sum(r["ncalls"] for r in results)
    k = rng.randrange(len(jobs))
    rep.sample({"input": jsonable(jobs[k]["inp"]),
                "events_first_10": results[k]["trace"]["ev"][:10],
                "events_last_3": results[k]["trace"]["ev"][-3:]})
    if not replay:
        if ends.count("mesh") < 20 or ends.count("error") < 3:
            raise C.MachineryError(f"inputs not diverse: {ends.count('mesh')}"
                                   f" meshes, {ends.count('error')} errors")
        import copy
        good = [r for r in results if r["nnx"] == 18 and
                r["trace"]["ev"][-1]["what"] == "mesh" and
                len(r["trace"]["ev"]) > 8]
        muts = []
        t = copy.deepcopy(good[0]["trace"])      # coverage postcondition
        [e for e in t["ev"] if e["e"] == "Ret"][0]["post"]["cover"] = False
        muts.append(t)
        t = copy.deepcopy(good[1]["trace"])      # a candidate skipped
        k = [i for i, e in enumerate(t["ev"]) if e["e"] == "S"][0]
        del t["ev"][k]
        muts.append(t)
        t = copy.deepcopy(good[2]["trace"])      # not the candidate's widths
        [e for e in t["ev"] if e["e"] == "Ret"][-1]["same"] = False
        muts.append(t)
        t = copy.deepcopy(good[3]["trace"])      # buffer not from the survey
        [e for e in t["ev"] if e["e"] == "C"][0]["chained"] = False
        muts.append(t)
        t = copy.deepcopy(good[4]["trace"])      # a mesh reported as error
        t["ev"][-1]["what"] = "error"
        muts.append(t)
        t = copy.deepcopy(good[5]["trace"])      # gave up without trying all
        k = [i for i, e in enumerate(t["ev"]) if e["e"] == "Ret"][0]
        t["ev"][k] = {"e": "None" if t["mode"] == "mesh" else "Raise"}
        t["ev"][-1]["what"] = "error"
        muts.append(t)
        cb = {b[0] for b in C.validate_batch(
            rep, "TraceGridding", "TraceGridding.cfg", muts, "canaries",
            count=False, cfg_text=cfg_for(18))}
        for i in range(len(muts)):
            rep.canary(i in cb)
        if len(cb) != len(muts):
            raise C.MachineryError("canary traces accepted: " + str(
                sorted(set(range(len(muts))) - cb)))
    return rep.finish()
