"""C15 - volume averaging between grids conserves the integrated property.

1. TLC checks on the reference (interval overlap with nearest-value
   extension) for ALL pairs of 1-D grids with integer nodes in 0..MaxNode:
   row sums = output widths (convex combination: range), conservation on
   equal regions, identity on equal grids, nearest value outside.
2. The REAL emg3d.maps._volume_average_weights is run on all those pairs and
   TLC checks its segments against the reference; the matrix of the REAL 3-D
   interpolate(method='volume') and of discretize.utils.volume_average (whose
   transpose the gradient uses) are extracted by basis vectors on sampled 3-D
   grid pairs and checked entry by entry by TLC; log mode and the
   resistivity/conductivity symmetry are observed on top.
"""
import itertools
import json
import multiprocessing as mp
import random
from fractions import Fraction

from . import common as C


def grids(maxnode):
    out = []
    for m in range(2, maxnode + 2):
        for q in itertools.combinations(range(maxnode + 1), m):
            out.append(list(q))
    return out


def _w1d(pairs):
    import numpy as np
    from emg3d import maps
    out = []
    for xi, xo in pairs:
        w, ii, io = maps._volume_average_weights(
            np.array(xi, dtype=float), np.array(xo, dtype=float))
        seg = []
        for a, b, c in zip(w, ii, io):
            if a != int(a):
                seg.append([-1, int(b), int(c)])
            else:
                seg.append([int(a), int(b), int(c)])
        out.append({"kind": "w1d", "xi": xi, "xo": xo, "seg": seg})
    return out


def _m3d(job):
    import numpy as np
    import discretize
    import emg3d
    from emg3d import maps
    xi, xo, seed = job
    rng = np.random.default_rng(seed)
    gi = emg3d.TensorMesh([np.diff(a).astype(float) for a in xi],
                          [float(a[0]) for a in xi])
    go = emg3d.TensorMesh([np.diff(a).astype(float) for a in xo],
                          [float(a[0]) for a in xo])
    ni, no = gi.shape_cells, go.shape_cells
    same_grid = bool(gi == go)

    def entries(mat):
        ent = []
        bad = False
        for r, c in zip(*np.nonzero(mat)):
            f = Fraction(float(mat[r, c])).limit_denominator(100000)
            if abs(float(f) - mat[r, c]) > 1e-15*abs(mat[r, c]):
                bad = True
            j = np.unravel_index(r, no, order='F')
            i = np.unravel_index(c, ni, order='F')
            ent.append([int(j[0])+1, int(j[1])+1, int(j[2])+1, int(i[0])+1,
                        int(i[1])+1, int(i[2])+1, f.numerator, f.denominator])
        return ent, bad
    # matrix of the real interpolate(method='volume'): one basis value each
    M = np.zeros((int(np.prod(no)), int(np.prod(ni))))
    for c in range(M.shape[1]):
        v = np.zeros(ni, order='F')
        v[np.unravel_index(c, ni, order='F')] = 1.0
        out = maps.interpolate(gi, v, go, method='volume', extrapolate=True,
                               log=False)
        M[:, c] = out.ravel('F')
    e1, b1 = entries(M)
    obs = []
    # log mode: exp(volume average of log); resistivity <-> conductivity
    v = 10**rng.uniform(-4, 4, ni)
    lin = maps.interpolate(gi, v, go, method='volume', log=False)
    if not np.allclose(lin.ravel('F'), M @ v.ravel("F"), rtol=1e-13, atol=0):
        obs.append("not linear")
    lg = maps.interpolate(gi, v, go, method='volume', log=True)
    ref = 10**(M @ np.log10(v.ravel('F')))
    if not np.allclose(lg.ravel("F"), ref, rtol=1e-12, atol=0):
        obs.append("log mode is not 10**(average of log10)")
    lgi = maps.interpolate(gi, 1.0/v, go, method='volume', log=True)
    if not np.allclose(lgi, 1.0/lg, rtol=1e-12, atol=0):
        obs.append("log mode: resistivity and conductivity give different "
                   "models")
    # documented: volume averaging fills with the nearest values whatever
    # `extrapolate` says
    for lg_ in (False, True):
        a = maps.interpolate(gi, v, go, method='volume', log=lg_,
                             extrapolate=False)
        b = lg if lg_ else lin
        if not np.array_equal(a, b):
            obs.append(f"method='volume' depends on extrapolate (log={lg_})")
    if lin.min() < v.min()*(1-1e-13) or lin.max() > v.max()*(1+1e-13):
        obs.append("result leaves the range of the input values")
    # Model.interpolate_to_grid picks log mode from the mapping
    mc = emg3d.Model(gi, v, mapping='Conductivity').interpolate_to_grid(go)
    mr = emg3d.Model(gi, 1/v, mapping='Resistivity').interpolate_to_grid(go)
    try:
        mc2 = emg3d.Model(gi, v, mapping='Conductivity').interpolate_to_grid(
            go, extrapolate=False)
        if not np.array_equal(mc2.property_x, mc.property_x):
            obs.append("interpolate_to_grid depends on extrapolate")
    except ValueError as e:
        obs.append(f"interpolate_to_grid(extrapolate=False): {e}"[:120])
    if not same_grid:
        # options given to Model.interpolate_to_grid are honoured: linear
        # averaging on request is the matrix checked above
        ml = emg3d.Model(gi, v, mapping='Conductivity').interpolate_to_grid(
            go, log=False)
        if not np.allclose(ml.property_x.ravel('F'), M @ v.ravel('F'),
                           rtol=1e-13, atol=0):
            obs.append("interpolate_to_grid(log=False) is not the linear "
                       "volume average")
        # the result belongs to the CURRENT values of the model: edited in
        # place / through the setter after a first interpolation
        mdl = emg3d.Model(gi, v.copy(), mapping='Conductivity')
        _ = mdl.interpolate_to_grid(go)
        v2 = v*10**rng.uniform(-0.5, 0.5, ni)
        if seed % 2:
            mdl.property_x[...] = v2
        else:
            mdl.property_x = v2
        again = mdl.interpolate_to_grid(go)
        fresh = emg3d.Model(gi, v2, mapping='Conductivity'
                            ).interpolate_to_grid(go)
        if not np.array_equal(again.property_x, fresh.property_x):
            obs.append("interpolate_to_grid after an update of the model "
                       "returns the interpolation of the old values")
    if not np.allclose(mc.property_x, 1.0/mr.property_x, rtol=1e-12,
                       atol=0):
        obs.append("interpolate_to_grid differs between resistivity and "
                   "conductivity models")
    out = [{"kind": "m3d", "src": "emg3d", "xi": xi, "xo": xo, "ent": e1,
            "obs": not obs and not b1, "notes": obs}]
    # the operator whose transpose the gradient uses
    same_region = all(a[0] == b[0] and a[-1] == b[-1] for a, b in zip(xi, xo))
    P = discretize.utils.volume_average(gi, go).toarray()
    e2, b2 = entries(P)
    # _interp_volume_average_adj applies exactly P^T
    nval = rng.standard_normal((3, *no))
    oval = np.zeros((3, *ni))
    maps._interp_volume_average_adj(oval, gi, nval, go)
    adj_ok = all(np.allclose(oval[k].ravel('F'), P.T @ nval[k].ravel('F'),
                             rtol=1e-13, atol=1e-300) for k in range(3))
    # ... whatever pair of grids it was applied to before: a second pair
    # with the same cell counts, origin and extent but other widths, then
    # the first pair again
    gi2 = emg3d.TensorMesh([h[::-1].copy() for h in gi.h], gi.origin)
    go2 = emg3d.TensorMesh([h[::-1].copy() for h in go.h], go.origin)
    for a, b in ((gi2, go2), (gi, go)):
        Pab = discretize.utils.volume_average(a, b).toarray()
        ov = np.zeros((3, *ni))
        maps._interp_volume_average_adj(ov, a, nval, b)
        if not all(np.allclose(ov[k].ravel('F'), Pab.T @ nval[k].ravel('F'),
                               rtol=1e-13, atol=1e-300) for k in range(3)):
            adj_ok = False
        back = maps.interpolate(a, np.arange(1., a.n_cells+1).reshape(
            a.shape_cells, order='F'), b, method='volume', log=False)
        if not np.allclose(back.ravel('F'),
                           Pab @ np.arange(1., a.n_cells+1), rtol=1e-13,
                           atol=0):
            adj_ok = False
    out.append({"kind": "m3d", "src": "discretize", "xi": xi, "xo": xo,
                "ent": e2, "obs": adj_ok and not b2,
                "notes": [] if adj_ok else ["adjoint is not P^T"],
                "same_region": same_region})
    return out


def key_of(x):
    return f"{x['kind']}:{x.get('src', '')}:xi={x['xi']};xo={x['xo']}" + (f";seed={x['seed']}" if "seed" in x else "")


def _adj(seed):
    """Simulation.gradient through a computational grid of the SAME SHAPE as
    the model grid (other widths): <x, grad> = <P x, grad on the comp. grid>
    with P the linear volume average (whose matrix TLC checks above)."""
    import warnings
    warnings.filterwarnings("ignore")
    import numpy as np
    import emg3d
    from emg3d import maps
    from . import sens
    job = dict(seed=seed, case="isotropic", mapping="Conductivity",
               layout="1x2", src=["ed", "ed"], rec=["e", "m", "e"],
               rel=[False, False, False], obs="full", noise="scalar")
    case = sens.Case(job).prepare()
    notes = []
    sa = case.simulation(gridding="input")
    ga = np.asarray(sa.gradient)
    src, freq = sa._srcfreq[0]
    gridc = sa.get_grid(src, freq)
    if gridc.shape_cells != case.grid.shape_cells or gridc == case.grid:
        notes.append("harness: grids not of the same shape / not different")
    cm = sa.get_model(src, freq)
    sb = emg3d.Simulation(
        case.survey(), emg3d.Model(gridc, cm.property_x.copy(),
                                   mapping="Conductivity"),
        max_workers=1, gridding='same', receiver_interpolation='linear',
        tqdm_opts={'disable': True}, verb=-1,
        solver_opts={'tol': 1e-10, 'tol_gradient': 1e-10, 'maxit': 200,
                     'sslsolver': False, 'semicoarsening': True,
                     'linerelaxation': True})
    gb = np.asarray(sb.gradient)
    rng = np.random.default_rng(seed)
    for _ in range(4):
        x = rng.standard_normal(case.grid.shape_cells)
        px = maps.interpolate(case.grid, x, gridc, method='volume',
                              log=False, extrapolate=True)
        lhs, rhs = float(np.sum(x*ga)), float(np.sum(px*gb))
        if not abs(lhs - rhs) <= 1e-6*max(abs(lhs), abs(rhs)):
            notes.append(f"<x, gradient> = {lhs:.8e}, <P x, gradient on the "
                         f"computational grid> = {rhs:.8e}")
    return [{"kind": "adj", "obs": not notes, "notes": notes, "seed": seed,
             "xi": [], "xo": []}]


def for_tlc(x):
    return {k: v for k, v in x.items() if k not in ("notes", "same_region",
                                                    "src")}


def run(tier, replay=None):
    rep = C.Report("C15", tier)
    rng = random.Random(C.seed())
    rep.assumptions += [
        "integer node coordinates (weights are integers, 3-D matrix entries "
        "small rationals); log-mode statements are floating-point "
        "observations at 1e-12",
        "the gradient's adjoint (discretize.utils.volume_average) is compared "
        "with the same reference only for grid pairs covering the same "
        "region, where both are defined alike"]
    maxnode = 5 if tier == "quick" else 6
    import shutil, os
    wd = C.scratch("va-")
    shutil.copytree(C.SPEC, os.path.join(wd, "spec"))
    with open(os.path.join(wd, "spec", "VolAvg.cfg")) as f:
        cfg = f.read().replace("MaxNode = 6", f"MaxNode = {maxnode}")
    with open(os.path.join(wd, "spec", "VolAvg.cfg"), "w") as f:
        f.write(cfg)
    res = C.run_tlc("VolAvg", "VolAvg.cfg", workdir=wd, timeout=1500)
    C.expect_tlc_ok(rep, f"VolAvg laws on the reference, all pairs of 1-D "
                    f"grids with nodes in 0..{maxnode}", res, "C15")
    rep.cov["exhaustive"] = True
    if replay:
        with open(replay) as f:
            j = json.load(f)["case"]
        insts = _w1d([(j["xi"], j["xo"])]) if j["kind"] == "w1d" else \
            _m3d((j["xi"], j["xo"], 0))
    else:
        gs = grids(maxnode)
        pairs = [(a, b) for a in gs for b in gs]
        chunks = [pairs[i::C.NCPU] for i in range(C.NCPU)]
        jobs3 = []
        n3 = 30 if tier == "quick" else 300
        small = [g for g in grids(4)]
        for _ in range(n3):
            xi = [rng.choice(small) for _ in range(3)]
            if rng.random() < 0.6:      # same region, other subdivision
                xo = [sorted({a[0], a[-1]} | set(rng.sample(
                    range(a[0], a[-1]+1), min(2, a[-1]-a[0]+1))))
                    for a in xi]
            else:
                xo = [rng.choice(small) for _ in range(3)]
            jobs3.append((xi, xo, rng.randrange(10**6)))
        with mp.get_context("fork").Pool(C.NCPU) as pool:
            r1 = pool.map(_w1d, chunks)
            r3 = pool.map(_m3d, jobs3, chunksize=1)
            ra = pool.map(_adj, [rng.randrange(10**6) for _ in range(
                3 if tier == "quick" else 24)], chunksize=1)
        insts = [x for ch in r1 for x in ch] + [x for ch in r3 for x in ch] \
            + [x for ch in ra for x in ch]
    # discretize outside the common region is not claimed by the property
    use = [x for x in insts if not (x.get("src") == "discretize"
                                    and not x.get("same_region"))]
    bad = C.validate_batch(rep, "VolAvgCode", "VolAvgCode.cfg",
                           [for_tlc(x) for x in use], "impl", chunk=4000)
    badidx = dict(bad)
    rep.add_traces(len(use) - len(badidx))
    for i, why in sorted(badidx.items()):
        x = use[i]
        rep.violation(f"C15:code:{why}:{key_of(x)}",
                      f"{x['kind']} {x.get('src', '')}: {why}; "
                      f"{x.get('notes', '')}",
                      {k: x[k] for k in ("kind", "xi", "xo")})
    rep.cov["pairs_1d"] = sum(1 for x in use if x["kind"] == "w1d")
    rep.cov["matrices_3d"] = sum(1 for x in use if x["kind"] == "m3d")
    s = [x for x in use if x["kind"] == "w1d" and len(x["seg"]) > 3]
    rep.sample(s[len(s)//3] if s else use[0])
    s3 = [x for x in use if x["kind"] == "m3d"]
    if s3:
        rep.sample({k: (v if k != "ent" else v[:4]) for k, v in s3[0].items()})
    if not replay:
        import copy
        muts = []
        g = copy.deepcopy(for_tlc(s[0]))
        g["seg"][1][1] = max(0, g["seg"][1][1] - 1) if g["seg"][1][1] else 1
        muts.append(g)                 # a segment attributed to another cell
        g = copy.deepcopy(for_tlc(s[-1]))
        g["seg"] = g["seg"][:-1]
        muts.append(g)                 # last segment dropped
        g = copy.deepcopy(for_tlc(s3[0]))
        g["ent"][0][6] += 1
        muts.append(g)                 # one 3-D weight wrong
        g = copy.deepcopy(for_tlc(s3[-1]))
        g["obs"] = False
        muts.append(g)
        cb = C.validate_batch(rep, "VolAvgCode", "VolAvgCode.cfg", muts,
                              "canaries", count=False)
        cbi = {b[0] for b in cb}
        for i in range(len(muts)):
            rep.canary(i in cbi)
        if len(cbi) != len(muts):
            raise C.MachineryError("canaries accepted: " + str(
                sorted(set(range(len(muts))) - cbi)))
    return rep.finish()
