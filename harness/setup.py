"""setup_cmd: offline sanity of the tool chain; parses every spec module,
warms the numba cache of /repo.  Nothing is fetched."""
import glob
import os
import shutil
import subprocess
import sys

HERE = os.path.dirname(os.path.abspath(__file__))
SPEC = os.path.join(os.path.dirname(HERE), "spec")
CP = ("/opt/veriftools/tla/tla2tools.jar:"
      "/opt/veriftools/tla/CommunityModules-deps.jar")
bad = 0
for exe in ("java",):
    if not shutil.which(exe):
        print("missing", exe)
        bad = 1
import tempfile
tmp = tempfile.mkdtemp()
shutil.copytree(SPEC, os.path.join(tmp, "spec"))
for tla in sorted(glob.glob(os.path.join(tmp, "spec", "*.tla"))):
    p = subprocess.run(["java", "-cp", CP, "tla2sany.SANY", tla],
                       cwd=os.path.join(tmp, "spec"), capture_output=True,
                       text=True)
    ok = p.returncode == 0 and "*** Errors" not in p.stdout and \
        "Fatal" not in p.stdout
    print(("ok   " if ok else "FAIL ") + os.path.basename(tla))
    if not ok:
        print(p.stdout[-1500:])
        bad = 1
shutil.rmtree(tmp, ignore_errors=True)
try:
    import numpy as np
    import emg3d
    import h5py, xarray, empymod, discretize, scipy  # noqa
    g = emg3d.TensorMesh([np.ones(4)]*3, (0, 0, 0))
    m = emg3d.Model(g, 1.0)
    sf = emg3d.get_source_field(g, (2, 2, 2, 0, 0), 1.0)
    for lr in (0, 7):
        emg3d.solve(m, sf, sslsolver=False, semicoarsening=False,
                    linerelaxation=lr, verb=0, maxit=2)
    print("ok    emg3d", emg3d.__version__, "numba cache warm")
except Exception as e:  # noqa
    print("FAIL emg3d import/solve:", e)
    bad = 1
sys.exit(bad)
