"""C12 - simulation results are a function of model and survey, not history.

1. TLC checks FreshResults / CachesCoherent / CopyIndependent / TolRestored on
   SimCache.tla (bounded histories exhaustively; thorough: the complete
   abstract graph), in-memory and file-based.
2. TLC-generated behaviours are replayed on real emg3d.Simulation objects:
   an edge cover of the one-object graph and random behaviours of the
   two-object model (copy / reload), in-memory and file-based.  After each
   step the returned value is compared with a fresh simulation's value for
   the provenance the spec predicts and the object's abstract projection is
   compared with the spec state.
"""
import json
import multiprocessing as mp
import os
import random

from . import common as C
from . import tlagraph as G

_PROB = {}
VARIANTS = [dict(), dict(twofreq=True, case="VTI"), dict(gmode="dict"),
            dict(twofreq=True, gmode="input")]
LAYERED = [dict(layered=True), dict(layered=True, twofreq=True, case="VTI")]
NV = len(VARIANTS)            # variant ids >= NV are the layered ones
ALLV = VARIANTS + LAYERED
SHARED_KEY = "sharedfiledir"


def _prepare(vi):
    os.environ.setdefault("NUMBA_NUM_THREADS", "1")
    from . import simreplay
    return simreplay.Problem(ALLV[vi], seed=vi).prepare()


def _replay(job):
    os.environ.setdefault("NUMBA_NUM_THREADS", "1")
    from . import simreplay
    vi, file_mode, steps, seed = job
    try:
        if vi not in _PROB:
            _PROB[vi] = simreplay.Problem(ALLV[vi], seed=vi).prepare()
        return simreplay.replay(_PROB[vi], file_mode, steps, seed)
    except Exception as e:  # noqa
        import traceback
        return [(-1, "fatal", f"{type(e).__name__}: {e}\n"
                 f"{traceback.format_exc()}")]


_GPROB = {}
GRID_MODES = ["same", "single", "frequency", "source", "both", "input", "dict"]


def _greplay(job):
    os.environ.setdefault("NUMBA_NUM_THREADS", "1")
    from . import gridreplay
    mode, steps, seed = job
    try:
        if mode not in _GPROB:
            _GPROB[mode] = gridreplay.GProblem(mode).prepare()
        return gridreplay.replay(_GPROB[mode], steps, seed)
    except Exception as e:  # noqa
        import traceback
        return [(-1, "fatal", f"{type(e).__name__}: {e}\n"
                 f"{traceback.format_exc()}")]


def gops_of(steps):
    out = []
    for s in steps:
        la = s["last"]
        a = [str(la["s"]), str(la["f"])] if la["op"] in ("grid", "model") \
            else ([la["arg"]] if la["arg"] != "-" else [])
        out.append(f"{la['op']}({','.join(a)})")
    return out


def grid_part(rep, tier, rng, replay_case=None):
    """GridCache.tla: the computational-grid caches for every gridding mode
    (the `options` of C12): exhaustive TLC run, deviation canary, edge cover
    of the complete graph replayed on real simulations."""
    if replay_case is not None:
        jobs = [(replay_case["mode"], replay_case["steps"],
                 replay_case["seed"])]
    else:
        res = C.run_tlc("GridCache", "GridCache.cfg", coverage=True,
                        timeout=1200)
        if C.expect_tlc_ok(rep, "GridCache.cfg: all gridding modes, 2 sources "
                           "x 2 frequencies, complete graph", res, "C12"):
            C.check_coverage(res, ["GetGrid", "GetModel", "ComputeAll", "Repr",
                                   "PrintInfo", "Clean", "Fork"], "GridCache")
        r = C.run_tlc("GridCache", "GridCache_dev.cfg", timeout=600)
        C.tlc_must_run(r, "GridCache_dev")
        rep.canary(bool(r.violated))
        if not r.violated:
            raise C.MachineryError("TLC did not find the lost-dict-grid "
                                   "deviation")
        g, gres = G.dump_graph("GridCache", "GridCache.cfg")
        rep.cov["grid_graph_states"] = len(g.state)
        rep.cov["grid_graph_edges"] = g.nedges
        jobs, left_total = [], 0
        per_mode = 120 if tier == "quick" else None
        for u in g.init:
            mode = g.state[u]["mode"]
            walks, left = G.greedy_edge_cover(g, rng, 8, budget=per_mode,
                                              init=u)
            left_total += left
            for w in walks:
                jobs.append((mode, [g.state[e[2]] for e in w],
                             rng.randrange(10**6)))
        rep.cov["grid_edges_uncovered"] = left_total
    with mp.get_context("fork").Pool(C.NCPU) as pool:
        results = pool.map(_greplay, jobs, chunksize=2)
    n = 0
    for (mode, steps, sd), probs in zip(jobs, results):
        n += len(steps)
        for i, kind, text in probs:
            if kind == "fatal":
                raise C.MachineryError(text)
            ops = gops_of(steps[:i+1])
            rep.violation(f"C12:grid:{kind}:{mode}:{'>'.join(ops)}",
                          f"gridding='{mode}': after {' ; '.join(ops)}: {text}",
                          {"grid": True, "mode": mode, "steps": steps[:i+1],
                           "seed": sd})
    rep.add_traces(len(jobs))
    rep.cov["grid_replayed_operations"] = n
    if replay_case is None:
        # replay canary: a spec state claiming another grid must be flagged
        import copy
        for mode, steps, sd in jobs:
            hit = [i for i, st in enumerate(steps)
                   if st["last"]["op"] == "grid" and mode == "both"]
            if hit:
                c = copy.deepcopy(steps[:hit[0]+1])
                c[-1]["last"]["ret"]["s"] = 3 - c[-1]["last"]["ret"]["s"]
                probs = _greplay((mode, c, sd))
                ok = any(k in ("property", "ret") for _, k, _ in probs)
                rep.canary(ok)
                if not ok:
                    raise C.MachineryError("grid replay canary not detected")
                break
        else:
            raise C.MachineryError("no grid canary could be built")


def ops_of(steps):
    return [f"{s['last']['op']}({s['last']['obj']}"
            f"{',' + s['last']['arg'] if s['last']['arg'] != '-' else ''})"
            for s in steps]


def exhaustive(rep, tier):
    runs = [("SimCache_mem.cfg", "in-memory, 2 objects, 3 models, histories "
             "<= 6"), ("SimCache_file.cfg", "file-based with independent "
                       "directories, histories <= 5")]
    if tier == "thorough":
        runs.append(("SimCache_full.cfg", "in-memory, complete abstract "
                     "graph (unbounded histories)"))
    runs.append(("SimCache_lay.cfg", "layered=True, in-memory, 2 objects, "
                 "histories <= 5"))
    for cfg, what in runs:
        # (no -coverage here: TLC's coverage mode re-evaluates the nested
        # LET definitions of the state transformers and runs out of memory;
        # that every action is taken is checked on the dumped graphs below)
        res = C.run_tlc("SimCache", cfg, timeout=3000)
        C.expect_tlc_ok(rep, f"{cfg}: {what}", res, "C12")
    rep.cov["exhaustive"] = True
    # anti-vacuity: deviations must be found by TLC
    r = C.run_tlc("SimCache", "SimCache_dev_jtvec.cfg", timeout=600)
    C.tlc_must_run(r, "SimCache_dev_jtvec")
    rep.canary(bool(r.violated))
    if not r.violated:
        raise C.MachineryError("TLC did not find the jtvec deviation")
    r = C.run_tlc("SimCache", "SimCache_dev_observed.cfg", timeout=600)
    C.tlc_must_run(r, "SimCache_dev_observed")
    rep.canary(bool(r.violated))
    if not r.violated:
        raise C.MachineryError("TLC did not find the compute(observed=True) "
                               "deviation")
    r = C.run_tlc("SimCache", "SimCache_dev_fields.cfg", timeout=600)
    C.tlc_must_run(r, "SimCache_dev_fields")
    rep.canary(r.violated == "SensAvailable")
    if r.violated != "SensAvailable":
        raise C.MachineryError("TLC did not find the deviation 'fields "
                               "removed by clean(keepresults) are not "
                               "recomputed'")
    # the code's shared file_dir, modelled as it is: TLC must report it, and
    # it is a (known) finding about the code
    r = C.run_tlc("SimCache", "SimCache_dev_shared.cfg", timeout=600)
    C.tlc_must_run(r, "SimCache_dev_shared")
    if r.violated:
        rep.violation(f"C12:spec:{SHARED_KEY}:{r.violated}",
                      "faithful model of file-based copies (shared file_dir): "
                      f"TLC reports {r.violated}",
                      {"tlc_tail": "\n".join(r.out.splitlines()[-60:])})
    else:
        raise C.MachineryError("TLC did not find the shared file_dir effect")


def jobs_from_graph(cfg, file_mode, rng, budget, maxlen=8, layered=False):
    g, res = G.dump_graph("SimCache", cfg)
    walks, left = G.greedy_edge_cover(g, rng, maxlen, budget=budget)
    jobs = []
    for i, w in enumerate(walks):
        steps = [g.state[e[2]] for e in w]
        vi = NV + i % len(LAYERED) if layered else i % len(VARIANTS)
        jobs.append((vi, file_mode, steps, rng.randrange(10**6)))
    return jobs, g, left, res


def jobs_from_sim(cfg, file_mode, rng, num, depth=8):
    behs, res = G.simulate("SimCache", cfg, num, depth, rng.randrange(10**6))
    jobs = []
    for i, b in enumerate(behs):
        steps = [st for _, st in b[1:]]
        if steps:
            jobs.append((i % len(VARIANTS), file_mode, steps,
                         rng.randrange(10**6)))
    return jobs, res


def canaries(rep, jobs, rng):
    """Corrupted spec behaviours must be flagged by the replay."""
    import copy
    muts = []
    mem = [j for j in jobs if not j[1]]

    def find(pred):
        for j in mem:
            for i, st in enumerate(j[2]):
                if pred(st):
                    return copy.deepcopy((j[0], j[1], j[2][:i+1], j[3]))
        return None
    j = find(lambda st: st["last"]["op"] == "misfit"
             and st["last"]["kind"] == "value")
    if j:      # spec claims the misfit was NOT cached afterwards
        j[2][-1]["S"][j[2][-1]["last"]["obj"]-1]["mis"] = -1
        muts.append(("state-misfit-cache", j))
    j = find(lambda st: st["last"]["op"] == "gradient"
             and st["last"]["kind"] == "value")
    if j:      # spec claims the gradient belongs to another model
        pv = j[2][-1]["last"]["prov"]
        j[2][-1]["last"]["prov"] = (1 - pv[0], 1 - pv[0] + 10*(pv[1]//10))
        muts.append(("ret-gradient-prov", j))
    j = find(lambda st: st["last"]["op"] == "clean"
             and st["last"]["arg"] == "computed")
    if j:      # spec claims clean() keeps the computed flag
        j[2][-1]["S"][j[2][-1]["last"]["obj"]-1]["comp"] = True
        muts.append(("state-clean-computed", j))
    j = find(lambda st: st["last"]["op"] == "efield"
             and st["last"]["kind"] == "value")
    if j:      # spec claims an error where the code returns a field
        j[2][-1]["last"]["kind"] = "error"
        muts.append(("ret-kind", j))
    if len(muts) < 3:
        raise C.MachineryError("could not build replay canaries")
    with mp.get_context("fork").Pool(min(4, C.NCPU)) as pool:
        res = pool.map(_replay, [m[1] for m in muts])
    for (name, _), probs in zip(muts, res):
        hit = any(k in ("ret", "state") for _, k, _ in probs)
        rep.canary(hit)
        if not hit:
            raise C.MachineryError(f"replay canary not detected: {name}")


def run(tier, replay=None):
    rep = C.Report("C12", tier)
    rng = random.Random(C.seed())
    rep.assumptions += [
        "gridding='same' (computational grid = model grid), linear receiver "
        "interpolation, plain multigrid; two survey/model variants (2 sources "
        "x 1 frequency isotropic; 1 source x 2 frequencies VTI), electric, "
        "magnetic and source-relative receivers, a NaN gap in the data",
        "values are compared with a fresh simulation at relative 1e-8 "
        "(identical computations are expected to agree to rounding)",
        "model update keeps the grid; observed data change only through "
        "compute(observed=True, add_noise=False)"]
    jobs = []
    if replay:
        with open(replay) as f:
            case = json.load(f)["case"]
        if case.get("grid"):
            grid_part(rep, tier, rng, case)
            return rep.finish()
        jobs = [(case["variant"], case["file_mode"], case["steps"],
                 case["seed"])]
        meta = [("replay", None)]
    else:
        exhaustive(rep, tier)
        q = tier == "quick"
        j1, g1, left1, r1 = jobs_from_graph("SimCache_w1.cfg", False, rng,
                                            240 if q else None)
        # anti-vacuity: every action of the specification labels an edge
        labels = {lab.split()[0].split("(")[0]
                  for u in g1.out for lab, _ in g1.out[u]}
        missing = [a for a in ("Compute", "Misfit", "Gradient", "Jvec",
                               "Jtvec", "GetField", "Clean", "ComputeObs",
                               "ModelUpdate", "DictRT")
                   if a not in labels]
        if missing:
            raise C.MachineryError(f"SimCache_w1: actions never taken: "
                                   f"{missing} (labels {sorted(labels)})")
        rep.cov["w1_graph_states"] = len(g1.state)
        rep.cov["w1_graph_edges"] = g1.nedges
        rep.cov["w1_edges_uncovered"] = left1 if not q else None
        j2, r2 = jobs_from_sim("SimCache_w2.cfg", False, rng,
                               80 if q else 1500)
        j3, g3, left3, r3 = jobs_from_graph("SimCache_w1file.cfg", True, rng,
                                            60 if q else 1500)
        j4, r4 = jobs_from_sim("SimCache_w2file.cfg", True, rng,
                               60 if q else 1500)
        # layered=True: 1D modeller, responses only (complete graph, 272
        # states: full edge cover in both tiers)
        j5, g5, left5, r5 = jobs_from_graph("SimCache_w1lay.cfg", False, rng,
                                            None, layered=True)
        rep.cov["layered_graph_states"] = len(g5.state)
        rep.cov["layered_edges_uncovered"] = left5
        jobs = j1 + j2 + j3 + j4 + j5
        meta = ([("w1-cover", None)]*len(j1) + [("w2-sim", None)]*len(j2) +
                [("w1file-cover", None)]*len(j3) + [("w2file-sim", None)]*len(j4)
                + [("w1layered-cover", None)]*len(j5))
    need = sorted({j[0] for j in jobs} - set(_PROB))
    if need:
        with mp.get_context("fork").Pool(len(need)) as pool:
            for vi, pr in zip(need, pool.map(_prepare, need)):
                _PROB[vi] = pr
    with mp.get_context("fork").Pool(C.NCPU) as pool:
        results = pool.map(_replay, jobs, chunksize=2)
    nsteps = 0
    seen_ops = set()
    for (vi, fm, steps, sd), probs, (src, _) in zip(jobs, results, meta):
        nsteps += len(steps)
        seen_ops.update((s["last"]["op"], s["last"]["arg"], s["last"]["kind"])
                        for s in steps)
        for i, kind, text in probs:
            if kind == "fatal":
                raise C.MachineryError(text)
            ops = ops_of(steps[:i+1])
            Si = steps[i]["S"]
            shared = (fm and len(Si) > 1 and Si[0]["ex"] and Si[1]["ex"]
                      and Si[0]["dir"] == Si[1]["dir"])
            # while two objects share one file_dir (the recorded finding) a
            # recomputation starts from whatever field the OTHER object left
            # in the hand-over file: values then agree with a fresh simulation
            # only to the solver tolerance, contents are not identifiable -
            # every discrepancy in such a state belongs to that finding
            tag = SHARED_KEY if (shared and kind in ("property", "ret",
                                                     "state")) else kind
            rep.violation(
                f"C12:replay:{tag}:{'file' if fm else 'mem'}:"
                f"{'>'.join(ops)}",
                f"{src}: after {' ; '.join(ops)}: {text}",
                {"variant": vi, "file_mode": fm, "steps": steps[:i+1],
                 "seed": sd})
    if not replay:
        canaries(rep, jobs, rng)
        grid_part(rep, tier, rng)
    rep.add_traces(len(jobs))
    rep.cov["replayed_operations"] = nsteps
    rep.cov["distinct_op_arg_outcome"] = len(seen_ops)
    if jobs:
        k = rng.randrange(len(jobs))
        rep.sample({"source": meta[k][0], "file_mode": jobs[k][1],
                    "variant": ALLV[jobs[k][0]] if not replay else None,
                    "operations": ops_of(jobs[k][2]),
                    "spec_state_after_last_op": jobs[k][2][-1]})
    return rep.finish()
