"""C18 - the command-line interface is equivalent to the Python API.

1. TLC checks on CliConfig.tla, for every configuration made of up to two
   documented options (or an unknown one) in the file, up to one terminal
   alias, the three functions, dry-run and clean (1.5 M configurations):
   every documented option is parsed and accepted downstream, unknown
   options are rejected before anything is computed or written, terminal
   arguments override the file, output keys per function, dry-run computes
   nothing, cache = load + save.
2. The REAL `emg3d` entry point is run on generated configurations (every
   documented key alone, pairs, unknown keys per section, every terminal
   alias against its file counterpart, the three functions x dry/real x the
   three file formats, load/save/cache/clean); each run is compared with the
   equivalent Python API calls on the same files (saved simulation,
   data / misfit / gradient) and TLC validates the outcome of every run
   against CliConfig.tla (TraceCliConfig).
"""
import contextlib
import io as _io
import json
import multiprocessing as mp
import os
import random
import re
import shutil
import sys
import tempfile
import warnings

from . import common as C

REPO = C.REPO
ALIAS = {("files", k): "--" + k for k in
         ("path", "survey", "model", "output", "save", "load", "cache")}
ALIAS[("simulation", "max_workers")] = "-n"
ALIAS[("simulation", "layered")] = "-l"


def doc_keys():
    """Option table of docs/manual/cli.rst: {(section, key)}."""
    txt = open(os.path.join(REPO, "docs/manual/cli.rst")).read()
    keys, sec = set(), None
    for ln in txt.splitlines():
        m = re.match(r"\s+\[(\w+)\]\s*$", ln)
        if m:
            sec = m.group(1)
            continue
        m = re.match(r"\s+# (\w+) =", ln)
        if m and sec:
            keys.add((sec, m.group(1)))
    return keys


def spec_keys():
    txt = open(os.path.join(C.SPEC, "CliConfig.tla")).read()
    body = txt[txt.index("DocKeys =="):txt.index("(* accepted by the parser")]
    keys = set()
    for m in re.finditer(r'Sec\("(\w+)",\s*\{([^}]*)\}', body, re.S):
        for k in re.findall(r'"(\w+)"', m.group(2)):
            keys.add((m.group(1), k))
    return keys


# text in the config file and the Python value the API receives
def table(tmp):
    T = {
        ("simulation", "max_workers"): ("3", 3),
        ("simulation", "gridding"): ("same", "same"),
        ("simulation", "name"): ("My Sim", "My Sim"),
        ("simulation", "file_dir"): (os.path.join(tmp, "fdir"),
                                     os.path.join(tmp, "fdir")),
        ("simulation", "receiver_interpolation"): ("linear", "linear"),
        ("simulation", "layered"): ("True", True),
        ("solver_opts", "sslsolver"): ("False", False),
        ("solver_opts", "semicoarsening"): ("True", True),
        ("solver_opts", "linerelaxation"): ("False", False),
        ("solver_opts", "cycle"): ("V", "V"),
        ("solver_opts", "tol"): ("1e-4", 1e-4),
        ("solver_opts", "tol_gradient"): ("1e-3", 1e-3),
        ("solver_opts", "verb"): ("2", 2),
        ("solver_opts", "maxit"): ("7", 7),
        ("solver_opts", "nu_init"): ("1", 1),
        ("solver_opts", "nu_pre"): ("3", 3),
        ("solver_opts", "nu_coarse"): ("2", 2),
        ("solver_opts", "nu_post"): ("1", 1),
        ("solver_opts", "clevel"): ("2", 2),
        ("solver_opts", "plain"): ("True", True),
        ("gridding_opts", "properties"): ("0.3, 1, 1e5", [0.3, 1., 1e5]),
        ("gridding_opts", "center"): ("10, 20, -30", [10., 20., -30.]),
        ("gridding_opts", "cell_number"): ("8, 16, 32", [8., 16., 32.]),
        ("gridding_opts", "min_width_pps"): ("5, 3, 3", [5., 3., 3.]),
        ("gridding_opts", "domain"): ("-600, 600; None; None",
                                      {"x": [-600., 600.], "y": None,
                                       "z": None}),
        ("gridding_opts", "distance"): ("None; None; 500, 500",
                                        {"x": None, "y": None,
                                         "z": [500., 500.]}),
        ("gridding_opts", "stretching"): ("None; None; 1.05, 1.5",
                                          {"x": None, "y": None,
                                           "z": [1.05, 1.5]}),
        ("gridding_opts", "min_width_limits"): ("10, 100; None; 50",
                                                {"x": [10., 100.], "y": None,
                                                 "z": [50.]}),
        ("gridding_opts", "mapping"): ("Resistivity", "Resistivity"),
        ("gridding_opts", "vector"): ("xy", "xy"),
        ("gridding_opts", "frequency"): ("1.5", 1.5),
        ("gridding_opts", "seasurface"): ("300.0", 300.0),
        ("gridding_opts", "max_buffer"): ("50000.0", 50000.0),
        ("gridding_opts", "lambda_factor"): ("0.8", 0.8),
        ("gridding_opts", "verb"): ("0", 0),
        ("gridding_opts", "lambda_from_center"): ("True", True),
        ("noise_opts", "add_noise"): ("False", False),
        ("noise_opts", "min_offset"): ("120.0", 120.0),
        ("noise_opts", "max_offset"): ("160.0", 160.0),
        ("noise_opts", "mean_noise"): ("0.5", 0.5),
        ("noise_opts", "ntype"): ("gaussian_uncorrelated",
                                  "gaussian_uncorrelated"),
        ("data", "sources"): ("TxED-2", ["TxED-2"]),
        ("data", "receivers"): ("RxEP-1", ["RxEP-1"]),
        ("data", "frequencies"): ("f-2, f-1", ["f-2", "f-1"]),
        ("data", "remove_empty"): ("True", True),
        ("layered", "method"): ("prism", "prism"),
        ("layered", "radius"): ("3000", 3000.0),
        ("layered", "factor"): ("1.2", 1.2),
        ("layered", "minor"): ("0.8", 0.8),
        ("layered", "merge"): ("True", True),
        ("layered", "check_foci"): ("True", True),
    }
    return T


def _setup(tmp, computed=False):
    import numpy as np
    import emg3d
    hx = np.ones(8)*100.
    grid = emg3d.TensorMesh([hx, hx, hx], (-400, -400, -400))

    def model(f):
        return emg3d.Model(grid, f*np.linspace(0.5, 2, grid.n_cells).reshape(
            grid.shape_cells, order='F'), mapping='Conductivity')

    def survey(name):
        s = emg3d.Survey(
            [emg3d.TxElectricDipole((-50, 0, 0, 0, 0)),
             emg3d.TxElectricDipole((0, 50, 0, 90, 0))],
            [emg3d.RxElectricPoint((100, 50, 0, 0, 0)),
             emg3d.RxMagneticPoint((-100, 50, 20, 45, 0)),
             emg3d.RxElectricPoint((150, -50, 0, 30, 0))],
            [1.0, 2.0], noise_floor=1e-15, relative_error=0.05, name=name)
        rng = np.random.default_rng(7)
        d = (rng.standard_normal(s.shape) + 1j*rng.standard_normal(s.shape))
        d[1, 0, 1] = np.nan
        d[:, 2, :] = np.nan           # a receiver without any datum
        s.data['observed'][...] = d*1e-12
        return s
    for d in ("", "dirA", "dirB"):
        os.makedirs(os.path.join(tmp, d), exist_ok=True)
        nm = d or "base"
        survey(nm).to_file(os.path.join(tmp, d, "survey.h5"), verb=0)
        emg3d.save(os.path.join(tmp, d, "model.h5"), model=model(1.0), verb=0)
    survey("F").to_file(os.path.join(tmp, "surveyF.h5"), verb=0)
    survey("T").to_file(os.path.join(tmp, "surveyT.h5"), verb=0)
    emg3d.save(os.path.join(tmp, "modelF.h5"), model=model(1.1), verb=0)
    emg3d.save(os.path.join(tmp, "modelT.h5"), model=model(1.2), verb=0)
    for nm in ("oldsimF", "oldsimT", "cacheF", "cacheT"):
        s = emg3d.Simulation(survey(nm), model(1.0), gridding='same',
                             name=nm, max_workers=1,
                             receiver_interpolation='linear',
                             solver_opts={'plain': True, 'maxit': 3},
                             tqdm_opts=False)
        if computed:
            _ = s.misfit          # fields, synthetic data, residual, misfit
        s.to_file(os.path.join(tmp, nm + ".h5"), what='computed', verb=0)
        shutil.copy(os.path.join(tmp, nm + ".h5"),
                    os.path.join(tmp, "_pristine_" + nm + ".h5"))
    return grid


FILE_TXT = {"path": "dirA", "survey": "surveyF.h5", "model": "modelF.h5",
            "output": "outF.h5", "save": "saveF.h5", "load": "oldsimF.h5",
            "cache": "cacheF.h5"}
TERM_TXT = {"path": "dirB", "survey": "surveyT.h5", "model": "modelT.h5",
            "output": "outT.npz", "save": "saveT.json", "load": "oldsimT.h5",
            "cache": "cacheT.h5"}


def _run(case):
    """Run one configuration through the real CLI and through the API."""
    import numpy as np
    import emg3d
    from emg3d import _multiprocessing as _mp
    from emg3d.cli.main import main
    warnings.filterwarnings("ignore")
    tmp = tempfile.mkdtemp(prefix="c18-")
    obs = {"errAt": "", "outKeys": [], "simSaved": False, "computed": False,
           "eff": [], "apiEqual": True}
    notes = []
    try:
        _setup(tmp, computed=bool(case.get('loadcomputed')))
        T = table(tmp)
        file, term = [tuple(k) for k in case["file"]], \
            [tuple(k) for k in case["term"]]
        # ---- configuration file
        secs = {}
        for s, k in file:
            if (s, k) == ("any", "unknown_key"):
                secs.setdefault(case["usec"], []).append("unknown_key = 1")
            elif s == "files":
                secs.setdefault(s, []).append(f"{k} = {FILE_TXT[k]}")
            elif (s, k) == ("simulation", "layered") and (s, k) in term:
                secs.setdefault(s, []).append("layered = False")
            else:
                secs.setdefault(s, []).append(f"{k} = {T[(s, k)][0]}")
        cfgfile = os.path.join(tmp, "emg3d.cfg")
        with open(cfgfile, "w") as f:
            for s, lines in secs.items():
                f.write(f"[{s}]\n" + "\n".join(lines) + "\n")
        # ---- terminal arguments
        args = [cfgfile]
        tpath = None
        for s, k in term:
            if s == "files":
                args += [ALIAS[(s, k)], TERM_TXT[k] if k != "path"
                         else os.path.join(tmp, TERM_TXT[k])]
            elif k == "max_workers":
                args += ["-n", "2"]
            else:
                args += ["-l"]
        fpath = ("files", "path") in file
        if ("files", "path") not in term:
            # relative path in the file is relative to the cwd -> run in tmp
            pass
        args += {"forward": ["-f"], "misfit": ["-m"], "gradient": ["-g"]}[
            case["fn"]]
        if case["dry"]:
            args.append("-d")
        if case["clean"]:
            args.append("--clean")
        args.append("-q")
        nsolve = {"n": 0}
        osolve = emg3d.solver.solve

        def counting(*a, **kw):
            nsolve["n"] += 1
            return osolve(*a, **kw)
        emg3d.solver.solve = counting
        orng = np.random.default_rng
        np.random.default_rng = lambda *a: orng(1234)
        cwd = os.getcwd()
        os.chdir(tmp)
        oargv = sys.argv
        sys.argv = ["emg3d"] + args
        err = None
        try:
            with contextlib.redirect_stdout(_io.StringIO()), \
                    contextlib.redirect_stderr(_io.StringIO()):
                main(args)
        except SystemExit as e:
            err = ("exit", str(e))
        except Exception as e:  # noqa
            err = (type(e).__name__, str(e))
        finally:
            sys.argv = oargv
            os.chdir(cwd)
            emg3d.solver.solve = osolve
        obs["computed"] = nsolve["n"] > 0
        if err:
            msg = err[1]
            if "Unexpected parameter in [" in msg:
                obs["errAt"] = "parse"
            elif re.search(r"gridding_opts|Unexpected|KeyError|gridding",
                           err[0] + msg):
                obs["errAt"] = "build"
            else:
                obs["errAt"] = "other:" + err[0]
            notes.append(f"{err[0]}: {msg[:160]}")
        # ---- where did the values come from / what was written
        def src(k):
            return "term" if k in term else ("file" if k in file
                                             else "default")
        pdir = {"term": os.path.join(tmp, "dirB"),
                "file": os.path.join(tmp, "dirA"),
                "default": tmp}[src(("files", "path"))]
        def fname(k, default):
            s_ = src(("files", k))
            n = {"term": TERM_TXT[k], "file": FILE_TXT[k],
                 "default": default}[s_]
            return os.path.join(pdir, n) if n else None
        cands_out = [os.path.join(d, n) for d in (tmp, os.path.join(tmp, "dirA"),
                                                  os.path.join(tmp, "dirB"))
                     for n in ("outF.h5", "outT.npz", "emg3d_out.h5")]
        written = [p for p in cands_out if os.path.exists(p)]
        exp_out = fname("output", "emg3d_out.h5")
        out = None
        if written:
            if written != [exp_out]:
                notes.append(f"output written to {written}, expected "
                             f"{exp_out}")
                obs["apiEqual"] = False
            out = emg3d.load(written[0], verb=0)
            obs["outKeys"] = sorted(k for k in out if not k.startswith("_"))
            # worker processes do the solves: a computation shows in the data
            d = np.asarray(out.get("data", 0))
            if np.any(np.nan_to_num(d) != 0):
                obs["computed"] = True
        cache = src(("files", "cache")) != "default"
        exp_save = fname("cache", None) if cache else fname("save", None)
        simf = None
        if exp_save and os.path.exists(exp_save):
            # a pre-existing cache file counts as saved only if rewritten
            simf = exp_save
        saved_new = [os.path.join(d, n) for d in (tmp, os.path.join(tmp, "dirA"),
                                                  os.path.join(tmp, "dirB"))
                     for n in ("saveF.h5", "saveT.json")
                     if os.path.exists(os.path.join(d, n))]
        if cache:
            obs["simSaved"] = bool(simf) and not err
        else:
            obs["simSaved"] = bool(saved_new)
            if saved_new and saved_new != [exp_save]:
                notes.append(f"simulation saved to {saved_new}, expected "
                             f"{exp_save}")
                obs["apiEqual"] = False
        for k in [("files", a) for a in ("path", "survey", "model", "output",
                                         "save", "load", "cache")] + \
                [("simulation", "max_workers"), ("simulation", "layered")]:
            if k in term or k in file:
                obs["eff"].append([k[0], k[1], None])
        # ---- the equivalent API calls
        if not err:
            ok, why = api_equal(case, tmp, T, file, term, src, pdir, fname,
                                out, simf, obs)
            if not ok:
                obs["apiEqual"] = False
                notes.append(why)
        obs["eff"] = [e for e in obs["eff"] if e[2] is not None]
        np.random.default_rng = orng
    except Exception as e:  # noqa
        import traceback
        return {"fatal": f"{type(e).__name__}: {e}\n{traceback.format_exc()}"}
    finally:
        shutil.rmtree(tmp, ignore_errors=True)
    return {"file": case["file"], "usec": case["usec"], "term": case["term"],
            "fn": case["fn"], "dry": case["dry"], "clean": case["clean"],
            "obs": obs, "notes": notes}


def api_equal(case, tmp, T, file, term, src, pdir, fname, out, simf, obs):
    """Reproduce the run with the Python API; compare."""
    import numpy as np
    import emg3d

    def seteff(k, s):
        for e in obs["eff"]:
            if (e[0], e[1]) == k:
                e[2] = s
    load = src(("files", "cache")) != "default" or \
        src(("files", "load")) != "default"
    fn = case["fn"]
    if load:
        return api_equal_load(case, tmp, file, term, src, pdir, fname, out,
                              simf, obs, seteff)
    # ---- effective inputs
    sfile = fname("survey", "survey.h5")
    mfile = fname("model", "model.h5")
    sim_kw = {}
    for s, k in file:
        if s in ("simulation",) and (s, k) not in term:
            sim_kw[k] = T[(s, k)][1]
    if ("simulation", "max_workers") in term:
        sim_kw["max_workers"] = 2
    if ("simulation", "layered") in term:
        sim_kw["layered"] = True
    solver = {k: T[(s, k)][1] for s, k in file if s == "solver_opts"}
    if solver:
        sim_kw["solver_opts"] = solver
    gopts = {("cell_numbers" if k == "cell_number" else k): T[(s, k)][1]
             for s, k in file if s == "gridding_opts"}
    if gopts:
        sim_kw["gridding_opts"] = gopts
    lay = {k: T[(s, k)][1] for s, k in file if s == "layered"}
    if lay:
        lo = {k: v for k, v in lay.items() if k in ("method", "merge")}
        el = {k: v for k, v in lay.items() if k in ("radius", "factor",
                                                    "minor", "check_foci")}
        if el:
            lo["ellipse"] = el
        sim_kw["layered_opts"] = lo
    if "name" not in sim_kw:
        sim_kw["name"] = "emg3d CLI run"
    if fn == "gradient" and "receiver_interpolation" not in sim_kw:
        sim_kw["receiver_interpolation"] = "linear"
    noise = {k: T[(s, k)][1] for s, k in file if s == "noise_opts"}
    dsel = {k: T[(s, k)][1] for s, k in file if s == "data"}
    if not load:
        survey = emg3d.load(sfile, verb=0)["survey"]
        model = emg3d.load(mfile, verb=0)["model"]
        if dsel:
            survey = survey.select(
                sources=dsel.get("sources"), receivers=dsel.get("receivers"),
                frequencies=dsel.get("frequencies"),
                remove_empty=dsel.get("remove_empty", False))
        ref = emg3d.Simulation(survey, model, verb=-1,
                               tqdm_opts=False, **sim_kw)
    # ---- compare the saved simulation
    if simf and not load:
        got = emg3d.Simulation.from_file(simf, verb=0)
        a, b = got.to_dict("plain"), ref.to_dict("plain")
        from .c17 import deep_equal
        for key in ("max_workers", "gridding", "gridding_opts", "solver_opts",
                    "name", "layered", "layered_opts",
                    "receiver_interpolation", "tol_gradient", "file_dir"):
            if not deep_equal(a.get(key), b.get(key)):
                return False, (f"saved simulation differs from the API's in "
                               f"'{key}': {str(a.get(key))[:80]} vs "
                               f"{str(b.get(key))[:80]}")
        if not deep_equal(a["model"], b["model"], True):
            return False, "model of the saved simulation differs"
        sa, sb = a["survey"], b["survey"]
        for key in ("sources", "receivers", "frequencies", "noise_floor",
                    "relative_error", "name"):
            if not deep_equal(sa[key], sb[key], True):
                return False, f"survey['{key}'] differs"
        if got.gridding != "same" and not case.get("skipgrid"):
            g1 = got.get_grid("TxED-1" if not dsel.get("sources") else
                              dsel["sources"][0],
                              "f-1" if not dsel.get("frequencies")
                              else dsel["frequencies"][0])
            g2 = ref.get_grid("TxED-1" if not dsel.get("sources") else
                              dsel["sources"][0],
                              "f-1" if not dsel.get("frequencies")
                              else dsel["frequencies"][0])
            if not g1 == g2:
                return False, "computational grid differs from the API's"
        seteff(("files", "survey"), {"T": "term", "F": "file"}.get(
            got.survey.name, None))
        seteff(("files", "path"), {"dirB": "term", "dirA": "file"}.get(
            got.survey.name, None))
        pm = float(np.asarray(got.model.property_x).ravel()[0])
        seteff(("files", "model"), "term" if abs(pm - 0.6) < 1e-9 else
               ("file" if abs(pm - 0.55) < 1e-9 else None))
        seteff(("simulation", "max_workers"),
               {2: "term", 3: "file"}.get(got.max_workers))
        if ("simulation", "layered") in term and \
                ("simulation", "layered") in file:
            # the file says False, the terminal says True
            seteff(("simulation", "layered"),
                   "term" if got.layered else "file")
        elif got.layered:
            seteff(("simulation", "layered"),
                   "term" if ("simulation", "layered") in term else "file")
        seteff(("files", "save"), "term" if simf.endswith("saveT.json")
               else "file" if simf.endswith("saveF.h5") else None)
    if simf and load:
        got = emg3d.Simulation.from_file(simf, verb=0)
        lk = "cache" if src(("files", "cache")) != "default" else "load"
        want = {"term": "T", "file": "F"}[src(("files", lk))]
        if got.name not in (f"oldsim{want}", f"cache{want}"):
            return False, f"loaded simulation '{got.name}', expected *{want}"
        seteff(("files", lk), src(("files", lk)))
    if out is not None:
        written = "outT" if os.path.exists(os.path.join(pdir, "outT.npz")) \
            else "outF" if os.path.exists(os.path.join(pdir, "outF.h5")) \
            else "default"
        seteff(("files", "output"), {"outT": "term", "outF": "file"}.get(
            written))
    # ---- real runs: data / misfit / gradient
    if out is not None and not case["dry"] and not load:
        if fn == "forward":
            ref.compute(observed=True, **noise)
            want = ref.data.observed.data
        else:
            ref.compute()
            want = ref.data.synthetic.data
        if not np.array_equal(np.asarray(out["data"]), want, equal_nan=True):
            return False, "output data differ from the API's"
        if fn in ("misfit", "gradient"):
            if float(out["misfit"]) != float(ref.misfit):
                return False, "misfit differs from the API's"
            if int(out["n_observations"]) != int(ref.survey.count):
                return False, "n_observations differs"
        if fn == "gradient":
            if not np.array_equal(np.asarray(out["gradient"]),
                                  np.asarray(ref.gradient)):
                return False, "gradient differs from the API's"
    if out is not None and case["dry"] and not load:
        if np.asarray(out["data"]).shape != ref.survey.shape or \
                np.any(np.asarray(out["data"]) != 0):
            return False, "dry-run data are not zeros of the data shape"
        if fn == "gradient" and np.asarray(out["gradient"]).shape != \
                ref.model.shape:
            return False, "dry-run gradient has the wrong shape"
    return True, ""


def api_equal_load(case, tmp, file, term, src, pdir, fname, out, simf, obs,
                   seteff):
    """--load / --cache: the API equivalent starts from the stored
    simulation (sections [simulation], [solver_opts], [gridding_opts], [data]
    are ignored, as documented)."""
    import numpy as np
    import emg3d
    fn = case["fn"]
    lk = "cache" if src(("files", "cache")) != "default" else "load"
    nm = {"term": TERM_TXT[lk], "file": FILE_TXT[lk]}[src(("files", lk))][:-3]
    ref = emg3d.Simulation.from_file(
        os.path.join(tmp, "_pristine_" + nm + ".h5"), verb=0)
    if case["clean"]:
        ref.clean('computed')
        ref.model = emg3d.load(fname("model", "model.h5"), verb=0)["model"]
    want_lay = ("simulation", "layered") in term or \
        ("simulation", "layered") in file
    if ref.layered != want_lay:
        ref.layered = want_lay
    if simf:
        got = emg3d.Simulation.from_file(simf, verb=0)
        if got.name != nm:
            return False, f"loaded simulation '{got.name}', expected {nm}"
        seteff(("files", lk), src(("files", lk)))
        from .c17 import deep_equal
        if not deep_equal(got.model.to_dict(), ref.model.to_dict(), True):
            return False, "model of the saved simulation differs from the API's"
    if out is not None and not case["dry"]:
        if fn == "forward":
            orng = np.random.default_rng
            np.random.default_rng = lambda *a: orng(1234)
            try:
                ref.compute(observed=True)
            finally:
                np.random.default_rng = orng
            want = ref.data.observed.data
        else:
            ref.compute()
            want = ref.data.synthetic.data
        if not np.array_equal(np.asarray(out["data"]), want, equal_nan=True):
            return False, "output data differ from the API's (load)"
        if fn in ("misfit", "gradient"):
            if float(out["misfit"]) != float(ref.misfit):
                return False, (f"misfit {float(out['misfit'])} differs from "
                               f"the API's {float(ref.misfit)} (load)")
        if fn == "gradient":
            if not np.array_equal(np.asarray(out["gradient"]),
                                  np.asarray(ref.gradient)):
                return False, "gradient differs from the API's (load)"
    return True, ""


def gen_cases(tier, rng, dkeys):
    cases = []
    SAVE = [["files", "save"]]

    def add(file=(), term=SAVE, fn="forward", dry=True, clean=False,
            usec="files"):
        cases.append({"file": [list(k) for k in file],
                      "term": [list(k) for k in term], "fn": fn, "dry": dry,
                      "clean": clean, "usec": usec})
    keys = sorted(dkeys)
    nonfile = [k for k in keys if k[0] != "files"]
    # every documented key alone (dry run, simulation saved)
    for k in nonfile:
        add([k], fn=rng.choice(["forward", "misfit", "gradient"]))
    # pairs within a section
    npair = 30 if tier == "quick" else 400
    for _ in range(npair):
        s = rng.choice(["simulation", "solver_opts", "gridding_opts", "data",
                        "layered", "noise_opts"])
        ks = [k for k in nonfile if k[0] == s]
        a, b = rng.sample(ks, 2)
        if {a[1], b[1]} == {"domain", "distance"}:
            continue
        add([a, b], fn=rng.choice(["forward", "misfit", "gradient"]))
    # unknown key in every section
    for s in ("files", "simulation", "solver_opts", "gridding_opts",
              "noise_opts", "data", "layered"):
        add([("any", "unknown_key")], usec=s,
            fn=rng.choice(["forward", "gradient"]), dry=rng.random() < 0.5)
    # terminal alias against the file
    for k in ("path", "survey", "model", "output"):
        add([("files", k)], term=SAVE + [["files", k]])
        add([("files", k)], term=SAVE)
        add([], term=SAVE + [["files", k]])
    add([("files", "save")], term=[["files", "save"]])
    add([("files", "save")], term=[])
    for k in ("max_workers", "layered"):
        add([("simulation", k)], term=SAVE + [["simulation", k]])
        add([], term=SAVE + [["simulation", k]])
    for k in ("load", "cache"):
        add([("files", k)], term=SAVE + [["files", k]] if k == "load"
            else [["files", k]])
        add([("files", k)], term=SAVE if k == "load" else [])
        add([], term=(SAVE if k == "load" else []) + [["files", k]])
    add([("files", "load")], term=SAVE, clean=True)
    add([("files", "load"), ("gridding_opts", "center")], term=SAVE,
        clean=True)
    # real runs starting from a stored, computed simulation
    for fn in ("forward", "misfit", "gradient"):
        for clean in (False, True):
            cases.append({"file": [], "term": [["files", "save"],
                                               ["files", "load"]] +
                          ([["files", "model"]] if clean else []),
                          "fn": fn, "dry": False, "clean": clean,
                          "usec": "files", "loadcomputed": True})
    cases.append({"file": [], "term": [["files", "cache"], ["files", "model"]],
                  "fn": "misfit", "dry": False, "clean": True,
                  "usec": "files", "loadcomputed": True})
    # explicit remove_empty without any selection
    add([("data", "remove_empty")], fn="misfit")
    add([("data", "remove_empty"), ("simulation", "gridding"),
         ("solver_opts", "plain"), ("solver_opts", "maxit")], fn="misfit",
        dry=False)
    # real runs: functions x solver/noise/data options (gridding = same)
    base = [("simulation", "gridding"), ("solver_opts", "plain"),
            ("solver_opts", "maxit")]
    nreal = 10 if tier == "quick" else 90
    extra = [k for k in nonfile if k[0] in ("noise_opts", "data")] + \
        [("solver_opts", "tol"), ("solver_opts", "cycle"),
         ("simulation", "receiver_interpolation"),
         ("solver_opts", "tol_gradient"), ("simulation", "max_workers")]
    for i in range(nreal):
        fn = ["forward", "misfit", "gradient"][i % 3]
        add(base + rng.sample(extra, rng.choice([0, 1, 2])),
            term=SAVE + ([["files", "output"]] if i % 2 else []), fn=fn,
            dry=False)
    return cases


def run(tier, replay=None):
    rep = C.Report("C18", tier)
    rng = random.Random(C.seed())
    rep.assumptions += [
        "documented options are taken from docs/manual/cli.rst at run time "
        "and must equal the specification's DocKeys",
        "acceptance and effect of every option are observed through the "
        "saved simulation of a dry run; outputs of real runs (small problem, "
        "gridding=same, seeded noise generator) are compared bit-wise with "
        "the API's; the deprecated `expand` option and options under --load "
        "are not compared value by value"]
    dk, sk = doc_keys(), spec_keys()
    if dk != sk:
        raise C.MachineryError(
            f"cli.rst and CliConfig.tla list different options: only in doc "
            f"{sorted(dk - sk)}, only in spec {sorted(sk - dk)}")
    if replay:
        with open(replay) as f:
            cases = [json.load(f)["case"]["case"]]
    else:
        res = C.run_tlc("CliConfig", "CliConfig.cfg", timeout=2400)
        C.expect_tlc_ok(rep, "CliConfig: all configurations of <= 2 file "
                        "options (+unknown) x <= 1 terminal alias x function "
                        "x dry x clean", res, "C18")
        rep.cov["exhaustive"] = True
        r = C.run_tlc("CliConfig", "CliConfig_dev.cfg", timeout=1200)
        C.tlc_must_run(r, "CliConfig_dev")
        rep.canary(bool(r.violated))
        if not r.violated:
            raise C.MachineryError("TLC did not find the deviations")
        cases = gen_cases(tier, rng, dk)
    from concurrent.futures import ProcessPoolExecutor
    # (the CLI starts worker pools itself: no daemonic workers here)
    with ProcessPoolExecutor(max_workers=max(4, C.NCPU//2),
                             mp_context=mp.get_context("fork")) as ex:
        runs = list(ex.map(_run, cases))
    fatal = [r for r in runs if "fatal" in r]
    if fatal:
        raise C.MachineryError(fatal[0]["fatal"])
    tl = [{k: r[k] for k in ("file", "usec", "term", "fn", "dry", "clean",
                             "obs")} for r in runs]
    for r, c in zip(runs, cases):
        r["loadcomputed"] = c.get("loadcomputed", False)
    bad = C.validate_batch(rep, "TraceCliConfig", "TraceCliConfig.cfg", tl,
                           "impl")
    badidx = dict(bad)
    rep.add_traces(len(runs) - len(badidx))
    for i, why in sorted(badidx.items()):
        r = runs[i]
        key = (f"file={r['file']};term={r['term']};fn={r['fn']};"
               f"dry={r['dry']};clean={r['clean']};usec={r['usec']}")
        rep.violation(f"C18:run:{why}:{key}",
                      f"CLI run disagrees with CliConfig.tla / the API "
                      f"({why}); observed {r['obs']}; {r['notes']}",
                      {"case": cases[i], "obs": r["obs"],
                       "notes": r["notes"]})
    rep.cov["runs"] = len(runs)
    rep.cov["real_runs"] = sum(1 for r in runs if not r["dry"])
    rep.cov["documented_keys_exercised"] = len(
        {tuple(k) for r in runs for k in r["file"]} & dk)
    rep.sample({k: runs[5][k] for k in ("file", "term", "fn", "dry", "obs")})
    good = [t for i, t in enumerate(tl) if i not in badidx]
    if good and not replay:
        import copy
        muts = []
        t = copy.deepcopy([g for g in good if g["obs"]["outKeys"]][0])
        t["obs"]["outKeys"] = t["obs"]["outKeys"] + ["gradient"] \
            if "gradient" not in t["obs"]["outKeys"] else ["data"]
        muts.append(t)
        t = copy.deepcopy([g for g in good if g["obs"]["errAt"] == "parse"][0])
        t["obs"]["errAt"] = ""
        t["obs"]["outKeys"] = ["configuration", "data"]
        muts.append(t)                  # unknown key silently accepted
        t = copy.deepcopy([g for g in good if g["obs"]["eff"]
                           and g["obs"]["eff"][0][2] == "term"][0])
        t["obs"]["eff"][0][2] = "file"  # file wins over terminal
        muts.append(t)
        t = copy.deepcopy(good[0])
        t["obs"]["apiEqual"] = False
        muts.append(t)
        cb = C.validate_batch(rep, "TraceCliConfig", "TraceCliConfig.cfg",
                              muts, "canaries", count=False)
        cbi = {b[0] for b in cb}
        for i in range(len(muts)):
            rep.canary(i in cbi)
        if len(cbi) != len(muts):
            raise C.MachineryError("canaries accepted: " + str(
                sorted(set(range(len(muts))) - cbi)))
    return rep.finish()
