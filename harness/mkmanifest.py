"""Writes /verif/MANIFEST.json from the table below (single source)."""
import json
import os
import subprocess

V = os.path.dirname(os.path.dirname(os.path.abspath(__file__)))

CLAIMED = {
 "C05": dict(
  technique="TLA+ explicit-stack model of multigrid() (MGCycle.tla) checked "
            "exhaustively by TLC + TLC trace validation of recorded "
            "emg3d.solve executions (TraceMGCycle.tla)",
  text="TLC checks all C05 invariants (>=2 cells, halve only even>2, no line "
       "relaxation along 2-cell directions, exact bottom level = printed "
       "levels, documented V/W/F order, sc/lr advance once per cycle, "
       "termination) on every configuration of bounded families (all shapes "
       "2..12^3 quick / 2..40^3 thorough, n<=1024 per direction, cycling "
       "patterns); every step of >2000 (thorough: >90000) real emg3d.solve "
       "runs is validated by TLC against the same model with all invariants "
       "on, so a code change that alters which grid is visited next is "
       "rejected.",
  note="Trusted: TLC, the recorder (module-attribute wrappers in "
       "harness/mgrec.py), numerics stubbed in most runs (control code is "
       "real).  Shapes beyond the explored bounds are not covered.",
  ref="DESIGN.md section 5 (C05)", engine="tlc-mgcycle"),
}

NA = {
}

CLAIMED["C01"] = dict(
  technique="TLA+ model of solve()/_terminate/krylov() with SciPy solver "
            "skeletons (Solve.tla) checked exhaustively by TLC + TLC trace "
            "validation of recorded emg3d.solve calls (TraceSolve.tla) with "
            "residuals from an independently assembled operator",
  text="TLC checks P1-P8 (exit 0 => residual below tol for the field the "
       "caller ends up with, PEC, dtype, reported figures describe that "
       "field, zero source => zero field, failure always reported, return "
       "shape) on every path of solve() for all mode/solver/field/source "
       "combinations, and must find the violation when a named deviation is "
       "switched on.  Each recorded real solve (420 quick / 6000 thorough "
       "over cycles x solvers x patterns x tol x maxit x supplied/fresh x "
       "zero source x anisotropy x mu_r/eps_r x Laplace/frequency) is "
       "validated by TLC against the model, with the properties evaluated "
       "on observations computed by an operator assembled independently of "
       "emg3d.core.",
  note="Trusted: TLC, harness/fit.py (cross-checked against emg3d to 1e-13 "
       "and, under C02, against the TLA+ reference), SciPy's solvers as the "
       "environment.  Runs within rounding slack of a decision threshold "
       "are skipped (counted).  Grids up to 16^3.",
  ref="DESIGN.md section 5 (C01)", engine="tlc-solve")


PLANNED = []
NA_FIXED = {
}

CLAIMED["C12"] = dict(
  technique="TLA+ models of the Simulation caches with provenance "
            "(SimCache.tla) and of the computational-grid caches "
            "(GridCache.tla) checked by TLC + replay of TLC-generated "
            "behaviours (graph edge cover and simulation) on real "
            "emg3d.Simulation objects with projection and fresh-simulation "
            "comparison after every step",
  text="TLC checks FreshResults, CachesCoherent, CopyIndependent and "
       "TolRestored for all histories (<=6 operations quick; the complete "
       "abstract graph thorough) of the C12 alphabet (incl. "
       "compute(observed=True)) over two simulation objects, in-memory, "
       "file-based and layered; provenance = (model, observed data).  "
       "GridCache: FreshGrid, NeverFails, CachesCoherent, Sharing on the "
       "complete graph of all seven gridding modes.  Behaviours enumerated "
       "by TLC are replayed on real simulations (6 survey/model/option "
       "variants incl. provided grids and layered mode; electric, magnetic "
       "and relative receivers, NaN data): every returned value is compared "
       "with a fresh simulation's value for the provenance the spec predicts "
       "and the projected object state with the spec state, so a dropped "
       "cache reset or a stale cache is a mismatch.",
  note="Trusted: TLC, the projections in harness/simreplay.py and "
       "harness/gridreplay.py (read private attributes named in the "
       "property's anchors).  Known finding: shared file_dir of copies in "
       "file mode.",
  ref="DESIGN.md section 5 (C12)", engine="tlc-simcache")

CLAIMED["C11"] = dict(
  technique="TLA+ model of process_map / worker pool / positional result "
            "storing (ProcessMap.tla) checked by TLC over all interleavings "
            "+ TLC trace validation of Start/Finish/Return/Store events "
            "logged by real worker processes under forced completion orders "
            "+ bit-identity with the sequential run",
  text="TLC checks OrderPreserved, SlotOwnResult, ExactlyOnce, NoDoubleRun, "
       "SeqInOrder, Idempotent and eventual storing for all interleavings of "
       "4 tasks on 3 workers, all four branches of process_map, two batches. "
       "Real 2x2 source-frequency surveys are computed with max_workers in "
       "1..16, memory/file mode, tqdm on/off and per-task delays that force "
       "chosen completion orders; each forward, back-propagation, J v and "
       "repeated batch is validated by TLC against the model and fields, "
       "data, misfit, gradient and J v must be bit-identical to the "
       "sequential in-memory run.",
  note="Trusted: TLC; concurrent.futures/tqdm as environment (their contract "
       "is recorded in the Return events); the harness wraps "
       "_mp.process_map so that each task carries its index.  Completion "
       "orders that the scheduler did not realise only lower coverage.",
  ref="DESIGN.md section 5 (C11)", engine="tlc-processmap")

CLAIMED["C13"] = dict(
  technique="TLA+ model of the survey's noise storage, add_noise cuts, "
            "select/remove_empty and round trips (SurveyNoise.tla) checked by "
            "TLC + replay of TLC-simulated behaviours on real emg3d.Survey "
            "objects with exact (rational) standard deviations",
  text="TLC checks, for all histories up to 3 operations (1.7 M "
       "transitions), that only explicit assignments change noise floor / "
       "relative error / explicit std (action property), that a selection "
       "is exactly the chosen sub-cube in the chosen order (against an "
       "independent reference incl. remove_empty), and that data are only "
       "removed by add_noise.  400 (thorough 8000) TLC-simulated behaviours "
       "of depth 8 are replayed on real surveys: keys, NaN masks of all data "
       "sets, storage and values of the noise settings and std^2 (exact "
       "rationals) are compared with the spec after each step; detached "
       "originals/copies must not change; |noise| = std; the misfit equals "
       "1/2 sum |r|^2/std^2 and is invariant under reordering.",
  note="Trusted: TLC, harness/surveyreplay.py.  One fixed 2x2x2 base survey "
       "(selections down to 1x1x1), menus of scalar / per-source / "
       "per-receiver / per-frequency / full-array settings.",
  ref="DESIGN.md section 5 (C13)", engine="tlc-surveynoise")

CLAIMED["C20"] = dict(
  technique="TLA+ model of the Fourier helper's frequency bookkeeping on a "
            "rank axis (Fourier.tla) checked by TLC + TLC trace validation of "
            "random setter/interpolate/freq2time histories on real "
            "emg3d.Fourier objects",
  text="TLC checks Partition, ComputeInBand, MutualExclusion, "
       "FilledCorrectly (pass-through only of the datum of that very "
       "frequency, zero above fmax, works for every coarse option) and "
       "TransformArgsCurrent for all setter histories over 4..6 required "
       "frequencies, and finds both named deviations.  300 (thorough 5000) "
       "random histories on real Fourier objects (DLF lagged/splined with "
       "three filters, FFTLog; every_x, five kinds of input_freq; signal, "
       "time and ft changes) are validated by TLC event by event: all "
       "frequencies are expressed as exact ranks, interpolate() output is "
       "classified per required frequency, extrapolation shape and spline "
       "values are observed, freq2time is compared bit-wise with the "
       "reference transform for the current settings.",
  note="Trusted: TLC; SciPy spline/PCHIP and empymod.model.tem as "
       "reference; standard DLF (pts_per_dec=0) not exercised.",
  ref="DESIGN.md section 5 (C20)", engine="tlc-fourier")

CLAIMED["C04"] = dict(
  technique="TLA+ exact-rational reference of restriction weights, linear "
            "interpolation, coarse-grid and child-sum rules (Transfer.tla) "
            "checked by TLC + TLC validation of the matrices of the real "
            "restriction/prolongation extracted by basis fields "
            "(TransferCode.tla)",
  text="TLC proves for every 1-D width vector (widths {1,2,3,5}; 2,4,6 "
       "cells) that the restriction weights are the transpose of linear "
       "interpolation, non-negative and that interpolation weights sum to "
       "one.  For 44 (thorough 400) grids with integer widths and all seven "
       "coarsening patterns the complete matrices of the real "
       "solver.restriction and solver.prolongation (real and complex) are "
       "extracted and TLC checks every entry against the exact reference, "
       "R = P^T on interior edges, row sums, non-negativity, untouched "
       "boundary rows, the every-second-node rule and that each coarse "
       "parameter is the sum of its children (all four parameters, anisotropy "
       "aliasing).",
  note="Trusted: TLC; conversion float -> small rational at 8e-16; widths "
       "restricted to {1,2,3} and at most 8 cells per direction.",
  ref="DESIGN.md section 5 (C04)", engine="tlc-transfer")

CLAIMED["C15"] = dict(
  technique="TLA+ reference of volume averaging as interval overlap with "
            "nearest-value extension (VolAvg.tla), laws checked by TLC on all "
            "1-D grid pairs + TLC validation of the real weight routine on "
            "all those pairs and of extracted 3-D matrices (VolAvgCode.tla)",
  text="TLC checks on the reference, for all pairs of 1-D grids with integer "
       "nodes in 0..5 (thorough 0..6: 14400 pairs), that weights of an "
       "output cell sum to its width (convex combination, hence range), "
       "conservation on equal regions, identity on equal grids and nearest "
       "value outside.  The real _volume_average_weights is run on all those "
       "pairs and every returned segment is checked by TLC against the "
       "reference; the matrices of the real 3-D interpolate(method='volume') "
       "and of discretize's volume_average (whose transpose the gradient "
       "applies; _interp_volume_average_adj observed to apply exactly P^T) "
       "are extracted on sampled grid triples and checked entry by entry; "
       "log mode and the resistivity/conductivity symmetry are observed.",
  note="Trusted: TLC; integer node coordinates only; 3-D through sampled "
       "triples (tensor-product structure of the code); log-mode statements "
       "are floating-point observations.",
  ref="DESIGN.md section 5 (C15)", engine="tlc-volavg")

CLAIMED["C02"] = dict(
  technique="TLA+ first-principles finite-integration operator in exact "
            "rationals (Operator.tla: incidence curl, face/edge averages) + "
            "TLC validation of the matrix of the real compiled amat_x "
            "extracted by basis fields (OperatorCode.tla)",
  text="TLC checks on the reference that the curl of every discrete gradient "
       "vanishes (all width vectors over {1,2,4} on small grids).  For 30 "
       "(thorough 130) grids of 2..5 cells per direction with dyadic widths, "
       "integer zeta and Gaussian-integer direction-dependent eta (real and "
       "complex), the full matrix of the compiled kernel is extracted "
       "(bit-equal to its Python source) and TLC checks every interior row "
       "against 1/2 D^T (zeta_a+zeta_b) D - 1/4 sum_4 eta exactly, complex "
       "symmetry, the gradient null space of the curl-curl part, and the "
       "boundary rows; residual() / the wrappers and VolumeModel's "
       "coefficients and anisotropy aliasing are observed; the harness's own "
       "assembler (oracle of C01/C03) is compared on the same instances.",
  note="Trusted: TLC.  Exactness relies on dyadic inputs; general widths and "
       "material values follow from multilinearity of the entries (not "
       "checked by TLC), VolumeModel formula checked in floating point.",
  ref="DESIGN.md section 5 (C02)", engine="tlc-operator")

CLAIMED["C17"] = dict(
  technique="TLA+ model of the save/load/convert pipeline on typed value "
            "trees (IOFormats.tla) checked by TLC + TLC trace validation of "
            "real save/convert/load chains on randomly composed objects of "
            "every registered class",
  text="TLC checks RoundTrip and ContentPreserved for every tree of depth "
       "<= 2 over the leaf kinds and every chain of up to three "
       "save/convert steps through HDF5, npz and JSON (1.9 M states).  600 "
       "(thorough 12000) random trees of depth <= 4 whose leaves are scalars, "
       "strings, None, real/complex/integer arrays (incl. NaN/inf/empty) and "
       "instances of all twelve registered classes in 26 variants (mappings, "
       "anisotropy, coordinate formats, complex strengths, NaN data, array "
       "noise, explicit std, Laplace/frequency/frequency-free fields, "
       "simulations with fields/misfit/gradient) are saved, converted "
       "through up to three formats and loaded with the real code; TLC "
       "validates the observed type tree of every load against the model and "
       "requires value equality (exact arrays, key order inside objects).",
  note="Trusted: TLC; harness equality (to_dict-based, exact).  Outside the "
       "property's alphabet and not generated: boolean arrays, lists/tuples, "
       "empty dictionaries in npz, reserved markers.",
  ref="DESIGN.md section 5 (C17)", engine="tlc-ioformats")

CLAIMED["C18"] = dict(
  technique="TLA+ model of the documented option table, parser acceptance, "
            "API keyword acceptance, terminal-over-file precedence and the "
            "run workflow (CliConfig.tla) checked by TLC + TLC validation of "
            "real CLI runs compared with the equivalent Python API calls",
  text="TLC checks, for 1.5 M configurations (<= 2 documented or unknown "
       "options in the file x <= 1 terminal alias x function x dry-run x "
       "clean), that every documented option is parsed and accepted "
       "downstream, unknown options are rejected before anything is computed "
       "or written, terminal arguments override the file, output keys per "
       "function, dry-run computes nothing and cache = load + save; the "
       "option table is re-derived from docs/manual/cli.rst at every run.  "
       "124 (thorough ~600) runs of the real entry point (every documented "
       "key alone, pairs, an unknown key per section, every terminal alias "
       "against its file counterpart, load/save/cache/clean, real forward / "
       "misfit / gradient runs) are compared with the equivalent API calls "
       "(saved simulation incl. computational grid, data, misfit, gradient "
       "bit-wise) and validated by TLC against the model.",
  note="Trusted: TLC; the harness's own option-value table (one value per "
       "documented key); options under --load are checked by provenance "
       "only; the deprecated `expand` is not exercised.",
  ref="DESIGN.md section 5 (C18)", engine="tlc-cliconfig")

CLAIMED["C09"] = dict(
  category="model_checking",
  technique="TLA+ exact-rational reference of trilinear sampling on the "
            "staggered grid and of face interpolation o curl (PointOps.tla, "
            "reusing Operator.tla's curl) + TLC validation of the real "
            "receiver functional and point-source vectors extracted entry by "
            "entry",
  text="For integer grids and points of the half-integer lattice (nodes, "
       "centres, faces, outermost cells; ~670 quick / ~14000 thorough "
       "point-component-kind instances) the linear functional of the real "
       "get_receiver(method='linear') (electric, and magnetic through "
       "get_magnetic_field) and the vectors of the real _point_vector / "
       "_point_vector_magnetic are extracted and TLC checks: functional = "
       "source vector = reference weights, entry by entry, and NaN exactly "
       "outside the second to second-last cell.  PARTIAL: arbitrary "
       "orientations and reciprocity of solved responses are floating-point "
       "observations / consequences (C02 symmetry, C01 tolerance), not "
       "decided by the specification.",
  note="Trusted: TLC; rational recognition at 1e-14; mu_r = 1 in the "
       "magnetic case; axis-aligned orientations in the TLC-checked part.",
  ref="DESIGN.md section 5 (C09)", engine="tlc-pointops")

CLAIMED["C10"] = dict(
  technique="TLA+ first-principles reference of the distribution of a finite "
            "dipole on the edges (DipoleOps.tla: cut at node planes, "
            "multilinear weights, exact rationals) + TLC validation of the "
            "vector of the real _dipole_vector and of the C10 laws on it",
  text="For electrode pairs of the half-integer lattice on small integer "
       "grids (axis-aligned, in faces, along edges, through nodes, oblique; "
       "256 quick / ~6400 thorough) the vector of the real _dipole_vector is "
       "extracted and TLC checks every entry against the reference and, on "
       "the code's own numbers, that each component sums to the electrode "
       "difference, that only edges of cells touched by the segment carry a "
       "contribution, and the signs.  PARTIAL: wires (sum of segments), point "
       "sources (unit direction), the strength and -s mu_0 scaling for "
       "frequency / Laplace / frequency-free calls, dipole<->point "
       "conversions and the square loop of magnetic dipoles (closed, planar, "
       "area, right-handed normal, centred) are floating-point observations "
       "at arbitrary positions and angles, not decided by the specification.",
  note="Trusted: TLC; widths {1,2}, extents <= 4 units, electrodes strictly "
       "inside the grid; rational recognition at 1e-13.",
  ref="DESIGN.md section 5 (C10)", engine="tlc-dipoleops")

CLAIMED["C03"] = dict(
  category="exploration",
  technique="TLA+ model of the smoothers' discrete structure (Smoother.tla: "
            "kernel dispatch, blocks, sweep order, last block, band layout) "
            "checked exhaustively by TLC + TLC validation of floating-point "
            "observations of the real smoothing() made with an operator "
            "assembled independently of emg3d.core",
  text="TLC checks for all shapes 2..5^3, line-relaxation codes 0..7 and "
       "nu 1..4 that the block relaxed last is well-defined and interior, "
       "that line kernels never run along two-cell directions, and the "
       "injectivity / band confinement of the line-system layout.  For 160 "
       "(thorough 512) calls of the real smoothing on random stretched, "
       "triaxial, mu_r, real/complex systems the harness observes with the "
       "C02-validated operator: residual vanishes on the edges TLC derives "
       "as the last block, boundary values untouched (bit-wise), exact "
       "solutions are fixed points, affinity, compiled = Python source; "
       "blocks_to_amat is fed tagged blocks and checked against the layout, "
       "core.solve against dense algebra.  The numerical content is the "
       "harness's (tolerances 1e-10..1e-12), the structure the "
       "specification's - hence the weaker level.",
  note="Trusted: TLC, harness/fit.py (validated under C02), tolerances.",
  ref="DESIGN.md section 5 (C03)", engine="tlc-smoother")

CLAIMED["C19"] = dict(
  category="exploration",
  technique="TLA+ model of the layered-mode control flow (Layered.tla: "
            "per-source tasks, receiver loop, finite-data rule, extraction "
            "points per method, forward / finite-difference schedule) "
            "checked exhaustively by TLC + TLC trace validation of recorded "
            "real layered Simulations (TraceLayered.tla) whose End event "
            "classifies every stored response against the 1-D modeller "
            "called directly; TLA+ exact-arithmetic reference of the "
            "ellipse selection and area weights (Extract1D.tla) + TLC "
            "validation of the real ellipse_indices / extract_1d output",
  text="Partial claim.  TLC decides the discrete clauses: a response is "
       "stored exactly for the triples with finite observed data (or all), "
       "it is the modeller's answer for that very triple, the modeller is "
       "asked for exactly the wanted frequencies, extraction points follow "
       "the method, the finite-difference gradient perturbs every layer of "
       "every direction once per contributing source-receiver pair (never "
       "y, vertical iff VTI) and is zero without data; extraction weights "
       "are non-negative, sum to one and are the area weights of the "
       "documented ellipse (checked entry by entry on the real code's "
       "matrices).  The agreement with the 1-D reference modeller (rtol "
       "1e-9), independence of method/ellipse and the gradient layer sums "
       "vs the misfit change under a uniform layer perturbation (rtol 1e-6) "
       "are floating-point observations made on every recorded run (60 "
       "quick / 600 thorough simulations over 6 mappings, iso/VTI, "
       "electric/magnetic point/dipole sources and receivers, 5 methods, "
       "NaN gap patterns) and handed to TLC as booleans.",
  note="Trusted: TLC, empymod as the reference modeller (environment), the "
       "recorder in harness/c19.py (wraps _multiprocessing.layered, "
       "_empymod_fwd, Model.extract_1d at run time), tolerances.  Exploration "
       "level: the numerical content is observed, not modelled.",
  ref="DESIGN.md section 5 (C19)", engine="tlc-layered")

CLAIMED["C16"] = dict(
  category="exploration",
  technique="TLA+ model of the gridding search (Gridding.tla: one action per "
            "candidate tried by meshes._stretch, loop bookkeeping folded "
            "into the calls, three directions composed by construct_mesh) "
            "checked exhaustively by TLC + TLC trace validation of recorded "
            "real construct_mesh / origin_and_widths calls "
            "(TraceGridding.tla) whose Ret event carries the postconditions "
            "evaluated by the harness on the returned widths",
  text="Partial claim.  TLC decides the search protocol: the mesh returned "
       "is the output of the first fitting candidate in ascending order of "
       "cell number and stretching, the buffer is grown from the "
       "survey-domain result of the same cell number, no permitted cell "
       "number is skipped, failure is reported (RuntimeError, or None inside "
       "construct_mesh, which then raises) only after every candidate has "
       "been tried, and construct_mesh is exactly the three per-direction "
       "results.  Each returned direction's postconditions (permitted cell "
       "count, positive widths, coverage of survey domain plus "
       "wavelength-based buffer capped by max_buffer for both buffer modes, "
       "neighbour stretching bounded by the larger factor outside a "
       "provided vector, centre on node / cell centre as requested, vector "
       "nodes kept, sea surface a node or warned) are computed by the "
       "harness from the RETURNED origin and widths with its own reading of "
       "the documented argument routing and skin-depth / wavelength / buffer "
       "formulas, and evaluated by TLC as invariants of every trace (240 "
       "quick / 4000 thorough calls over both frequency signs, property "
       "lists of length 1,2,3,4,7 in six mappings, tuple / dict / single "
       "formats, stretching pairs, width limits, pps, buffer options, "
       "centre-on-edge switches, sea surfaces, custom cell-number lists).",
  note="Trusted: TLC, the recorder (wraps meshes._stretch and "
       "meshes.origin_and_widths at run time), the harness's formulas "
       "(tolerance 1e-9 of the extent).  'No such mesh exists' is relative "
       "to the candidates the search enumerates.  estimate_gridding_opts: "
       "decision table (GridOpts.tla) + classification of the real "
       "function's output against the harness's own estimates.",
  ref="DESIGN.md section 5 (C16)", engine="tlc-gridding")

CLAIMED["C14"] = dict(
  category="exploration",
  technique="TLA+ model of Model construction / assignment on value classes "
            "(ModelState.tla) and exponent algebra of the six mappings on "
            "sigma = 10^k (Mapping.tla) checked exhaustively by TLC + TLC "
            "trace validation of real Model histories (TraceModelState.tla) "
            "and TLC validation of the recognised values of the real Map "
            "classes (MappingCode.tla) with attached floating-point "
            "observations",
  text="Partial claim.  TLC decides: non-positive / non-finite "
       "conductivities (through every mapping), permeabilities and "
       "permittivities are rejected at construction and on assignment for "
       "every subset of parameters and value class, a rejection changes "
       "nothing, the anisotropy case; on the lattice sigma = 10^k over "
       "twelve decades: round trip, the same sigma from every "
       "parametrisation, the documented chain-rule factors are the "
       "derivatives of the inverse maps, and the real Map classes return "
       "exactly these values (recognised to 1e-13).  Observed on top (handed "
       "to TLC as booleans): round trips and the chain rule at random values "
       "(against central differences of the code's own backward map and the "
       "harness's formulas), in-place contract, VolumeModel coefficients "
       "(1e-12) and solved fields (1e-6) equal for all parametrisations, "
       "anisotropy cases, mu_r / epsilon_r, frequency and Laplace domain.",
  note="Trusted: TLC, recognition of floats as lattice values, tolerances.  "
       "'The same data' is not observed separately from 'the same fields'.",
  ref="DESIGN.md section 5 (C14)", engine="tlc-mapping")

CLAIMED["C07"] = dict(
  category="exploration",
  technique="TLA+ model of the discrete structure of the sensitivity "
            "machinery (SensPipe.tla: adjoint sources from finite data, "
            "collection of the directional gradients into the rows of the "
            "anisotropy case, placement of the chain rule, shape) checked "
            "exhaustively by TLC + TLC trace validation of real "
            "Simulation.gradient runs whose numeric kernels are replaced by "
            "tag writers (TraceSensPipe.tla), with finite-difference "
            "observations of the unstubbed machinery attached",
  text="Partial claim.  TLC decides AdjointSourcesExact (a datum enters the "
       "adjoint source iff it is finite; at the receiver's absolute "
       "position, with strength conj(residual weight / -s mu_0)), "
       "CollectPartition (every <<pair, direction>> contribution ends "
       "exactly once in the row of the parameter governing that direction), "
       "ChainOnce, ShapeRule for every recorded gradient computation (48 "
       "quick / 480 thorough simulations over six mappings, four anisotropy "
       "cases, electric point / dipole / wire and magnetic sources, electric "
       "and magnetic, absolute and relative receivers, NaN gaps, scalar / "
       "array noise, explicit std).  The derivative claim is observed on "
       "the same problems: central differences of the reported misfit "
       "(h = 1e-4, fresh simulations, solver tol 1e-10) against "
       "<gradient, d> for a dense and a single-row direction, rtol 1e-4 "
       "(measured second-order convergence, error 5e-6 at h = 1e-4).",
  note="Trusted: TLC, the tag-writing stubs (harness/sens.py), tolerances; "
       "8^3 grids, computational grid = model grid, linear receiver "
       "interpolation.",
  ref="DESIGN.md section 5 (C07/C08)", engine="tlc-senspipe")

CLAIMED["C08"] = dict(
  category="exploration",
  technique="TLA+ model SensPipe.tla (incl. ExpansionIsTranspose: jvec's "
            "expansion of vector rows to edge directions is the transpose of "
            "the gradient's collection) checked by TLC + TLC trace "
            "validation of real jtvec runs with tag-writing kernels "
            "(TraceSensPipe.tla) + attached observations of J v, "
            "adjointness and jtvec(weighted residual)",
  text="Partial claim.  TLC decides the structure of jtvec (the gradient "
       "machinery with the residual replaced: adjoint sources exactly where "
       "w / weights is finite, collection, chain rule, shape) for "
       "gridding='same' and a provided computational grid, and the transpose "
       "relation between jvec's expansion and the gradient's collection.  "
       "Observed on every recorded problem: J v against central differences "
       "of the synthetic data (1e-4), Re<w, J v> = <J^T w, v> for complex w "
       "(1e-6) in both gridding modes, jtvec(weighted residual) = gradient "
       "(1e-7), cached gradient untouched by jtvec; adjointness also with "
       "automatic grids per source and frequency (gridding='both').",
  note="Trusted: TLC, the stubs, tolerances; gridding modes 'same' and "
       "'input' only, in-memory, 8^3 grids.",
  ref="DESIGN.md section 5 (C07/C08)", engine="tlc-senspipe")

CLAIMED["C06"] = dict(
  category="exploration",
  technique="TLA+ model of stand-alone multigrid as an iteration on the "
            "residual (Converge.tla: contraction below the cap per cycle => "
            "convergence within Need = ceil(log tol / log cap) cycles, "
            "independent of the number of unknowns) checked by TLC + TLC "
            "trace validation of recorded emg3d.solve runs on the reference "
            "problems (TraceConverge.tla), one event per fine-grid cycle",
  text="Partial claim.  Every fine-grid cycle of every recorded solve "
       "(uniform grids of one domain with 8, 16, 32, 64 cells per direction "
       "- 64 for a sample in the quick tier -, cycles F/V/W, homogeneous "
       "isotropic and triaxial 1:2:3 media, frequency and Laplace domain, "
       "1..3 smoothing steps; thorough: also non-cubic 2^a x 3 2^b x 5 2^c "
       "shapes) is classified by the harness from info['error_at_cycle'] as "
       "contracting below the cap of its medium and smoothing count or not "
       "(caps = 1.5 x the worst factor measured at 64^3 on the pinned tree); "
       "TLC evaluates EveryCycleContracts, BoundedCycles, MustConverge, "
       "NoGiveUp and HIndep (worst factor <= 1.5 x the factor of the same "
       "configuration at 16^3 + 0.01, at most two more cycles) on every "
       "trace.",
  note="Trusted: TLC, the measured caps (constants of the harness with their "
       "provenance), deterministic inputs.  The convergence factors are "
       "measurements, not modelled.",
  ref="DESIGN.md section 5 (C06)", engine="tlc-converge")

ENGINES = [
 dict(name="tlc-converge", path="spec/Converge.tla", serves_properties=["C06"],
      kind_free_text="TLA+ spec + TLC exhaustive + TLC trace validation"),
 dict(name="tlc-senspipe", path="spec/SensPipe.tla",
      serves_properties=["C07", "C08"],
      kind_free_text="TLA+ spec + TLC exhaustive + TLC trace validation"),
 dict(name="tlc-mapping", path="spec/Mapping.tla", serves_properties=["C14"],
      kind_free_text="TLA+ specs + TLC exhaustive + TLC trace / instance "
                     "validation"),
 dict(name="tlc-gridding", path="spec/Gridding.tla", serves_properties=["C16"],
      kind_free_text="TLA+ spec + TLC exhaustive + TLC trace validation"),
 dict(name="tlc-layered", path="spec/Layered.tla", serves_properties=["C19"],
      kind_free_text="TLA+ spec + TLC exhaustive + TLC trace validation; "
                     "exact-arithmetic reference + TLC validation of code "
                     "output"),
 dict(name="tlc-smoother", path="spec/Smoother.tla", serves_properties=["C03"],
      kind_free_text="TLA+ structure model + TLC validation of numeric "
                     "observations"),
 dict(name="tlc-dipoleops", path="spec/DipoleOps.tla",
      serves_properties=["C10"],
      kind_free_text="TLA+ exact-arithmetic reference + TLC validation of "
                     "extracted code vectors"),
 dict(name="tlc-pointops", path="spec/PointOps.tla",
      serves_properties=["C09"],
      kind_free_text="TLA+ exact-arithmetic reference + TLC validation of "
                     "extracted code vectors"),
 dict(name="tlc-cliconfig", path="spec/CliConfig.tla",
      serves_properties=["C18"],
      kind_free_text="TLA+ spec + TLC exhaustive + TLC trace validation"),
 dict(name="tlc-ioformats", path="spec/IOFormats.tla",
      serves_properties=["C17"],
      kind_free_text="TLA+ spec + TLC exhaustive + TLC trace validation"),
 dict(name="tlc-operator", path="spec/Operator.tla", serves_properties=["C02"],
      kind_free_text="TLA+ exact-arithmetic reference + TLC validation of "
                     "extracted code matrices"),
 dict(name="tlc-volavg", path="spec/VolAvg.tla", serves_properties=["C15"],
      kind_free_text="TLA+ exact-arithmetic reference + TLC validation of "
                     "code output"),
 dict(name="tlc-transfer", path="spec/Transfer.tla", serves_properties=["C04"],
      kind_free_text="TLA+ exact-arithmetic reference + TLC validation of "
                     "extracted code matrices"),
 dict(name="tlc-fourier", path="spec/Fourier.tla", serves_properties=["C20"],
      kind_free_text="TLA+ spec + TLC exhaustive + TLC trace validation"),
 dict(name="tlc-surveynoise", path="spec/SurveyNoise.tla",
      serves_properties=["C13"],
      kind_free_text="TLA+ spec + TLC exhaustive + behaviour replay"),
 dict(name="tlc-processmap", path="spec/ProcessMap.tla",
      serves_properties=["C11"],
      kind_free_text="TLA+ spec + TLC exhaustive + TLC trace validation"),
 dict(name="tlc-simcache", path="spec/SimCache.tla",
      serves_properties=["C12"],
      kind_free_text="TLA+ spec + TLC exhaustive + behaviour replay"),
 dict(name="tlc-solve", path="spec/Solve.tla", serves_properties=["C01"],
      kind_free_text="TLA+ spec + TLC exhaustive + TLC trace validation"),
 dict(name="tlc-mgcycle", path="spec/MGCycle.tla",
      serves_properties=["C05"],
      kind_free_text="TLA+ spec + TLC exhaustive + TLC trace validation"),
]


def main():
    built = [p for p in CLAIMED]
    checks = []
    for pid in sorted(built):
        c = CLAIMED[pid]
        checks.append(dict(
            property_id=pid,
            quick_cmd=f"./check {pid} --tier quick",
            thorough_cmd=f"./check {pid} --tier thorough",
            evidence_file=f"/verif/evidence/{pid}.json",
            replay_cmd_template=f"./check {pid} --replay {{path}}",
            engine=c["engine"],
            level_claimed=dict(category=c.get("category", "model_checking"),
                               text=c["text"], design_ref=c["ref"]),
            level_note=c["note"], technique=c["technique"]))
    na = [dict(property_id=k, reason=v) for k, v in sorted(NA_FIXED.items())]
    na += [dict(property_id=k, reason=v) for k, v in sorted(NA.items())]
    na += [dict(property_id=k,
                reason="check not built yet in this round (planned with the "
                       "TLA+ technique, see DESIGN.md section 5); not "
                       "claimed until its check is green")
           for k in PLANNED if k not in CLAIMED and k not in NA]
    commits = subprocess.run(
        ["git", "-C", "/repo", "log", "--format=%H %s"], capture_output=True,
        text=True).stdout.splitlines()
    hooks = [ln.split()[0] for ln in commits if ln.split(" ", 1)[1].startswith("verif-hook:")]
    man = dict(
        version=1,
        setup_cmd="/venv/bin/python /verif/harness/setup.py",
        hooks=dict(
            guard="EMG3D_VERIF",
            enable="No source hooks: the harness wraps emg3d module "
                   "attributes at run time (./check sets EMG3D_VERIF=1 for "
                   "itself only); /repo is used as is, numba recompiles "
                   "changed kernels on import.",
            baseline_off_cmd="/venv/bin/python /verif/harness/baseline.py",
            source_commits=hooks, add_only=True),
        engines=ENGINES, checks=checks, not_applicable=na,
        notes="Technique family: explicit TLA+ specification + TLC + "
              "conformance (trace validation / replay).  See DESIGN.md.")
    with open(os.path.join(V, "MANIFEST.json"), "w") as f:
        json.dump(man, f, indent=1)
    print("claimed:", sorted(built))


if __name__ == "__main__":
    main()
