"""Shared machinery of C07 / C08: problems, the STRUCTURE recorder (numeric
kernels replaced by tag writers, see spec/TraceSensPipe.tla) and the
floating-point observers of the real (unstubbed) sensitivity machinery."""
import warnings

NP, NR = 2, 3
MAPS = ["Conductivity", "Resistivity", "LgConductivity", "LgResistivity",
        "LnConductivity", "LnResistivity"]
CASES = ["isotropic", "VTI", "HTI", "triaxial"]


def fwd_map(name, cond):
    import numpy as np
    return {"Conductivity": lambda c: c, "Resistivity": lambda c: 1.0/c,
            "LgConductivity": np.log10, "LgResistivity": lambda c: -np.log10(c),
            "LnConductivity": np.log, "LnResistivity": lambda c: -np.log(c)
            }[name](cond)


class Case:
    def __init__(self, job):
        import numpy as np
        import emg3d
        self.job = job
        rng = np.random.default_rng(job["seed"])
        self.rng = rng
        f = np.array([2.0, 1.4, 1.0, 1.0, 1.0, 1.0, 1.4, 2.0])
        fs = {6: f[[0, 1, 2, 5, 6, 7]], 8: f,
              10: np.r_[f[:4], 1.0, 1.0, f[4:]]}
        # (cell counts differ between the directions in most cases)
        shp = [(8, 8, 8), (8, 6, 10), (10, 8, 6), (6, 10, 8)][
            job["seed"] % 4]
        self.re_scale = 1.0
        h = [80.0*fs[n]*rng.uniform(0.9, 1.1, n) for n in shp]
        self.grid = emg3d.TensorMesh(h, [-a.sum()/2 for a in h])
        self.case = job["case"]
        self.mapping = job["mapping"]
        shape = self.grid.shape_cells
        self.nrows = {"isotropic": 1, "VTI": 2, "HTI": 2, "triaxial": 3}[
            self.case]
        cx = 10**rng.uniform(-0.3, 0.3, shape)
        self.cond = [cx]
        if self.case in ("HTI", "triaxial"):
            self.cond.append(cx*rng.uniform(1, 2, shape))
        if self.case in ("VTI", "triaxial"):
            self.cond.append(cx*rng.uniform(1, 3, shape))
        self.m0 = np.array([fwd_map(self.mapping, c) for c in self.cond])
        # survey: NP source-frequency pairs, NR receivers
        if job["layout"] == "1x2":
            kinds, self.freqs = [job["src"][0]], [1.0, 2.5]
        else:
            kinds, self.freqs = job["src"][:2], [1.5]
        # everything stays inside the second to second-last cell
        lim = np.array([0.9*min(abs(n_[1]), abs(n_[-2])) for n_ in (
            self.grid.nodes_x, self.grid.nodes_y, self.grid.nodes_z)])
        self.sources = {}
        for i, k in enumerate(kinds):
            x, y, z = rng.uniform(-0.15, 0.15, 3)*lim
            az, el = rng.uniform(-180, 180), rng.uniform(-40, 40)
            if k == "ed":
                d = rng.uniform(0.05, 0.12, 3)*lim
                s = emg3d.TxElectricDipole((x-d[0], x+d[0], y-d[1], y+d[1],
                                            z-d[2], z+d[2]))
            elif k == "ep":
                s = emg3d.TxElectricPoint((x, y, z, az, el))
            elif k == "ew":
                pts = np.array([x, y, z]) + np.array(
                    [[-0.14, -0.05, 0.0], [0.0, 0.07, 0.05],
                     [0.12, -0.03, -0.03]])*lim
                s = emg3d.TxElectricWire(pts)
            else:
                s = emg3d.TxMagneticDipole((x, y, z, az, el))
            self.sources[f"Tx-{i+1}"] = s
        self.receivers = {}
        for i, (k, rel) in enumerate(zip(job["rec"], job["rel"])):
            az, el = rng.uniform(-180, 180), rng.uniform(-40, 40)
            cls = emg3d.RxElectricPoint if k == "e" else emg3d.RxMagneticPoint
            if rel:
                d = (rng.choice([-1, 1])*rng.uniform(0.35, 0.55)*lim[0],
                     rng.uniform(-0.4, 0.4)*lim[1],
                     rng.uniform(-0.15, 0.15)*lim[2])
                self.receivers[f"Rx-{i+1}"] = cls((*d, az, el), relative=True)
            else:
                p = (rng.choice([-1, 1])*rng.uniform(0.45, 0.9)*lim[0],
                     rng.uniform(-0.6, 0.6)*lim[1],
                     rng.uniform(-0.25, 0.25)*lim[2])
                self.receivers[f"Rx-{i+1}"] = cls((*p, az, el))
        self.mask = rng.random((len(self.sources), NR, len(self.freqs))) < 0.75
        if job["obs"] == "full":
            self.mask[:] = True
        if not self.mask.any():
            self.mask[0, 0, 0] = True
        self.observed = None

    def model(self, m=None):
        import emg3d
        m = self.m0 if m is None else m
        kw = {"property_x": m[0]}
        k = 1
        if self.case in ("HTI", "triaxial"):
            kw["property_y"] = m[k]
            k += 1
        if self.case in ("VTI", "triaxial"):
            kw["property_z"] = m[k]
        return emg3d.Model(self.grid, mapping=self.mapping, **kw)

    def survey(self):
        import numpy as np
        import emg3d
        nz = self.job["noise"]
        kw = {"noise_floor": 1e-15, "relative_error": 0.05}
        s = emg3d.Survey(dict(self.sources), dict(self.receivers), self.freqs,
                         **kw)
        if self.observed is not None:
            s.data['observed'][...] = self.observed
        self.apply_noise(s)
        return s

    def apply_noise(self, s):
        """Noise settings of the job, relative error scaled by re_scale."""
        import numpy as np
        nz = self.job["noise"]
        k = self.re_scale
        if self.observed is None:
            return
        if nz == "array":
            s.noise_floor = 1e-15*np.array([1.0, 2.0, 3.0])[None, :, None] \
                * np.ones(s.shape)
            s.relative_error = k*(0.03 + 0.02*np.arange(
                s.shape[2])[None, None, :]*np.ones(s.shape))
        elif nz == "std":
            s.standard_deviation = 1e-15 + k*0.05*np.abs(
                np.where(np.isfinite(self.observed), self.observed, 1.0))
        else:
            s.relative_error = k*0.05

    def simulation(self, m=None, gridding="same", survey=None):
        import numpy as np
        import emg3d
        kw = {}
        if gridding == "input":
            hc = [np.ones(a.size)*a.sum()/a.size for a in self.grid.h]
            kw["gridding_opts"] = emg3d.TensorMesh(hc, self.grid.origin)
        elif gridding == "both":
            # automatic grids per source and frequency (small ones: equal
            # cell counts, widths depending on the frequency)
            kw["gridding_opts"] = {
                'center': (0.0, 0.0, 0.0),
                'domain': ([-320, 320], [-320, 320], [-320, 320]),
                'min_width_limits': ([60, 120],)*3, 'stretching': [1.0, 1.8],
                'max_buffer': 1200, 'cell_numbers': [8, 16, 24, 32],
                'center_on_edge': False}
        return emg3d.Simulation(
            self.survey() if survey is None else survey, self.model(m),
            max_workers=1, gridding=gridding,
            receiver_interpolation='linear', tqdm_opts={'disable': True},
            verb=-1,
            solver_opts={'tol': 1e-10, 'tol_gradient': 1e-10, 'maxit': 200,
                         'sslsolver': False, 'semicoarsening': True,
                         'linerelaxation': True}, **kw)

    def prepare(self):
        """Observed data: responses of another model, with NaN gaps."""
        import numpy as np
        true = self.m0 + 0.05*np.abs(self.m0)*self.rng.standard_normal(
            self.m0.shape) if not self.mapping.startswith("L") else \
            self.m0 + 0.05*self.rng.standard_normal(self.m0.shape)
        sim = self.simulation(true)
        sim.compute()
        obs = sim.data.synthetic.data.copy()
        obs[~self.mask] = np.nan
        self.observed = obs
        return self

    def direction(self):
        """A model-shaped perturbation direction in the model's own
        parametrisation (relative for the linear mappings)."""
        import numpy as np
        d = self.rng.standard_normal(self.m0.shape)
        if not self.mapping.startswith("L"):
            d = d*np.abs(self.m0)
        return d


# --------------------------------------------------------------------------
# structure recorder
# --------------------------------------------------------------------------
def structure_trace(case, what="gradient", w=None, gridding="same"):
    """Run sim.gradient (or sim.jtvec(w)) with tag-writing kernels; returns
    the trace for TraceSensPipe (without obsok)."""
    import numpy as np
    from emg3d import maps, simulations, electrodes
    sim = case.simulation(gridding=gridding)
    sim.compute()
    _ = sim.misfit
    pairs = list(sim._srcfreq)
    recs = list(sim.survey.receivers.values())
    ev = []
    cur = {"p": 0, "acc": 0}
    orig = (maps.interp_edges_to_vol_averages, maps._interp_volume_average_adj,
            electrodes.RxElectricPoint._adjoint_source,
            electrodes.RxMagneticPoint._adjoint_source,
            simulations.Simulation._get_rfield,
            simulations.Simulation._bcompute,
            sim.model.map.derivative_chain)
    state = {"adj_calls": 0}

    def tagger(ex, ey, ez, volumes, ox, oy, oz):
        cur["acc"] += 1
        p = cur["acc"]
        ev.append({"e": "Acc", "p": p})
        ox += 10.0**(3*(p-1))
        oy += 10.0**(3*(p-1)+1)
        oz += 10.0**(3*(p-1)+2)

    def adj(oval, ogrid, nval, ngrid):
        state["adj_calls"] += 1
        for k in range(3):
            oval[k] += nval[k].flat[0]

    def decode(arr):
        v = float(np.asarray(arr).flat[0])
        if not np.all(np.asarray(arr) == v) or v != round(v):
            return None
        v = int(round(v))
        out = []
        for p in range(1, NP+1):
            for d in range(1, 4):
                n = (v // 10**(3*(p-1)+d-1)) % 10
                out += [[p, d]]*n
        return out

    def chain(gradient, mapped):
        d = 0
        m = sim.model
        for k, prop in ((1, m.property_x), (2, m.property_y),
                        (3, m.property_z)):
            if prop is not None and np.shares_memory(mapped, prop):
                d = k
        c = decode(gradient)
        ev.append({"e": "Chain", "d": d, "content": c if c is not None
                   else [[0, 0]]})

    def make_adj(cls, rtype):
        def factory(coords, strength=1.0, **kw):
            p = cur["p"]
            src = sim.survey.sources[pairs[p-1][0]]
            fkey = pairs[p-1][1]
            # which receiver: by absolute coordinates
            r = 0
            for i, rc in enumerate(recs):
                if np.allclose(np.asarray(rc.coordinates_abs(src), float),
                               np.asarray(coords, float), rtol=1e-14,
                               atol=1e-9) and isinstance(rc, rtype):
                    r = i + 1
            posok = r > 0
            strok = False
            if r:
                res = sim.data.residual.loc[pairs[p-1][0], :, fkey].data[r-1]
                wgt = sim.data.weights.loc[pairs[p-1][0], :, fkey].data[r-1]
                freq = sim.survey.frequencies[fkey]
                from scipy.constants import mu_0
                smu0 = 2j*np.pi*freq*mu_0
                want = np.conj(res*wgt/-smu0)
                strok = bool(np.isclose(strength, want, rtol=1e-12, atol=0))
            ev.append({"e": "Inject", "p": p, "r": r, "posok": bool(posok),
                       "strok": strok})
            return cls(coords, strength=strength, **kw)
        return staticmethod(factory)

    def get_rfield(self_, source, frequency):
        cur["p"] = pairs.index((source, frequency)) + 1
        return orig[4](self_, source, frequency)

    def bcompute(self_):
        out = orig[5](self_)
        for p in range(1, len(pairs)+1):
            ev.append({"e": "BackSolve", "p": p})
        return out

    maps.interp_edges_to_vol_averages = tagger
    maps._interp_volume_average_adj = adj
    electrodes.RxElectricPoint._adjoint_source = make_adj(
        electrodes.TxElectricPoint, electrodes.RxElectricPoint)
    electrodes.RxMagneticPoint._adjoint_source = make_adj(
        electrodes.TxMagneticPoint, electrodes.RxMagneticPoint)
    simulations.Simulation._get_rfield = get_rfield
    simulations.Simulation._bcompute = bcompute
    sim.model.map.derivative_chain = chain
    try:
        if what == "gradient":
            g = sim.gradient
            fin = np.isfinite(sim.data.residual.data)
        else:
            with np.errstate(invalid='ignore'):
                fin = np.isfinite(w/sim.data.weights.data)
            g = sim.jtvec(w)
    finally:
        maps.interp_edges_to_vol_averages = orig[0]
        maps._interp_volume_average_adj = orig[1]
        electrodes.RxElectricPoint._adjoint_source = orig[2]
        electrodes.RxMagneticPoint._adjoint_source = orig[3]
        simulations.Simulation._get_rfield = orig[4]
        simulations.Simulation._bcompute = orig[5]
        del sim.model.map.derivative_chain
    g = np.asarray(g)
    rows = g.reshape((-1,) + tuple(case.grid.shape_cells)) \
        if g.ndim >= 3 else g[None]
    dec = [decode(r) for r in rows]
    dup = any(d is None or any(d.count(x) > 1 for x in d) for d in dec)
    ev.append({"e": "Result", "dup": bool(dup),
               "rows": [sorted(map(list, {tuple(x) for x in d})) if d
                        else [[0, 0]] for d in dec]})
    notes = []
    want_shape = ((case.nrows,) if case.nrows > 1 else ()) + tuple(
        case.grid.shape_cells)
    if g.shape != want_shape:
        notes.append(f"shape {g.shape}, expected {want_shape}")
    if (gridding == "same") != (state["adj_calls"] == 0):
        notes.append(f"gridding={gridding}: {state['adj_calls']} calls of the "
                     f"adjoint volume averaging")
    # pairs x receivers finiteness in pair order
    finp = []
    for s, f in pairs:
        si = list(sim.survey.sources).index(s)
        fi = list(sim.survey.frequencies).index(f)
        finp.append([bool(fin[si, r, fi]) for r in range(NR)])
    return {"case": case.case, "same": gridding == "same", "fin": finp,
            "ev": ev}, notes


# --------------------------------------------------------------------------
# floating-point observations of the real machinery
# --------------------------------------------------------------------------
def observe_gradient(case, ndir=2):
    import numpy as np
    notes = []
    sim = case.simulation()
    phi = float(sim.misfit)
    if case.job["seed"] % 2:
        # a J^T w product with some other w before the gradient is asked for
        # the first time: the gradient is still that of the misfit
        w = (case.rng.standard_normal(sim.survey.shape) +
             1j*case.rng.standard_normal(sim.survey.shape))*1e-12
        _ = sim.jtvec(w)
    g = np.asarray(sim.gradient)
    want_shape = ((case.nrows,) if case.nrows > 1 else ()) + tuple(
        case.grid.shape_cells)
    if g.shape != want_shape:
        return [f"gradient shape {g.shape}, expected {want_shape}"]
    if not np.isfinite(g).all():
        return ["gradient has non-finite entries"]
    g = g.reshape(case.m0.shape)
    for k in range(ndir):
        d = case.direction()
        if k == 1 and case.nrows > 1:
            # only one row perturbed: a component must not leak into another
            keep = int(case.rng.integers(case.nrows))
            for r in range(case.nrows):
                if r != keep:
                    d[r] = 0.0
        h = 2e-5
        pp = float(case.simulation(case.m0 + h*d).misfit)
        pm = float(case.simulation(case.m0 - h*d).misfit)
        fd = (pp - pm)/(2*h)
        ip = float(np.sum(g*d))
        tol = 1e-4*max(abs(ip), 1e-3*np.linalg.norm(g)*np.linalg.norm(d))
        if not abs(fd - ip) <= tol:
            notes.append(f"direction {k}: <gradient, d> = {ip:.8e}, central "
                         f"difference of the misfit = {fd:.8e} (misfit "
                         f"{phi:.6e})")
    # a survey object that served another simulation's misfit, noise settings
    # changed since, a NEW simulation on it: gradient of ITS misfit
    sv = case.survey()
    _ = case.simulation(survey=sv).misfit
    case.re_scale = 2.0
    case.apply_noise(sv)
    s2 = case.simulation(survey=sv)
    p2 = float(s2.misfit)
    g2 = np.asarray(s2.gradient).reshape(case.m0.shape)
    d = case.direction()
    h = 2e-5
    fd = (float(case.simulation(case.m0 + h*d).misfit) -
          float(case.simulation(case.m0 - h*d).misfit))/(2*h)
    ip = float(np.sum(g2*d))
    if not abs(fd - ip) <= 1e-4*max(abs(ip), 1e-3*np.linalg.norm(g2) *
                                    np.linalg.norm(d)):
        notes.append(f"new simulation on a used survey after a change of the "
                     f"noise settings: <gradient, d> = {ip:.8e}, central "
                     f"difference of the misfit = {fd:.8e} (misfit {p2:.6e})")
    case.re_scale = 1.0
    # the same Simulation object after an in-place model update and a clean:
    # the gradient of the new model (= a fresh simulation's)
    m1 = case.m0 + (0.2*np.abs(case.m0) if not case.mapping.startswith("L")
                    else 0.2)*case.rng.uniform(-1, 1, case.m0.shape)
    set_model(sim, case, m1)
    sim.clean('computed')
    g1 = np.asarray(sim.gradient)
    gf = np.asarray(case.simulation(m1).gradient)
    if not np.allclose(g1, gf, rtol=1e-7, atol=1e-12*np.abs(gf).max()):
        notes.append("after an in-place model update and clean: the gradient "
                     "differs from a fresh simulation's")
    return notes


def set_model(sim, case, m):
    """Edit the model of a simulation in place (as an inversion does)."""
    k = 0
    sim.model.property_x[...] = m[k]
    if case.case in ("HTI", "triaxial"):
        k += 1
        sim.model.property_y[...] = m[k]
    if case.case in ("VTI", "triaxial"):
        k += 1
        sim.model.property_z[...] = m[k]


def observe_jvec(case, gridding="same"):
    import numpy as np
    notes = []
    sim = case.simulation(gridding=gridding)
    _ = sim.misfit
    grad = np.asarray(sim.gradient).copy()
    v = case.direction()
    vin = v if case.nrows > 1 else v[0]
    jv = np.array(sim.jvec(vin))
    if jv.shape != sim.survey.shape:
        return [f"jvec shape {jv.shape}"]
    if gridding == "same":
        h = 2e-5
        sp = case.simulation(case.m0 + h*v)
        sp.compute()
        sm = case.simulation(case.m0 - h*v)
        sm.compute()
        fd = (sp.data.synthetic.data - sm.data.synthetic.data)/(2*h)
        # (a receiver in an outermost cell has no response: NaN in both)
        ff = np.isfinite(fd)
        if not np.array_equal(ff, np.isfinite(jv)):
            notes.append("J v and the data are not finite at the same "
                         "entries")
        elif ff.any():
            scale = np.abs(fd[ff]).max()
            if not np.abs(jv[ff] - fd[ff]).max() <= 1e-4*scale:
                notes.append(
                    f"J v differs from the central difference of the data: "
                    f"max |diff| = {np.abs(jv[ff] - fd[ff]).max():.3e}, "
                    f"max |fd| = {scale:.3e}")
    if gridding == "same":
        # the same Simulation object after the model was edited in place and
        # the results were cleaned: J v is the derivative at the NEW model
        m1 = case.m0 + (0.2*np.abs(case.m0) if not case.mapping.startswith(
            "L") else 0.2)*case.rng.uniform(-1, 1, case.m0.shape)
        set_model(sim, case, m1)
        sim.clean('computed')
        jv1 = np.array(sim.jvec(vin))
        sp = case.simulation(m1 + h*v)
        sp.compute()
        sm = case.simulation(m1 - h*v)
        sm.compute()
        fd1 = (sp.data.synthetic.data - sm.data.synthetic.data)/(2*h)
        f1 = np.isfinite(fd1)
        if not np.array_equal(f1, np.isfinite(jv1)) or (f1.any() and not
                np.abs(jv1[f1] - fd1[f1]).max() <= 1e-4*np.abs(fd1[f1]).max()):
            notes.append("after an in-place model update and clean: J v is "
                         "not the derivative of the data at the new model")
        set_model(sim, case, case.m0)
        sim.clean('computed')
        _ = sim.misfit
        jv = np.array(sim.jvec(vin))
    # adjointness with a complex data-shaped w (finite where data are)
    w = (case.rng.standard_normal(jv.shape) +
         1j*case.rng.standard_normal(jv.shape))*np.abs(
        np.where(np.isfinite(sim.data.observed.data),
                 sim.data.observed.data, 0.0))
    jtw = np.asarray(sim.jtvec(w)).reshape(case.m0.shape)
    fin = np.isfinite(sim.data.observed.data) & np.isfinite(
        sim.data.weights.data) & np.isfinite(jv)
    lhs = float(np.real(np.sum(np.conj(w[fin])*jv[fin])))
    rhs = float(np.sum(jtw*v))
    if not abs(lhs - rhs) <= 1e-6*max(abs(lhs), abs(rhs), 1e-300):
        notes.append(f"adjointness ({gridding}): Re<w, J v> = {lhs:.10e}, "
                     f"<J^T w, v> = {rhs:.10e}")
    # the gradient is J^T applied to the weighted residual ...
    rw = sim.data.residual.data*sim.data.weights.data
    g2 = np.asarray(sim.jtvec(rw))
    if not np.allclose(g2, grad, rtol=1e-7, atol=1e-12*np.abs(grad).max()):
        notes.append(f"jtvec(weighted residual) differs from the gradient "
                     f"({gridding})")
    # ... and jtvec leaves the gradient and the residual as they were
    if not np.array_equal(np.asarray(sim.gradient), grad):
        notes.append("gradient changed by jtvec")
    return notes


def silence():
    warnings.filterwarnings("ignore")
