#!/bin/bash
# development tool: thorough tiers (checks changed most recently first)
cd "$(dirname "$0")/.."
for id in "$@"; do
  t0=$(date +%s)
  timeout 2400 ./check $id --tier thorough > /tmp/thorough-$id.log 2>&1
  echo "$id exit=$? $(( $(date +%s) - t0 ))s $(tail -1 /tmp/thorough-$id.log | cut -c1-200)"
done
