"""C03 - every smoother is a consistent relaxation of the same system.

Structure (Smoother.tla, checked exhaustively by TLC for all shapes 2..5^3,
line-relaxation codes 0..7, nu 1..4): which kernels run, which block is
relaxed last, interior edges only, band layout of the line systems.
Numerics (observed by this harness with the operator assembled independently
of emg3d.core, validated under C02): after a call of the REAL
solver.smoothing on random stretched, anisotropic, complex or real systems
 - the edges whose residual vanishes (TLC: must contain the last block),
 - tangential boundary values untouched (bit-wise),
 - an exact solution is a fixed point, the map is affine in (field, source),
 - compiled kernel = Python source,
and for the banded solver: blocks_to_amat places tagged block entries where
the layout says (TLC), core.solve returns the solution of the banded system.
"""
import json
import multiprocessing as mp
import random

from . import common as C


def _smooth(job):
    import numpy as np
    import emg3d
    from emg3d import core, solver
    from . import fit
    shape, lr, nu, seed, cplx = job[:5]
    # weakly damped class (air-like cells: omega mu sigma h^2 ~ 1e-9): the
    # node / line blocks are close to singular, tolerances are wider
    # job[5]: 0 = normal, 1 = weak (1e-9), 2 = very weak (1e-12: the pivots
    # of the block solves keep ~4 digits; only gross errors are visible)
    weak = int(job[5]) if len(job) > 5 else 0
    tol_fix, tol_zero = {0: (1e-11, 1e-10), 1: (1e-5, 1e-6),
                         2: (1e-2, 1e-3)}[weak]
    rng = np.random.default_rng(seed)
    h = [rng.uniform(1, 3, n) for n in shape]
    grid = emg3d.TensorMesh(h, (0, 0, 0))
    dt = complex if cplx else float

    def rnd(shp, lo=0.5, hi=2.0):
        a = rng.uniform(lo, hi, shp)
        return a + 1j*rng.uniform(lo, hi, shp) if cplx else a
    vol = fit.volumes(h)
    # diffusive-like coefficients: eta = -s mu0 V sigma (negative real part
    # for Laplace, imaginary for frequency); random but well-conditioned
    s = (2j*np.pi*rng.uniform(0.5, 2)) if cplx else rng.uniform(0.5, 2)
    if weak:
        s = s*(1e-9 if weak == 1 else 1e-12)
    sig = [rng.uniform(0.5, 2, shape) for _ in range(3)]
    eta = [-s*vol*sg for sg in sig]
    zeta = vol/rng.uniform(1, 2, shape)

    class VM:
        pass
    vm = VM()
    vm.grid, vm.case = grid, 'triaxial'
    vm.eta_x, vm.eta_y, vm.eta_z, vm.zeta = eta[0], eta[1], eta[2], zeta
    A, L = fit.assemble_from_eta(h, eta[0], eta[1], eta[2], zeta)
    m = L.interior_mask()
    f = 1.0 if cplx else -1.0
    edges = []
    for c in range(3):
        d = L.es[c]
        for k in range(d[2]):
            for j in range(d[1]):
                for i in range(d[0]):
                    edges.append((c+1, i, j, k))
    called = []
    saved = {}
    for ax, name in enumerate(("gauss_seidel", "gauss_seidel_x",
                               "gauss_seidel_y", "gauss_seidel_z")):
        orig = getattr(core, name)
        saved[name] = orig

        def mk(ax, orig):
            def k(*a):
                called.append(ax)
                return orig(*a)
            return k
        setattr(core, name, mk(ax, orig))

    def run(evec, svec):
        ef = emg3d.Field(grid, frequency=f)
        ef.field[:] = evec
        sf = emg3d.Field(grid, frequency=f)
        sf.field[:] = svec
        solver.smoothing(vm, sf, ef, nu, lr)
        return ef.field.copy()
    try:
        e0 = np.zeros(L.ne, dtype=dt)
        e0[m] = rnd(int(m.sum()), -1, 1)
        s0 = np.zeros(L.ne, dtype=dt)
        s0[m] = rnd(int(m.sum()), -1, 1)
        del called[:]
        e1 = run(e0, s0)
        kernels = list(called)
        r = (s0 - A @ e1)
        scale = np.linalg.norm(s0) + np.linalg.norm(A @ e1)
        zerores = [list(edges[n]) for n in np.flatnonzero(
            m & (np.abs(r) <= tol_zero*scale))]
        # boundary values (arbitrary, non-zero) must never be written; the
        # kernels assume they are zero, so results with them are not compared
        eb = e0.copy()
        eb[~m] = rnd(int((~m).sum()), 1, 2)
        ebo = run(eb, s0)
        bw = int(np.sum(ebo[~m] != eb[~m]))
        # fixed point: exact solution of the interior system
        xs = np.zeros(L.ne, dtype=dt)
        xs[m] = rnd(int(m.sum()), -1, 1)
        bs = np.zeros(L.ne, dtype=dt)
        bs[m] = (A @ xs)[m]
        xo = run(xs, bs)
        fixed = bool(np.linalg.norm(xo - xs) <= tol_fix*np.linalg.norm(xs))
        # affine in (field, source)
        e2 = np.zeros(L.ne, dtype=dt)
        e2[m] = rnd(int(m.sum()), -1, 1)
        s2 = np.zeros(L.ne, dtype=dt)
        s2[m] = rnd(int(m.sum()), -1, 1)
        al = 0.3
        lhs = run(al*e0 + (1-al)*e2, al*s0 + (1-al)*s2)
        rhs = al*e1 + (1-al)*run(e2, s2)
        affine = bool(np.linalg.norm(lhs - rhs) <= tol_fix*(
            np.linalg.norm(lhs) + 1e-300))
        # ... also for sparse perturbations: a field (or source) supported on
        # one interior edge, where whole blocks see an exactly zero
        # right-hand side:  S(e + c u, s) = S(e, s) + S(c u, 0)  and
        # S(e, s + c u) = S(e, s) + S(0, c u)
        zero = np.zeros(L.ne, dtype=dt)
        inter = np.flatnonzero(m)
        for n in rng.choice(inter, size=min(10, inter.size), replace=False):
            u = np.zeros(L.ne, dtype=dt)
            u[n] = rnd(1, 1, 2)[0]
            for a, b, c, d in ((e0 + u, s0, u, zero), (e0, s0 + u, zero, u)):
                lhs = run(a, b)
                rhs = e1 + run(c, d)
                if np.linalg.norm(lhs - rhs) > tol_fix*(
                        np.linalg.norm(lhs) + 1e-300):
                    affine = False
        # compiled = python source (one kernel call)
        samejit = True
        if max(shape) <= 4:
            for name in ("gauss_seidel", "gauss_seidel_x", "gauss_seidel_y",
                         "gauss_seidel_z"):
                setattr(core, name, saved[name].py_func)
            ep = run(e0, s0)
            samejit = bool(np.linalg.norm(ep - e1) <= {
                0: 1e-12, 1: 1e-7, 2: 1e-2}[weak]*np.linalg.norm(e1))
    finally:
        for name, orig in saved.items():
            setattr(core, name, orig)
    return {"kind": "smooth", "shape": list(shape), "lr": lr, "nu": nu,
            "kernels": kernels[:len(kernels)] if kernels else [],
            "zerores": zerores, "boundarywritten": bw, "fixedpoint": fixed,
            "affine": affine, "samejit": samejit, "seed": seed,
            "cplx": cplx, "weak": int(weak)}


def _band(job):
    import numpy as np
    from emg3d import core
    nc, seed, cplx = job
    rng = np.random.default_rng(seed)
    # ---- layout: tagged entries through blocks_to_amat
    n = 5*(nc-1)+1
    tags = []
    amat = np.zeros(6*n)
    bvec = np.zeros(n)
    tag = 1.0
    for im in range(nc-1):        # full block rows (first / normal)
        middle = np.zeros(25)
        left = np.zeros(25)
        want = []
        for k in range(5):
            for mm in range(k+1):
                middle[k+5*mm] = tag
                want.append((tag, "middle", im, k, mm))
                tag += 1
        if im > 0:
            for mm in range(1, 5):
                for k in range(mm+1):
                    left[k+5*mm] = tag
                    want.append((tag, "left", im, k, mm))
                    tag += 1
        core.blocks_to_amat(amat, bvec, middle, left, np.zeros(5), im, nc)
        for t, kind, a, b, c in want:
            pos = np.flatnonzero(amat == t)
            tags.append([int(pos[0]) if pos.size == 1 else -1, kind, a, b, c])
    # ---- exact solve of a random complex-symmetric banded system
    def rnd(*s):
        a = rng.uniform(-1, 1, s)
        return a + 1j*rng.uniform(-1, 1, s) if cplx else a
    nn = int(rng.integers(2, 30))
    M = np.zeros((nn, nn), dtype=complex if cplx else float)
    for i in range(nn):
        for j in range(max(0, i-5), i+1):
            M[i, j] = M[j, i] = rnd()
        M[i, i] += (8 + 8j) if cplx else 8
    am = np.zeros(6*nn, dtype=M.dtype)
    for j in range(nn):
        for i in range(j, min(nn, j+6)):
            am[i+5*j] = M[i, j]
    b = rnd(nn).astype(M.dtype)
    x = b.copy()
    core.solve(am.copy(), x)
    xp = b.copy()
    core.solve.py_func(am.copy(), xp)
    ok = bool(np.linalg.norm(M @ x - b) <= 1e-12*np.linalg.norm(b) and
              np.linalg.norm(x - xp) <= 1e-13*np.linalg.norm(x))
    return {"kind": "band", "tags": tags, "solveexact": ok, "nc": nc,
            "seed": seed}


def for_tlc(x):
    if x["kind"] == "smooth":
        return {k: x[k] for k in ("kind", "shape", "lr", "nu", "kernels",
                                  "zerores", "boundarywritten", "fixedpoint",
                                  "affine", "samejit")}
    return {k: x[k] for k in ("kind", "tags", "solveexact")}


def run(tier, replay=None):
    rep = C.Report("C03", tier, level="exploration")
    rng = random.Random(C.seed())
    rep.assumptions += [
        "the numerical statements (zero residual on the block relaxed last at "
        "1e-10 relative, fixed point and affinity at 1e-11, exact banded "
        "solve at 1e-12) are floating-point observations made with the "
        "operator of harness/fit.py (validated against the TLA+ reference "
        "under C02); the specification decides the structure: kernels, last "
        "block, interior edges, band layout",
        "random stretched grids (widths 1..3), triaxial eta, mu_r, real and "
        "complex systems"]
    res = C.run_tlc("Smoother", "Smoother.cfg", timeout=900)
    C.expect_tlc_ok(rep, "Smoother structure: all shapes 2..5^3 x lr 0..7 x "
                    "nu 1..4, band layout nc 2..5", res, "C03")
    rep.cov["exhaustive"] = True
    if replay:
        with open(replay) as f:
            j = json.load(f)["case"]
        jobs = [(tuple(j["shape"]), j["lr"], j["nu"], j["seed"], j["cplx"],
                 int(j.get("weak", 0)))]
        bjobs = []
    else:
        jobs = []
        shapes = [(2, 2, 2), (3, 3, 3), (2, 3, 4), (4, 2, 3), (3, 4, 2),
                  (4, 4, 4), (5, 3, 4), (3, 5, 2), (2, 2, 5), (4, 5, 3)]
        if tier == "thorough":
            shapes += [(5, 5, 5), (6, 4, 3), (3, 6, 5), (2, 6, 2), (6, 2, 6),
                       (8, 4, 4)]
        for shape in shapes:
            for lr in range(8):
                nus = [1, 2, 3, 4] if tier == "thorough" \
                    else rng.sample([1, 2, 3, 4], 2)
                for nu in nus:
                    jobs.append((shape, lr, nu, rng.randrange(10**6),
                                 rng.random() < 0.5))
        # weakly damped systems: a few per line-relaxation code
        for lr in range(8):
            for shape in rng.sample(shapes[:8], 2):
                jobs.append((shape, lr, rng.choice([1, 2, 3]),
                             rng.randrange(10**6), rng.random() < 0.5,
                             rng.choice([1, 2])))
        bjobs = [(nc, rng.randrange(10**6), rng.random() < 0.5)
                 for nc in (2, 3, 4, 5, 6) for _ in range(3)]
    with mp.get_context("fork").Pool(C.NCPU) as pool:
        insts = pool.map(_smooth, jobs, chunksize=2) + \
            (pool.map(_band, bjobs) if bjobs else [])
    bad = C.validate_batch(rep, "SmootherCode", "SmootherCode.cfg",
                           [for_tlc(x) for x in insts], "impl", chunk=500)
    badidx = dict(bad)
    rep.add_traces(len(insts) - len(badidx))
    for i, why in sorted(badidx.items()):
        x = insts[i]
        if x["kind"] == "smooth":
            key = (f"shape={x['shape']};lr={x['lr']};nu={x['nu']};"
                   f"cplx={x['cplx']};weak={x['weak']};seed={x['seed']}")
            txt = (f"kernels {x['kernels']}, boundary writes "
                   f"{x['boundarywritten']}, fixed point {x['fixedpoint']}, "
                   f"affine {x['affine']}, jit=py {x['samejit']}, "
                   f"{len(x['zerores'])} zero-residual edges")
            case = {k: x[k] for k in ("shape", "lr", "nu", "seed", "cplx", "weak")}
        else:
            key = f"band;nc={x['nc']};seed={x['seed']}"
            txt = f"solve exact {x['solveexact']}"
            case = {"nc": x["nc"], "seed": x["seed"]}
        rep.violation(f"C03:{x['kind']}:{key}",
                      f"observations do not satisfy Smoother.tla: {txt}", case)
    sm = [x for x in insts if x["kind"] == "smooth"]
    rep.cov["evaluations"] = len(insts)
    rep.cov["distinct_nontrivial"] = len({(tuple(x["shape"]), x["lr"],
                                           x["nu"] % 2) for x in sm
                                          if max(x["shape"]) > 2})
    rep.cov["rule"] = ("one smoothing call per (shape, lr code, nu, dtype) on "
                       "a random stretched anisotropic system; distinct = "
                       "distinct (shape, lr, parity of nu) with an interior "
                       "larger than one node")
    rep.sample({k: (v if k != "zerores" else v[:8]) for k, v in
                for_tlc(sm[len(sm)//2]).items()})
    if not replay:
        import copy
        muts = []
        g = copy.deepcopy(for_tlc(sm[3]))
        g["zerores"] = g["zerores"][:-6] if nu_back(g) else g["zerores"][6:]
        muts.append(g)                    # last block not exactly solved
        g = copy.deepcopy(for_tlc(sm[9]))
        g["boundarywritten"] = 2
        muts.append(g)
        g = copy.deepcopy(for_tlc([x for x in sm if x["lr"] == 7
                                   and min(x["shape"]) == 2][0]))
        g["kernels"] = [1, 2, 3]
        muts.append(g)                    # line relaxation along 2 cells
        b = [x for x in insts if x["kind"] == "band"]
        g = copy.deepcopy(for_tlc(b[1]))
        g["tags"][7][0] += 1
        muts.append(g)
        cb = C.validate_batch(rep, "SmootherCode", "SmootherCode.cfg", muts,
                              "canaries", count=False)
        cbi = {b_[0] for b_ in cb}
        for i in range(len(muts)):
            rep.canary(i in cbi)
        if len(cbi) != len(muts):
            raise C.MachineryError("canaries accepted: " + str(
                sorted(set(range(len(muts))) - cbi)))
    return rep.finish()


def nu_back(g):
    return g["nu"] % 2 == 0
