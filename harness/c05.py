"""C05 - grid hierarchy and V/W/F cycling.

1. TLC checks the C05 invariants on MGCycle for bounded families of
   configurations (exhaustive).
2. The real emg3d.solve is run (numerics stubbed for most runs, real for a
   sample); every multigrid step is recorded and the recorded executions are
   validated by TLC against MGCycle (TraceMGCycle), all invariants on.
3. Canaries: corrupted copies of accepted traces must be rejected.
"""
import copy
import itertools
import json
import multiprocessing as mp
import os
import random
import re

from . import common as C

INVS = ["TypeOK", "AtLeastTwo", "StackShape", "HalveOnlyEvenGT2", "Progress",
        "NoLRAlongTwoCells", "DepthBound", "BottomExact",
        "NotBottomCanCoarsen", "HeaderShape", "CycmaxRule", "DocOrder",
        "DocDepth", "QCIsFirstCycle", "AdvanceOncePerCycle"]
ACTIONS = ["Start", "InitSmooth", "CoarsestSmooth", "PreSmooth", "DoRestrict",
           "Enter", "Return", "Prolong", "PostSmooth", "Incr", "EndCycle"]


def _run(c):
    os.environ.setdefault("NUMBA_NUM_THREADS", "1")
    from . import mgrec
    try:
        return mgrec.run_config(c)
    except Exception as e:  # machinery problem, reported by the parent
        return {"fatal": f"{type(e).__name__}: {e}", "inp": c}


def cfgkey(t):
    c = t["cfg"]
    return ("shape=%s;cycle=%s;sc=%s;lr=%s;cl=%d;maxit=%d;nu=%s;ssl=%s" % (
        "x".join(map(str, c["shape"])), c["cycle"],
        "".join(map(str, c["sc"])), "".join(map(str, c["lr"])), c["cl"],
        c["maxit"], "".join(map(str, c["nu"])), t["inp"].get("ssl", False)))


SC_INPUTS = [0, 1, 2, 3, True, 12, 1213, 20, 310, 23]
LR_INPUTS = [0, 1, 2, 3, 4, 5, 6, 7, True, 1213, 47, 360]
NUS = [(0, 2, 1, 2), (1, 0, 2, 1), (2, 1, 1, 0), (0, 1, 1, 1), (3, 2, 3, 2)]


def gen_configs(tier, rng):
    cfgs = []

    def add(shape, cycle, sc, lr, cl, maxit, nu, **kw):
        d = dict(shape=tuple(shape), cycle=cycle, sc=sc, lr=lr, cl=cl,
                 maxit=maxit, nu=tuple(nu), stub=True)
        d.update(kw)
        cfgs.append(d)

    # (a) systematic: every shape 2..N^3 with default-like settings
    n_sys = 10 if tier == "quick" else 40
    for shape in itertools.product(range(2, n_sys+1), repeat=3):
        add(shape, rng.choice("VWF"), rng.choice([0, 1, 2, 3, True]), 0, -1,
            rng.choice([1, 2]), (0, 2, 1, 2))
    # (b) random settings on random shapes (all pattern kinds)
    n_rnd = 1200 if tier == "quick" else 30000
    pool = [2, 2, 3, 4, 4, 5, 6, 6, 7, 8, 8, 9, 10, 12, 12, 14, 16, 16, 20,
            24, 32, 40]
    for _ in range(n_rnd):
        shape = [rng.choice(pool) for _ in range(3)]
        add(shape, rng.choice("VWF"), rng.choice(SC_INPUTS),
            rng.choice(LR_INPUTS), rng.choice([-1, -1, 0, 1, 2, 3, 7]),
            rng.choice([1, 2, 3, 4, 5]), rng.choice(NUS),
            tol=rng.choice([1e-30, 0.2, 0.05]))
    # (c) single direction, all admissible n up to 1024 (quick: a sample)
    ns = list(range(2, 1025))
    if tier == "quick":
        ns = sorted(set([2, 3, 4, 6, 8, 12, 16, 24, 48, 96, 128, 160, 192, 256,
                         384, 448, 512, 640, 768, 896, 1024]
                        + rng.sample(ns, 40)))
    for n in ns:
        ax = rng.randrange(3)
        shape = [2, 2, 2]
        shape[ax] = n
        add(shape, rng.choice("VF"), rng.choice([0, True]),
            rng.choice([0, 7, True]), rng.choice([-1, 3]), 1, (0, 2, 1, 2))
    # (d) preconditioner mode (several level-0 calls), stubbed numerics
    n_pre = 160 if tier == "quick" else 3000
    for _ in range(n_pre):
        shape = [rng.choice([2, 3, 4, 6, 8, 12, 16]) for _ in range(3)]
        add(shape, rng.choice("VWF"), rng.choice(SC_INPUTS),
            rng.choice(LR_INPUTS), rng.choice([-1, 1, 2]),
            rng.choice([2, 3, 5]), rng.choice(NUS),
            ssl=rng.choice(["bicgstab", "cgs", "gcrotmk"]), tol=1e-30)
    # (d2) systematic: every combination of cycling sc and lr patterns of
    # different lengths, several preconditioner calls in a row
    for sc in (True, 12, 1213, 310, 2):
        for lr in (47, True, 1213, 360, 5):
            for shape in ((8, 4, 6), (4, 12, 2)):
                add(shape, rng.choice("VWF"), sc, lr, -1, 3, (0, 2, 1, 2),
                    ssl=rng.choice(["bicgstab", "cgs", "gcrotmk"]), tol=1e-30)
    # (e) genuine solves (numerics on), stretched and anisotropic
    n_real = 40 if tier == "quick" else 600
    for _ in range(n_real):
        shape = [rng.choice([2, 3, 4, 4, 6, 8, 8, 12, 16]) for _ in range(3)]
        add(shape, rng.choice("VWF"), rng.choice(SC_INPUTS),
            rng.choice(LR_INPUTS), rng.choice([-1, -1, 1, 2]),
            rng.choice([1, 2, 3, 6]), rng.choice(NUS), stub=False,
            ssl=rng.choice([False, False, "bicgstab", "gcrotmk"]),
            stretch=rng.choice([0, 0.3]), aniso=rng.choice([0, 1]),
            tol=rng.choice([1e-6, 1e-3]))
    return cfgs


def exhaustive(rep, tier):
    runs = [("A", "all shapes 2..12^3 x V/W/F x sc 0..3 x clevel -1..2", False),
            ("B", "single direction n in 2..1024 (x3 axes)", False),
            ("C", "multi-cycle, cycling sc/lr patterns, nu variants", True),
            ("D", "all lr codes on shapes 2..5^3", False),
            ("E", "preconditioner mode + termination (liveness)", False)]
    if tier == "thorough":
        runs.append(("T", "all shapes 2..40^3 x V/W/F x sc 0..3 x clevel", False))
    ok = True
    for name, what, cov in runs:
        res = C.run_tlc("MC_MGCycle", f"MGCycle_{name}.cfg", coverage=cov,
                        timeout=7200 if name == "T" else 1500)
        ok &= C.expect_tlc_ok(rep, f"MGCycle_{name}: {what}", res, "C05")
        if cov and res.ok:
            C.check_coverage(res, ACTIONS, f"MGCycle_{name}")
    rep.cov["exhaustive"] = True
    ok &= good_numbers(rep)
    return ok


def good_numbers(rep):
    """Extra coverage (integer part of the automatic gridding): the numbers
    meshes.good_mg_cell_nr returns are exactly the specification's GoodNr and
    have the halvings the hierarchy needs."""
    import emg3d
    res = C.run_tlc("GoodNr", "GoodNr.cfg", timeout=600)
    ok = C.expect_tlc_ok(rep, "GoodNr: every admitted cell number has the "
                         "required halvings", res, "C05")
    insts = []
    for mx in (16, 100, 384, 1024):
        for ml in (2, 3, 5, 7, 9, 19):
            for md in range(0, 6):
                out = emg3d.meshes.good_mg_cell_nr(mx, ml, md)
                insts.append({"mx": mx, "ml": ml, "md": md,
                              "out": [int(x) for x in out]})
    bad = C.validate_batch(rep, "GoodNr", "GoodNrCode.cfg", insts,
                           "good_mg_cell_nr")
    for i, why in bad:
        x = insts[i]
        rep.violation(f"C05:good_mg_cell_nr:{x['mx']},{x['ml']},{x['md']}",
                      f"good_mg_cell_nr({x['mx']}, {x['ml']}, {x['md']}) = "
                      f"{x['out'][:12]}... differs from the specification",
                      x)
        ok = False
    rep.cov["good_mg_cell_nr_lists_checked"] = len(insts)
    return ok


def tlc_tid(out):
    m = re.findall(r"/\\ tid = (\d+)", out)
    return int(m[-1]) if m else None


def validate(rep, traces, label, want_reject=False):
    """Validate traces; returns list of (trace, reason) rejected."""
    bad = []
    todo = list(traces)
    CH = 2500
    chunks = [todo[i:i+CH] for i in range(0, len(todo), CH)]
    for ch in chunks:
        cur = ch
        for _ in range(25):
            if not cur:
                break
            wd = C.scratch("trace-")
            path = os.path.join(wd, "traces.json")
            with open(path, "w") as f:
                json.dump([{"cfg": t["cfg"], "ev": t["ev"]} for t in cur], f,
                          separators=(",", ":"))
            res = C.run_tlc("TraceMGCycle", "TraceMGCycle.cfg", workdir=wd,
                            workers=1, timeout=3000,
                            env={"TRACE_FILE": path}, deadlock=False)
            C.tlc_must_run(res, f"trace validation {label}")
            if not want_reject:
                rep.add_tlc(f"TraceMGCycle[{label}] {len(cur)} traces", res,
                            "trace")
            if res.violated:
                tid = tlc_tid(res.out)
                if tid is None:
                    raise C.MachineryError("cannot find tid in TLC trace")
                bad.append((cur[tid-1], f"invariant {res.violated}"))
                cur = cur[:tid-1] + cur[tid:]
                continue
            rej = None
            for tag, raw in res.prints:
                if tag == "rejected":
                    rej = C.tla_set_ints(raw)
            if rej is None:
                raise C.MachineryError("no rejected set printed:\n" +
                                       res.out[-2000:])
            for tid in rej:
                bad.append((cur[tid-1], "rejected"))
            break
        else:
            raise C.MachineryError("too many invariant violations in traces")
    return bad


def diagnose(t):
    wd = C.scratch("diag-")
    path = os.path.join(wd, "traces.json")
    with open(path, "w") as f:
        json.dump([{"cfg": t["cfg"], "ev": t["ev"]}], f)
    res = C.run_tlc("TraceMGCycle", "TraceMGCycle.cfg", workdir=wd, workers=1,
                    timeout=600, env={"TRACE_FILE": path, "TRACE_DIAG": "1"},
                    deadlock=False)
    info = dict(res.prints)
    try:
        ml = int(info.get("maxl", "0"))
    except ValueError:
        ml = 0
    nxt = t["ev"][ml-1] if 0 < ml <= len(t["ev"]) else None
    return {"matched_events": max(ml-1, 0), "of": len(t["ev"]),
            "next_unmatched_event": nxt,
            "spec_state_there": info.get("laststate"),
            "violated": res.violated}


def canaries(rep, good, rng):
    """Corrupt accepted traces; every corruption must be rejected."""
    muts = []

    def pick(pred):
        cands = [t for t in good if any(pred(e) for e in t["ev"])]
        return copy.deepcopy(rng.choice(cands)) if cands else None

    t = pick(lambda e: e["e"] == "Restrict")
    if t:   # wrong coarse shape
        e = [x for x in t["ev"] if x["e"] == "Restrict"][0]
        e["cshape"][0] = e["cshape"][0] + 1
        muts.append(("restrict-cshape", t))
    t = pick(lambda e: e["e"] == "PreSmooth" and e["lr"] != 0)
    if t:   # wrong kernel set
        e = [x for x in t["ev"] if x["e"] == "PreSmooth"][0]
        e["k"] = [0]
        muts.append(("kernel-set", t))
    t = pick(lambda e: e["e"] == "Prolong")
    if t:   # one prolongation dropped
        i = [i for i, x in enumerate(t["ev"]) if x["e"] == "Prolong"][0]
        del t["ev"][i]
        muts.append(("drop-prolong", t))
    t = pick(lambda e: e["e"] == "EndCycle" and len(t_sc(e)) >= 0)
    if t:   # sc direction not advanced / wrong
        e = [x for x in t["ev"] if x["e"] == "EndCycle"][0]
        e["sc"] = (e["sc"] + 1) % 4
        muts.append(("endcycle-sc", t))
    t = pick(lambda e: e["e"] == "Header")
    if t:
        e = [x for x in t["ev"] if x["e"] == "Header"][0]
        e["levels"][1] += 1
        muts.append(("header-levels", t))
    t = pick(lambda e: e["e"] == "Enter" and e["level"] > 1)
    if t:   # F/W hand-over: wrong new_cycmax
        e = [x for x in t["ev"] if x["e"] == "Enter" and x["level"] > 1][0]
        e["newcm"] = 3 - e["newcm"] if e["newcm"] in (1, 2) else 1
        muts.append(("enter-newcm", t))
    t = pick(lambda e: e["e"] == "CoarsestSmooth")
    if t:   # extra level: coarsest smoothing reported one level too deep
        e = [x for x in t["ev"] if x["e"] == "CoarsestSmooth"][0]
        e["level"] += 1
        muts.append(("coarsest-level", t))
    if len(muts) < 5:
        raise C.MachineryError("could not build canaries")
    bad = validate(rep, [m[1] for m in muts], "canaries", want_reject=True)
    badids = {id(b[0]) for b in bad}
    for name, t in muts:
        rep.canary(id(t) in badids)
    if rep.cov["canaries_rejected"] != rep.cov["canaries_tried"]:
        acc = [n for n, t in muts if id(t) not in badids]
        raise C.MachineryError(f"canary traces accepted: {acc}")


def t_sc(e):
    return []


def run(tier, replay=None):
    rep = C.Report("C05", tier)
    rng = random.Random(C.seed())
    rep.assumptions += [
        "stubbed runs replace the four Gauss-Seidel kernels, core.amat_x and "
        "core.restrict by stand-ins inside the harness; the recursion, "
        "restriction(), prolongation(), MGParameters and _terminate are the "
        "real code",
        "events are recorded by wrapping emg3d.solver / emg3d.core module "
        "attributes at run time; the header is parsed from the solver's log"]
    if replay:
        with open(replay) as f:
            case = json.load(f)["case"]
        cfgs = [case["inp"]] if "inp" in case else []
        for c in cfgs:
            c["shape"] = tuple(c["shape"])
            c["nu"] = tuple(c["nu"])
    else:
        exhaustive(rep, tier)
        cfgs = gen_configs(tier, rng)
    with mp.get_context("fork").Pool(C.NCPU) as pool:
        traces = pool.map(_run, cfgs, chunksize=8)
    fatal = [t for t in traces if "fatal" in t]
    if fatal:
        raise C.MachineryError(f"harness failure: {fatal[0]}")
    # a configuration emg3d refuses (exception) has no trace to validate
    ok_traces = [t for t in traces if t["err"] is None]
    errs = [t for t in traces if t["err"] is not None]
    for t in errs:
        rep.violation("C05:error:" + cfgkey(t),
                      f"emg3d.solve raised {t['err']} for a valid "
                      "configuration", t)
    bad = validate(rep, ok_traces, "impl")
    rep.add_traces(len(ok_traces) - len(bad))
    rep.cov["configs_run"] = len(cfgs)
    rep.cov["events_validated"] = sum(len(t["ev"]) for t in ok_traces)
    rep.cov["distinct_shapes"] = len({tuple(t["cfg"]["shape"]) for t in ok_traces})
    rep.cov["distinct_configs"] = len({cfgkey(t) for t in ok_traces})
    seen = set()
    for t, why in bad:
        d = diagnose(t)
        key = f"C05:trace:{why}:{cfgkey(t)}"
        rep.violation(key, f"recorded execution not a behaviour of MGCycle "
                      f"({why}); matched {d['matched_events']}/{d['of']} "
                      f"events; next event {d['next_unmatched_event']}; "
                      f"violated={d['violated']}",
                      {"inp": t["inp"], "cfg": t["cfg"], "diag": d,
                       "ev": t["ev"][:200]})
        seen.add(id(t))
    good = [t for t in ok_traces if id(t) not in seen]
    if good:
        s = rng.choice(good)
        rep.sample({"cfg": s["cfg"], "events_first_25": s["ev"][:25],
                    "n_events": len(s["ev"])})
        if not replay:
            canaries(rep, good, rng)
    elif not replay:
        raise C.MachineryError("no accepted trace")
    return rep.finish()
