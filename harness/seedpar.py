"""Development tool (not a registered check): evaluate seeded changes in
parallel, each in its own scratch worktree of /repo (nothing is applied to
/repo itself): PYTHONPATH/EMG3D_REPO point the check at the worktree, evidence
and replays go to a scratch directory.

  python harness/seedpar.py [-j N] [--tier T] [--new SRC_DIR PID]... <seed-id>...

For a stored seed (<seed-id> under /verif/seeded) only the check is re-run and
meta.json updated.  With --new SRC PID the change in SRC (patch.diff, demo.py,
note.txt) is first confirmed (demo passes without / fails with the patch, the
test files named in note.txt or given by tests= pass with it) and stored."""
import json
import os
import re
import shutil
import subprocess
import sys
import time
from concurrent.futures import ThreadPoolExecutor

V = os.path.dirname(os.path.dirname(os.path.abspath(__file__)))
TESTS = {"C01": "tests/test_solver.py tests/test_core.py",
         "C02": "tests/test_core.py tests/test_solver.py tests/test_models.py",
         "C03": "tests/test_core.py tests/test_solver.py",
         "C04": "tests/test_core.py tests/test_solver.py tests/test_models.py",
         "C05": "tests/test_solver.py",
         "C09": "tests/test_fields.py tests/test_electrodes.py",
         "C10": "tests/test_fields.py tests/test_electrodes.py",
         "C11": "tests/test_simulations.py tests/test_multiprocessing.py",
         "C12": "tests/test_simulations.py tests/test_io.py",
         "C13": "tests/test_surveys.py tests/test_simulations.py",
         "C14": "tests/test_maps.py tests/test_models.py",
         "C15": "tests/test_maps.py",
         "C16": "tests/test_meshes.py",
         "C17": "tests/test_io.py tests/test_surveys.py tests/test_simulations.py",
         "C18": "tests/test_cli.py",
         "C19": "tests/test_multiprocessing.py tests/test_models.py "
                "tests/test_maps.py tests/test_simulations.py",
         "C20": "tests/test_time.py"}


def sh(cmd, cwd=None, env=None, timeout=7200):
    e = dict(os.environ)
    e.update(env or {})
    p = subprocess.run(cmd, shell=True, cwd=cwd, env=e, text=True,
                       stdout=subprocess.PIPE, stderr=subprocess.STDOUT,
                       timeout=timeout)
    return p.returncode, p.stdout


def evaluate(job):
    sid, pid, src, tier, confirm = job
    dst = os.path.join(V, "seeded", sid)
    wt = f"/tmp/wt/ev-{sid}"
    out = f"/tmp/wt/ev-{sid}-out"
    sh(f"git -C /repo worktree remove --force {wt}")
    shutil.rmtree(wt, ignore_errors=True)
    shutil.rmtree(out, ignore_errors=True)
    rc, o = sh(f"git -C /repo worktree add -q --detach {wt} HEAD")
    assert rc == 0, o
    os.makedirs(out + "/evidence")
    os.makedirs(out + "/replays")
    env = {"PYTHONPATH": wt, "EMG3D_REPO": wt,
           "VERIF_EVIDENCE_DIR": out + "/evidence",
           "VERIF_REPLAY_DIR": out + "/replays"}
    patch = os.path.join(src, "patch.diff")
    demo = os.path.join(src, "demo.py")
    meta = {}
    if os.path.exists(os.path.join(dst, "meta.json")) and not confirm:
        meta = json.load(open(os.path.join(dst, "meta.json")))
    meta.update({"id": sid, "property": pid})
    try:
        if confirm:
            rc0, o0 = sh(f"/venv/bin/python {demo}", cwd=wt, env=env)
        rca, oa = sh(f"git apply {patch}", cwd=wt)
        if rca != 0:
            meta["error"] = "patch does not apply: " + oa[-300:]
            return meta
        if confirm:
            rc1, o1 = sh(f"/venv/bin/python {demo}", cwd=wt, env=env)
            meta["demo_unpatched_exit"] = rc0
            meta["demo_patched_exit"] = rc1
            meta["demo_patched_tail"] = o1.strip().splitlines()[-3:]
            tests = TESTS.get(pid, "")
            rct, ot = sh("/venv/bin/python -m pytest -q -rf -p "
                         f"no:cacheprovider {tests}", cwd=wt, env=env)
            meta["tests_run"] = tests
            meta["tests_tail"] = ot.strip().splitlines()[-1:]
            failed = [ln for ln in ot.splitlines() if ln.startswith("FAILED")]
            # the two test_cli ...[subprocess] tests fail on the pinned tree
            meta["tests_pass_with_patch"] = (rct == 0) or (
                bool(failed) and all("test_cli.py" in ln and
                                     "subprocess" in ln for ln in failed))
            meta["tests_failed"] = failed[:5]
            note = os.path.join(src, "note.txt")
            if os.path.exists(note):
                meta["needs"] = open(note).read().strip()
        t0 = time.time()
        rcc, oc = sh(f"./check {pid} --tier {tier}", cwd=V, env=env)
        viol = [ln for ln in oc.splitlines() if ln.startswith("  " + pid + ":")]
        meta["check_cmd"] = f"./check {pid} --tier {tier}  (scratch worktree)"
        meta["check_exit"] = rcc
        meta["check_wall_s"] = round(time.time() - t0, 1)
        meta["check_violations"] = len(viol)
        meta["check_first_violations"] = [v[:300] for v in viol[:3]]
        meta["detected"] = rcc == 1
        meta.pop("machinery_failure", None)
        if rcc == 2:
            meta["machinery_failure"] = [ln for ln in oc.splitlines()
                                         if "MACHINERY" in ln][:2]
            meta["check_tail"] = oc.strip().splitlines()[-12:]
        with open(out + "/check.log", "w") as f:
            f.write(oc)
    finally:
        sh(f"git -C /repo worktree remove --force {wt}")
        shutil.rmtree(wt, ignore_errors=True)
    os.makedirs(dst, exist_ok=True)
    if os.path.abspath(src) != os.path.abspath(dst):
        shutil.copy(patch, os.path.join(dst, "patch.diff"))
        shutil.copy(demo, os.path.join(dst, "demo.py"))
    with open(os.path.join(dst, "meta.json"), "w") as f:
        json.dump(meta, f, indent=1)
    if meta.get("detected"):
        shutil.rmtree(out, ignore_errors=True)
    return meta


def main():
    a = sys.argv[1:]
    par, tier, jobs = 3, "quick", []
    while a:
        x = a.pop(0)
        if x == "-j":
            par = int(a.pop(0))
        elif x == "--tier":
            tier = a.pop(0)
        elif x == "--new":
            src, pid = a.pop(0).rstrip("/"), a.pop(0)
            sid = pid + "-" + os.path.basename(src)
            jobs.append((sid, pid, src, tier, True))
        else:
            d = os.path.join(V, "seeded", x)
            pid = json.load(open(os.path.join(d, "meta.json")))["property"]
            jobs.append((x, pid, d, tier, False))
    with ThreadPoolExecutor(max_workers=par) as ex:
        for m in ex.map(evaluate, jobs):
            print(json.dumps({k: m.get(k) for k in (
                "id", "demo_unpatched_exit", "demo_patched_exit",
                "tests_pass_with_patch", "check_exit", "check_violations",
                "detected", "error")}))
            for v in m.get("check_first_violations", [])[:2]:
                print("   ", v[:250])
            sys.stdout.flush()


if __name__ == "__main__":
    main()
