"""Recorder for emg3d.solve(): one event per visible Solve.tla action, with
observations computed independently of emg3d.core (harness/fit.py)."""
import numpy as np
import scipy.sparse.linalg as ssl

import emg3d
from emg3d import solver

from . import fit

SOLVERS = ("bicgstab", "cgs", "gcrotmk")


def norm_msg(m):
    if m.startswith("Error in"):
        return "Error in solver"
    return m


class Oracle:
    """Independent residual and classification for one system."""

    def __init__(self, h, sig, frequency, mu_r, eps_r, svec, tol):
        self.A, self.L = fit.assemble(h, sig[0], sig[1], sig[2], frequency,
                                      mu_r, eps_r)
        self.mask = self.L.interior_mask()
        self.s = np.asarray(svec).copy()
        self.bnorm = float(np.linalg.norm(self.s))
        self.tol = tol
        self.border = False
        self.absA = abs(self.A)

    def rnorm(self, evec):
        evec = np.asarray(evec)
        r = self.s - self.A @ evec
        return float(np.linalg.norm(r[self.mask]))

    def slack(self, evec):
        """Rounding slack of a residual norm: two correct evaluations of
        ||s - A e|| may differ by this much (cancellation)."""
        evec = np.asarray(evec)
        v = self.absA @ np.abs(evec) + np.abs(self.s)
        return float(256*np.finfo(float).eps*np.linalg.norm(v[self.mask]))

    def cls(self, evec):
        r = self.rnorm(evec)
        return self.cls_of(r, self.slack(evec))

    def cls_of(self, r, slack=0.0):
        if not np.isfinite(r):
            return "nan"
        for thr in (self.tol*self.bnorm, 10*self.bnorm):
            if thr > 0 and abs(r - thr) <= 1e-6*thr + slack:
                self.border = True
        if r < self.tol*self.bnorm:
            return "ok"
        if r > 10*self.bnorm:
            return "div"
        return "bad"

    def pec(self, evec):
        return bool(np.all(np.asarray(evec)[~self.mask] == 0))


class SolveRecorder:
    def __init__(self, oracle):
        self.o = oracle
        self.ev = []
        self.depth_pre = 0          # inside a preconditioner call
        self.in_mg_main = False
        self.main_efield = None
        self.inner_conv = False
        self.saved = {}
        self.var = None
        self.supplied = None
        self.seen_supplied = False
        self.started = False        # krylov or multigrid entered

    def _patch(self, mod, name, new):
        self.saved[(mod, name)] = getattr(mod, name)
        setattr(mod, name, new)

    def install(self, supplied):
        rec = self
        rec.supplied = supplied
        o_res, o_mg, o_te = solver.residual, solver.multigrid, solver._terminate

        def residual(model, sfield, efield, norm=False):
            out = o_res(model, sfield, efield, norm)
            if (norm and not rec.started and rec.supplied is not None
                    and efield is rec.supplied and not rec.seen_supplied):
                rec.seen_supplied = True
                rec.ev.append({"e": "SuppliedField",
                               "cls": rec.o.cls(efield.field),
                               "l2": float(out)})
            return out

        def multigrid(model, sfield, efield, var, **kw):
            level = kw.get('level', 0)
            if level == 0:
                rec.started = True
                rec.var = var
                if rec.depth_pre == 0:
                    rec.in_mg_main = True
                    rec.main_efield = efield
            try:
                return o_mg(model, sfield, efield, var, **kw)
            finally:
                if level == 0 and rec.depth_pre == 0:
                    rec.in_mg_main = False

        def _terminate(var, l2_last, l2_stag, it):
            pre = rec.depth_pre > 0
            try:
                fin = o_te(var, l2_last, l2_stag, it)
            except solver._ConvergenceError:
                if not pre:
                    rec.ev.append({"e": "UnexpectedAbort"})
                raise
            if pre:
                if fin and var.exit_message == "CONVERGED":
                    rec.inner_conv = True
            else:
                rec.ev.append({
                    "e": "MGCycle", "it": int(it),
                    "cls": rec.o.cls(rec.main_efield.field),
                    "stag": bool(l2_last >= l2_stag),
                    "stop": bool(fin),
                    "msg": norm_msg(var.exit_message) if fin else "",
                    "l2": float(l2_last)})
            return fin

        o_par = solver.MGParameters

        def MGParameters(*a, **kw):
            rec.var = o_par(*a, **kw)
            return rec.var

        self._patch(solver, "MGParameters", MGParameters)
        self._patch(solver, "residual", residual)
        self._patch(solver, "multigrid", multigrid)
        self._patch(solver, "_terminate", _terminate)

        def wrap_solver(name):
            orig = getattr(ssl, name)

            def run(A=None, b=None, x0=None, M=None, callback=None, **kw):
                rec.started = True
                Mw = None
                if M is not None:
                    def mv(v):
                        rec.depth_pre += 1
                        rec.inner_conv = False
                        try:
                            out = M.matvec(v)
                        except solver._ConvergenceError:
                            m = rec.var.exit_message if rec.var else ""
                            rec.ev.append({"e": "Psolve", "outcome":
                                           m.split(" ")[0]})
                            raise
                        finally:
                            rec.depth_pre -= 1
                        rec.ev.append({"e": "Psolve", "outcome":
                                       "converged" if rec.inner_conv
                                       else "ran"})
                        return out
                    Mw = ssl.LinearOperator(shape=M.shape, dtype=M.dtype,
                                            matvec=mv)

                def cb(x):
                    rec.ev.append({"e": "Callback", "cls": rec.o.cls(x)})
                    return callback(x)

                x, i = orig(A=A, b=b, x0=x0, M=Mw, callback=cb, **kw)
                rec.ev.append({"e": "KReturn",
                               "i": 0 if i == 0 else (1 if i > 0 else -10),
                               "cls": rec.o.cls(x)})
                return x, i
            return run

        for name in SOLVERS:
            self._patch(ssl, name, wrap_solver(name))
        return self

    def remove(self):
        for (mod, name), val in self.saved.items():
            setattr(mod, name, val)
        self.saved = {}


def make_problem(c, rng):
    """Grid, model, source for configuration c (all seeded)."""
    shape = c["shape"]
    st = c.get("stretch", 0.0)
    h = [1.0 + st*np.abs(np.arange(n) - (n-1)/2.0)*rng.uniform(0.5, 1.5, n)
         for n in shape]
    scale = c.get("hscale", 50.0)
    h = [a*scale for a in h]
    grid = emg3d.TensorMesh(h, (0, 0, 0))
    case = c.get("case", 0)
    sig = [10**rng.uniform(-2, 1, shape) for _ in range(3)]
    sx = sig[0]
    sy = sig[1] if case in (1, 3) else sx
    sz = sig[2] if case in (2, 3) else sx
    kw = dict(property_x=sx, mapping="Conductivity")
    if case in (1, 3):
        kw["property_y"] = sy
    if case in (2, 3):
        kw["property_z"] = sz
    mu_r = rng.uniform(1, 3, shape) if c.get("mu") else None
    eps_r = rng.uniform(1, 80, shape) if c.get("eps") else None
    model = emg3d.Model(grid, mu_r=mu_r, epsilon_r=eps_r, **kw)
    f = c["freq"]
    sfield = emg3d.Field(grid, frequency=f)
    L = fit.Layout(shape)
    m = L.interior_mask()
    if not c.get("zero_src"):
        kind = c.get("src", "point")
        if kind == "random":
            v = rng.standard_normal(int(m.sum()))
            if f > 0:
                v = v + 1j*rng.standard_normal(int(m.sum()))
            # keep away from outermost cells: only strictly interior edges
            sfield.field[m] = v
        else:
            idx = np.flatnonzero(m)
            for k in rng.choice(idx, size=min(3, idx.size), replace=False):
                sfield.field[k] = rng.standard_normal() * (
                    1j if f > 0 else 1.0)
        sfield.field[:] *= c.get("amp", 1.0)
    return h, grid, model, sfield, (sx, sy, sz), mu_r, eps_r


def run_config(c):
    rng = np.random.default_rng(c["seed"])
    h, grid, model, sfield, sig, mu_r, eps_r = make_problem(c, rng)
    tol = c["tol"]
    o = Oracle(h, sig, c["freq"], mu_r, eps_r, sfield.field, tol)
    sup = None
    given = c["given"]
    dtype_ok = True
    opts = dict(sslsolver=c["ssl"], semicoarsening=c["sc"],
                linerelaxation=c["lr"], cycle=c["cycle"], clevel=c["cl"],
                maxit=c["maxit"], tol=tol, nu_init=c["nu"][0],
                nu_pre=c["nu"][1], nu_coarse=c["nu"][2], nu_post=c["nu"][3],
                verb=c.get("verb", 1), log=-1, return_info=c["ret_info"])
    sup_zero_before = False
    if given != "none":
        if given == "wrongdtype":
            sup = emg3d.Field(grid, dtype=(np.float64 if c["freq"] > 0
                                           else np.complex128))
            dtype_ok = False
        else:
            sup = emg3d.Field(grid, frequency=c["freq"])
            if given == "random":
                v = rng.standard_normal(sup.field.size)
                sup.field[:] = v*(1e-3*np.linalg.norm(sfield.field) + 1e-12)
            elif given == "converged":
                # a field that already satisfies the system (own solve)
                e0 = emg3d.solve(model, sfield, sslsolver='bicgstab',
                                 semicoarsening=True, linerelaxation=True,
                                 tol=min(tol*1e-2, 1e-8), maxit=100, verb=0)
                sup.field[:] = e0.field
            elif given == "zero":
                pass
        opts["efield"] = sup
        sup_zero_before = bool(not np.any(sup.field))
        if c.get("always_return"):
            opts["always_return"] = True
    if c.get("prelude"):
        # the very same Model object was solved before (same frequency) with
        # other material values, which were then restored by an in-place edit
        # or through the setters: the recorded solve sees the CURRENT model
        saved = {k: getattr(model, k).copy() for k in (
            "property_x", "property_y", "property_z", "mu_r", "epsilon_r")
            if getattr(model, k) is not None}
        for k, v in saved.items():
            getattr(model, k)[...] = v*(3.0 if k.startswith("prop") else 1.5)
        emg3d.solve(model, sfield, sslsolver=False, semicoarsening=False,
                    linerelaxation=False, cycle='V', maxit=1, verb=0)
        for k, v in saved.items():
            if c["prelude"] == "inplace":
                getattr(model, k)[...] = v
            else:
                setattr(model, k, v)
    rec = SolveRecorder(o).install(sup if dtype_ok else None)
    err = None
    out = None
    try:
        out = emg3d.solve(model, sfield, **opts)
    except ValueError as e:
        err = str(e)
        if "same dtype" in err:
            rec.ev.append({"e": "DtypeError"})
        else:
            rec.ev.append({"e": "OtherError", "msg": err[:80]})
    except Exception as e:  # noqa
        err = f"{type(e).__name__}: {e}"
        rec.ev.append({"e": "OtherError", "msg": err[:80]})
    finally:
        rec.remove()
    # -- interpret what came back
    info = None
    retf = None
    if isinstance(out, tuple):
        retf, info = out
    elif isinstance(out, dict):
        info = out
    elif out is not None:
        retf = out
    zero_src = o.bnorm < 100*np.finfo(float).tiny
    # the PEC-zeroed supplied field as the code saw it cannot be re-created
    # afterwards; supGood is taken from the recorded SuppliedField event
    supev = [e for e in rec.ev if e["e"] == "SuppliedField"]
    cfg = {"mg": c["cycle"] is not None,
           "ssl": c["ssl"] if c["ssl"] else "none",
           "given": given != "none", "dtypeOk": dtype_ok,
           "zeroSrc": bool(zero_src), "retInfo": bool(c["ret_info"]),
           "alwaysRet": bool(c.get("always_return", False)),
           "maxit": int(c["maxit"]),
           "supGood": bool(supev and supev[0]["cls"] == "ok"),
           "supZero": bool(sup_zero_before)}
    fin = None
    if err is None:
        caller = retf if retf is not None else sup
        r_true = o.rnorm(caller.field)
        slack = o.slack(caller.field)
        fin = {"returned": retf is not None,
               "retSame": bool(retf is sup) if retf is not None else False,
               "retInfo": info is not None,
               "cls": o.cls_of(r_true, o.slack(caller.field)) if not zero_src else (
                   "ok" if not np.any(caller.field) else "bad"),
               "pec": o.pec(caller.field),
               "zero": bool(not np.any(caller.field)),
               "supZero": bool(sup is not None and not np.any(sup.field)),
               "dtypeOk": bool(caller.field.dtype == sfield.field.dtype),
               "r_true": r_true, "bnorm": o.bnorm, "slack": slack}
        if info is not None:
            a = float(info["abs_error"])
            fin.update({
                "exit": int(info["exit"]),
                "msg": norm_msg(info["exit_message"]),
                "abs": a, "rel": float(info["rel_error"])
                if np.isfinite(info["rel_error"]) else None,
                "absMatches": bool(abs(a - r_true) <= 1e-6*r_true + slack),
                "relMatches": bool(
                    zero_src or
                    abs(info["rel_error"]*o.bnorm - a) <= 1e-9*abs(a) + 1e-300),
                "refMatches": bool(
                    zero_src or abs(info["ref_error"] - o.bnorm)
                    <= 1e-12*o.bnorm),
                "it_mg": int(info["it_mg"]), "it_ssl": int(info["it_ssl"])})
        else:   # no info dict asked for: read the solver's parameter object
            a = float(rec.var.l2)
            fin.update({
                "exit": int(rec.var.exit_message != "CONVERGED"),
                "msg": norm_msg(rec.var.exit_message), "abs": a, "rel": None,
                "absMatches": bool(abs(a - r_true) <= 1e-6*r_true + slack),
                "relMatches": True, "refMatches": True,
                "it_mg": int(rec.var.it), "it_ssl": int(rec.var.ssl_it)})
    return {"cfg": cfg, "ev": rec.ev, "fin": fin, "err": err,
            "border": o.border,
            "inp": {k: (list(v) if isinstance(v, tuple) else v)
                    for k, v in c.items()}}
