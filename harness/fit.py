"""Independent finite-integration assembly (does not import emg3d.core).

A = 1/2 D^T diag(zeta_a + zeta_b) D  +  s mu_0 diag(1/4 sum_4 V sigma~)
with D the difference-quotient curl (faces x edges), built from the grid
widths only.  This is the Python twin of Operator.tla's FitRef and is compared
exactly with TLC's output for small grids under C02; C01 and C03 use it as the
oracle that is independent of the solver's own bookkeeping.

Field layout follows emg3d.Field: [fx, fy, fz], each Fortran-ordered with
shapes (nx, ny+1, nz+1), (nx+1, ny, nz+1), (nx+1, ny+1, nz).
"""
import numpy as np
import scipy.sparse as sps

MU0 = 4e-7*np.pi
EPS0 = 8.8541878128e-12
try:  # same constants SciPy ships (emg3d takes them from scipy.constants)
    from scipy.constants import mu_0 as MU0, epsilon_0 as EPS0  # noqa
except Exception:  # pragma: no cover
    pass


class Layout:
    def __init__(self, shape):
        nx, ny, nz = shape
        self.shape = (nx, ny, nz)
        self.es = [(nx, ny+1, nz+1), (nx+1, ny, nz+1), (nx+1, ny+1, nz)]
        self.fs = [(nx+1, ny, nz), (nx, ny+1, nz), (nx, ny, nz+1)]
        self.eoff = np.cumsum([0] + [int(np.prod(s)) for s in self.es])
        self.foff = np.cumsum([0] + [int(np.prod(s)) for s in self.fs])
        self.ne, self.nf = int(self.eoff[-1]), int(self.foff[-1])

    def eidx(self, c):
        """Index array (Fortran order) for edge component c."""
        n = int(np.prod(self.es[c]))
        return (self.eoff[c] + np.arange(n)).reshape(self.es[c], order='F')

    def fidx(self, c):
        n = int(np.prod(self.fs[c]))
        return (self.foff[c] + np.arange(n)).reshape(self.fs[c], order='F')

    def interior_mask(self):
        """True for interior (non-tangential-boundary) edges."""
        m = np.zeros(self.ne, dtype=bool)
        ex, ey, ez = self.eidx(0), self.eidx(1), self.eidx(2)
        m[ex[:, 1:-1, 1:-1].ravel()] = True
        m[ey[1:-1, :, 1:-1].ravel()] = True
        m[ez[1:-1, 1:-1, :].ravel()] = True
        return m


def curl(h):
    """Difference-quotient curl D (faces x edges) from widths h=(hx,hy,hz)."""
    hx, hy, hz = [np.asarray(a, dtype=float) for a in h]
    L = Layout((len(hx), len(hy), len(hz)))
    ex, ey, ez = L.eidx(0), L.eidx(1), L.eidx(2)
    fx, fy, fz = L.fidx(0), L.fidx(1), L.fidx(2)
    rows, cols, vals = [], [], []

    def add(f, e, v):
        f, e, v = np.broadcast_arrays(f, e, v)
        rows.append(f.ravel())
        cols.append(e.ravel())
        vals.append(v.ravel())

    # x-faces (nx+1, ny, nz): d_y Ez - d_z Ey
    add(fx, ez[:, 1:, :], 1/hy[None, :, None])
    add(fx, ez[:, :-1, :], -1/hy[None, :, None])
    add(fx, ey[:, :, 1:], -1/hz[None, None, :])
    add(fx, ey[:, :, :-1], 1/hz[None, None, :])
    # y-faces (nx, ny+1, nz): d_z Ex - d_x Ez
    add(fy, ex[:, :, 1:], 1/hz[None, None, :])
    add(fy, ex[:, :, :-1], -1/hz[None, None, :])
    add(fy, ez[1:, :, :], -1/hx[:, None, None])
    add(fy, ez[:-1, :, :], 1/hx[:, None, None])
    # z-faces (nx, ny, nz+1): d_x Ey - d_y Ex
    add(fz, ey[1:, :, :], 1/hx[:, None, None])
    add(fz, ey[:-1, :, :], -1/hx[:, None, None])
    add(fz, ex[:, 1:, :], -1/hy[None, :, None])
    add(fz, ex[:, :-1, :], 1/hy[None, :, None])
    D = sps.csr_matrix((np.concatenate(vals),
                        (np.concatenate(rows), np.concatenate(cols))),
                       shape=(L.nf, L.ne))
    return D, L


def _pad(a, axis):
    """Sum of the two cells adjacent to each face normal to `axis` (boundary
    faces see one cell twice - irrelevant for interior edges)."""
    lo = np.concatenate([np.take(a, [0], axis=axis), a], axis=axis)
    hi = np.concatenate([a, np.take(a, [-1], axis=axis)], axis=axis)
    return lo + hi


def face_weights(zeta):
    """zeta_a + zeta_b per face, in face ordering."""
    return np.concatenate([_pad(zeta, 0).ravel('F'), _pad(zeta, 1).ravel('F'),
                           _pad(zeta, 2).ravel('F')])


def _pad2(a, ax1, ax2):
    """Sum over the four cells around each edge (edge along the third axis)."""
    def ext(b, axis):
        z = np.zeros_like(np.take(b, [0], axis=axis))
        lo = np.concatenate([z, b], axis=axis)
        hi = np.concatenate([b, z], axis=axis)
        return lo + hi
    return ext(ext(a, ax1), ax2)


def edge_weights(eta_x, eta_y, eta_z):
    """sum_4 eta per edge (cells outside the grid count as zero; only
    boundary edges are affected)."""
    return np.concatenate([_pad2(eta_x, 1, 2).ravel('F'),
                           _pad2(eta_y, 0, 2).ravel('F'),
                           _pad2(eta_z, 0, 1).ravel('F')])


def volumes(h):
    hx, hy, hz = [np.asarray(a, dtype=float) for a in h]
    return hx[:, None, None]*hy[None, :, None]*hz[None, None, :]


def sval(frequency):
    return -frequency if frequency < 0 else 2j*np.pi*frequency


def assemble(h, sigma_x, sigma_y, sigma_z, frequency, mu_r=None, eps_r=None):
    """Return (A, Layout): the system matrix acting on full edge vectors.
    sigma_*: cell conductivities (nx, ny, nz)."""
    D, L = curl(h)
    vol = volumes(h)
    s = sval(frequency)
    zeta = vol/(1.0 if mu_r is None else mu_r)

    def eta(sig):
        st = sig if eps_r is None else sig + s*EPS0*eps_r
        return -s*MU0*vol*st
    wf = face_weights(zeta)
    we = edge_weights(eta(sigma_x), eta(sigma_y), eta(sigma_z))
    A = 0.5*(D.T @ sps.diags(wf) @ D) - 0.25*sps.diags(we)
    return A.tocsr(), L


def assemble_from_eta(h, eta_x, eta_y, eta_z, zeta):
    """Same, from given volume-averaged eta/zeta arrays (for C02)."""
    D, L = curl(h)
    wf = face_weights(np.asarray(zeta))
    we = edge_weights(np.asarray(eta_x), np.asarray(eta_y), np.asarray(eta_z))
    A = 0.5*(D.T @ sps.diags(wf) @ D) - 0.25*sps.diags(we)
    return A.tocsr(), L


def residual_norm(A, L, s_vec, e_vec):
    """|| (s - A e) restricted to interior edges ||_2 and the boundary info."""
    m = L.interior_mask()
    r = (s_vec - A @ e_vec)[m]
    return float(np.linalg.norm(r)), {
        "pec_zero": bool(np.all(e_vec[~m] == 0)),
        "src_boundary_zero": bool(np.all(s_vec[~m] == 0)),
        "opnorm_x": float(abs(A).sum(axis=1).max()*np.max(np.abs(e_vec))
                          if e_vec.size else 0.0)}
