"""C09 - receiver sampling and point sources are exact transposes.

The unit point-source vector of the REAL emg3d.fields._point_vector /
_point_vector_magnetic and the linear functional of the REAL
get_receiver(method='linear') (electric: on the field; magnetic: on
get_magnetic_field of the field), both extracted entry by entry on integer
grids for points of the half-integer lattice, are checked by TLC against each
other and against the trilinear / face-interpolation-of-curl reference of
PointOps.tla; the NaN policy for receivers outside the second to second-last
cell is checked for every point.  Oblique orientations and reciprocity
through the solver are floating-point observations.
"""
import json
import multiprocessing as mp
import random
from fractions import Fraction

from . import common as C

AZEL = {1: (0.0, 0.0), 2: (90.0, 0.0), 3: (0.0, 90.0)}


def frac(x):
    f = Fraction(float(x)).limit_denominator(200000)
    return f if abs(float(f) - x) <= 1e-14*max(1e-3, abs(x)) else None


def _extract(job):
    import numpy as np
    import emg3d
    from emg3d import fields
    from . import fit
    h, pts2, seed = job
    rng = np.random.default_rng(seed)
    hh = [np.array(a, dtype=float) for a in h]
    grid = emg3d.TensorMesh(hh, (0, 0, 0))
    shape = grid.shape_cells
    L = fit.Layout(shape)
    edges = []
    for c in range(3):
        d = L.es[c]
        for k in range(d[2]):
            for j in range(d[1]):
                for i in range(d[0]):
                    edges.append((c+1, i, j, k))
    P = np.array(pts2, dtype=float)/2.0
    # frequency domain and Laplace domain (negative "frequency": s real,
    # real-valued fields) alternate between the instances
    freq = 1.0 if seed % 2 else -2.0
    model = emg3d.Model(grid, 10**rng.uniform(-1, 1, shape),
                        mapping='Conductivity')
    smu0 = emg3d.Field(grid, frequency=freq).smu0
    notes = []
    # receiver functionals: one column per basis field, all points at once
    Rel = {c: np.zeros((len(P), L.ne)) for c in (1, 2, 3)}
    Rmg = {c: np.zeros((len(P), L.ne)) for c in (1, 2, 3)}
    for n in range(L.ne):
        ef = emg3d.Field(grid, frequency=freq)
        ef.field[n] = 1.0
        hf = fields.get_magnetic_field(model, ef)
        for c in (1, 2, 3):
            az, el = AZEL[c]
            rec = (P[:, 0], P[:, 1], P[:, 2], az, el)
            Rel[c][:, n] = np.real(fields.get_receiver(ef, rec, 'linear'))
            v = fields.get_receiver(hf, rec, 'linear')*smu0
            if freq < 0 and (np.iscomplexobj(hf.field) or
                             np.iscomplexobj(v)):
                notes.append("Laplace domain: magnetic field / response "
                             "is not real-valued")
            if np.nanmax(np.abs(np.nan_to_num(v.imag))) > 1e-12:
                notes.append("magnetic functional not real after removing "
                             "s mu_0")
            Rmg[c][:, n] = np.real(v)
    # what was computed on another grid before (same cell counts, other
    # widths) must not matter
    sib = emg3d.TensorMesh([a[::-1].copy() + 0.5 for a in hh], (0, 0, 0))
    try:
        mid = tuple(float(s_.sum()/2) for s_ in sib.h)
        fields._point_vector_magnetic(sib, (*mid, 0., 0.), freq)
        fields._point_vector(sib, (*mid, 0., 0.))
    except Exception:  # noqa
        pass
    out = []
    for ip, p2 in enumerate(pts2):
        for c in (1, 2, 3):
            az, el = AZEL[c]
            coo = (P[ip, 0], P[ip, 1], P[ip, 2], az, el)
            for kind, R in (("electric", Rel), ("magnetic", Rmg)):
                row = R[c][ip]
                nan = bool(np.any(np.isnan(row)))
                ent_r, ent_s, ok = [], [], True
                inside = all(0 <= P[ip, d] <= grid.nodes_x[-1]
                             if d == 0 else True for d in range(3))
                try:
                    if kind == "electric":
                        vec = fields._point_vector(grid, coo).field
                    else:
                        vec = np.real(fields._point_vector_magnetic(
                            grid, coo, freq).field*smu0)
                except ValueError:
                    vec = None
                except Exception as e:  # noqa
                    vec = None
                    ok = False
                    notes.append(f"point-source vector raised "
                                 f"{type(e).__name__}: {str(e)[:80]}")
                for name, arr, ent in (("rec", row, ent_r),
                                       ("src", vec, ent_s)):
                    if arr is None or (name == "rec" and nan):
                        continue
                    scale = np.max(np.abs(arr)) or 1.0
                    for n in np.flatnonzero(np.abs(arr) > 1e-13*scale):
                        f = frac(float(arr[n]))
                        if f is None:
                            ok = False
                            f = Fraction(0)
                        ent.append([*edges[n], f.numerator, f.denominator])
                    if kind == "electric" and any(e[0] != c for e in ent):
                        ok = False
                out.append({"h": [[int(x) for x in a] for a in h],
                            "p": [int(x) for x in p2], "comp": c,
                            "kind": kind, "src": ent_s, "rec": ent_r,
                            "nan": nan, "obs": ok and not notes,
                            "notes": notes})
    # oblique orientations: rotation factors times the axis functionals
    obs = []
    ef = emg3d.Field(grid, frequency=freq)
    ef.field[:] = rng.standard_normal(L.ne) + (
        1j*rng.standard_normal(L.ne) if freq > 0 else 0.0)
    near = [(0.004, 0.0), (89.998, 0.0), (0.0, 0.003), (30.0, 89.998),
            (-0.003, -0.002), (179.997, 0.0), (90.0, 0.004)]
    for it in range(6 + len(near)):
        az, el = (rng.uniform(-180, 180), rng.uniform(-90, 90)) if it < 6 \
            else near[it-6]
        ip = rng.integers(len(P))
        f = emg3d.electrodes.rotation(az, el)
        terms = [f[c-1]*(Rel[c][ip] @ ef.field) for c in (1, 2, 3)]
        want = sum(terms)
        mag = sum(abs(t) for t in terms)     # rounding is relative to this
        got = fields.get_receiver(ef, (*P[ip], az, el), 'linear')
        if np.isnan(want) != np.isnan(got) or (
                not np.isnan(got) and abs(got - want) > 1e-12*mag):
            obs.append("oblique receiver is not the rotated combination")
        try:
            v = fields._point_vector(grid, (*P[ip], az, el)).field
            if not np.isnan(want) and abs(v @ ef.field - want) > \
                    1e-12*mag:
                obs.append("oblique point source is not the transpose")
        except ValueError:
            pass
        except Exception as e:  # noqa
            obs.append(f"oblique point source raised {type(e).__name__}")
    # the same grid far from the origin (UTM-like coordinates): a receiver in
    # an outermost cell yields NaN however close it is to the inner node, one
    # just inside the second cell yields a number - in metres, not relative
    # to the size of the coordinates
    org = np.array([5.0e5, 6.5e6, -3.0e3])
    hb = [a*50.0 for a in hh]
    gbig = emg3d.TensorMesh(hb, org)
    eb = emg3d.Field(gbig, frequency=freq)
    eb.field[:] = rng.standard_normal(eb.field.size)
    nb = [gbig.nodes_x, gbig.nodes_y, gbig.nodes_z]
    for d in range(3):
        if len(nb[d]) < 5:
            continue
        mid = [(n_[1] + n_[-2])/2 for n_ in nb]
        for side in (0, 1):
            inner = nb[d][1] if side == 0 else nb[d][-2]
            sgn = -1.0 if side == 0 else 1.0
            for dist in (0.5, 5.0, 40.0):
                if dist >= 0.9*(hb[d][0] if side == 0 else hb[d][-1]):
                    continue
                for inside, want_nan in ((sgn*dist, True), (-sgn*dist, False)):
                    pt = list(mid)
                    pt[d] = inner + inside
                    for xtype in ('electric', 'magnetic'):
                        if xtype == 'electric':
                            got = fields.get_receiver(eb, (*pt, 20., 10.),
                                                      'linear')
                        else:
                            mb = emg3d.Model(gbig, 1.0)
                            hf = fields.get_magnetic_field(mb, eb)
                            got = fields.get_receiver(hf, (*pt, 20., 10.),
                                                      'linear')
                        if bool(np.isnan(got)) != want_nan:
                            obs.append(
                                f"UTM-like grid, {xtype} receiver {dist} m "
                                f"{'outside' if want_nan else 'inside'} the "
                                f"{'second' if side == 0 else 'second-last'}"
                                f" node in direction {d}: "
                                f"{'a number' if want_nan else 'NaN'}")
    if obs:
        out[0]["obs"] = False
        out[0]["notes"] = out[0]["notes"] + obs
    return out


def lattice_points(h, rng, n):
    ext = [2*sum(a) for a in h]
    pts = set()
    nodes = [[2*sum(a[:j]) for j in range(len(a)+1)] for a in h]
    special = [sorted(set(nd + [nd[1]-1, nd[1]+1, nd[-2]-1, nd[-2]+1,
                                (nd[1]+nd[2])//2])) for nd in nodes]
    while len(pts) < n:
        u = rng.random()
        if u < 0.25:
            p = tuple(rng.choice(special[d]) for d in range(3))
        elif u < 0.85:      # inside the admissible region
            p = tuple(rng.randrange(nodes[d][1], nodes[d][-2]+1)
                      for d in range(3))
        else:
            p = tuple(rng.randrange(0, ext[d]+1) for d in range(3))
        if all(0 <= p[d] <= ext[d] for d in range(3)):
            pts.add(p)
    return [list(p) for p in pts]


def for_tlc(x):
    return {k: x[k] for k in ("h", "p", "comp", "kind", "src", "rec", "nan",
                              "obs")}


def run(tier, replay=None):
    rep = C.Report("C09", tier)
    rng = random.Random(C.seed())
    rep.assumptions += [
        "integer cell widths, points on the half-integer lattice (including "
        "nodes, cell centres, faces and the outermost cells), axis-aligned "
        "unit orientations: all weights are small rationals (accepted at "
        "1e-14); the factor s mu_0 of the magnetic case is divided out by "
        "the harness; mu_r = 1",
        "NOT decided by the specification: arbitrary angles (observed: the "
        "rotated combination of the axis functionals, 1e-12) and reciprocity "
        "of solved responses, which is a numerical consequence of this "
        "transpose identity, the operator symmetry (C02) and the solver "
        "tolerance (C01)"]
    if not replay:
        res = C.run_tlc("PointLemma", "PointLemma.cfg" if tier == "quick"
                        else "PointLemma_T.cfg", timeout=2400)
        C.expect_tlc_ok(rep, "PointLemma: partition of unity and no magnetic "
                        "response of gradients, every lattice point of the "
                        "admissible region of small grids", res, "C09")
        rep.cov["exhaustive"] = True
    if replay:
        with open(replay) as f:
            j = json.load(f)["case"]
        jobs = [(j["h"], [j["p"]], 0)]
    else:
        ngrid = 8 if tier == "quick" else 60
        npts = 14 if tier == "quick" else 40
        jobs = []
        for _ in range(ngrid):
            h = [[rng.choice([1, 1, 2, 3]) for _ in range(rng.choice([3, 4, 5, 6]))]
                 for _ in range(3)]
            jobs.append((h, lattice_points(h, rng, npts),
                         rng.randrange(10**6)))
    with mp.get_context("fork").Pool(C.NCPU) as pool:
        res = pool.map(_extract, jobs, chunksize=1)
    insts = [x for r in res for x in r]
    bad = C.validate_batch(rep, "PointOps", "PointOps.cfg",
                           [for_tlc(x) for x in insts], "impl", chunk=400)
    # the exhaustive part of this check is TLC's evaluation of the reference
    badidx = dict(bad)
    rep.add_traces(len(insts) - len(badidx))
    for i, why in sorted(badidx.items()):
        x = insts[i]
        rep.violation(f"C09:code:{why}:{x['kind']};comp={x['comp']};"
                      f"h={x['h']};p2={x['p']}",
                      f"{x['kind']} point at doubled coordinates {x['p']} "
                      f"(component {x['comp']}): {why}; {x['notes'][:3]}",
                      {"h": x["h"], "p": x["p"]})
    rep.cov["instances"] = len(insts)
    rep.cov["in_region"] = sum(1 for x in insts if not x["nan"])
    rep.cov["nan_points"] = sum(1 for x in insts if x["nan"])
    s = [x for x in insts if not x["nan"] and len(x["src"]) > 3]
    rep.sample(for_tlc(s[0]) if s else for_tlc(insts[0]))
    if not replay and s:
        import copy
        muts = []
        g = copy.deepcopy(for_tlc(s[0]))
        g["rec"][0][4] += 1
        muts.append(g)
        g = copy.deepcopy(for_tlc(s[-1]))
        g["src"] = g["src"][1:]
        muts.append(g)
        g = copy.deepcopy(for_tlc([x for x in insts if x["nan"]][0]))
        g["nan"] = False
        muts.append(g)
        m = [x for x in s if x["kind"] == "magnetic"]
        g = copy.deepcopy(for_tlc(m[0]))
        g["src"][0][4] = -g["src"][0][4]
        muts.append(g)
        cb = C.validate_batch(rep, "PointOps", "PointOps.cfg", muts,
                              "canaries", count=False)
        cbi = {b[0] for b in cb}
        for i in range(len(muts)):
            rep.canary(i in cbi)
        if len(cbi) != len(muts):
            raise C.MachineryError("canaries accepted: " + str(
                sorted(set(range(len(muts))) - cbi)))
    return rep.finish()
