"""C10 - sources inject exactly their nominal moment in their nominal
direction.

The vector of the REAL emg3d.fields._dipole_vector is extracted for electrode
pairs of the half-integer lattice on small integer grids (axis-aligned, on
faces / edges / through nodes, oblique) and TLC checks it against the
first-principles reference of DipoleOps.tla (cut at node planes, multilinear
distribution of every piece) and checks the C10 laws on the code's own
numbers: component sums = electrode difference, support on touched cells,
signs.  Wires (sum of segments), point sources (unit direction), the source
field scaling (strength, -s mu_0; frequency / Laplace / frequency-free), the
dipole <-> point conversions and the square loop of magnetic dipoles are
floating-point observations attached to the instances.
"""
import json
import multiprocessing as mp
import random
from fractions import Fraction

from . import common as C


def _extract(job):
    import warnings
    import numpy as np
    import emg3d
    from emg3d import fields, electrodes
    from . import fit
    h, pairs, seed = job
    rng = np.random.default_rng(seed)
    hh = [np.array(a, dtype=float) for a in h]
    grid = emg3d.TensorMesh(hh, (0, 0, 0))
    L = fit.Layout(grid.shape_cells)
    edges = []
    for c in range(3):
        d = L.es[c]
        for k in range(d[2]):
            for j in range(d[1]):
                for i in range(d[0]):
                    edges.append((c+1, i, j, k))
    out = []
    for p0, p1 in pairs:
        notes = []
        pts = np.array([p0, p1], dtype=float)/2.0
        with warnings.catch_warnings(record=True) as w:
            warnings.simplefilter("always")
            try:
                v = fields._dipole_vector(grid, pts).field
            except Exception as e:  # noqa
                out.append({"h": h, "p0": p0, "p1": p1, "ent": [],
                            "obs": False,
                            "notes": [f"{type(e).__name__}: {e}"]})
                continue
        if any("Normalizing" in str(x.message) for x in w):
            notes.append("normalisation guard fired: "
                         + str(w[0].message)[:60])
        if not np.all(np.isfinite(v)):
            notes.append("non-finite entries")
            v = np.nan_to_num(v)
        ent = []
        scale = np.max(np.abs(v)) or 1.0
        for n in np.flatnonzero(np.abs(v) > 1e-13*scale):
            f = Fraction(float(v[n])).limit_denominator(10**7)
            if abs(float(f) - v[n]) > 1e-13*scale:
                notes.append(f"entry {v[n]!r} not a small rational")
            ent.append([*edges[n], f.numerator, f.denominator])
        # ---- observations on the public API for the same electrodes
        for freq in (1.5, -2.0, None):
            st = complex(rng.uniform(-2, 2), rng.uniform(-2, 2)) \
                if freq and freq > 0 else float(rng.uniform(0.5, 2))
            src = emg3d.TxElectricDipole(pts.tolist(), strength=st)
            sf = fields.get_source_field(grid, src, freq)
            fac = st if freq is None else -sf.smu0*st
            if not np.allclose(sf.field, v*fac, rtol=1e-12, atol=0):
                notes.append(f"source field is not vector x strength x "
                             f"(-s mu0), frequency {freq}")
        # the source field is a function of (source, grid, frequency), not
        # of earlier calls with the same source object
        st = float(rng.uniform(0.5, 2))
        src = emg3d.TxElectricDipole(pts.tolist(), strength=st)
        for freq in (None, -2.0, 1.5, None, 1.5, -2.0):
            sf = fields.get_source_field(grid, src, freq)
            fac = st if freq is None else -sf.smu0*st
            if not np.allclose(sf.field, v*fac, rtol=1e-12, atol=0):
                notes.append(f"source field of a re-used source object is "
                             f"not vector x strength x (-s mu0), frequency "
                             f"{freq}")
                break
        # conversions: two electrodes <-> centre / azimuth / elevation / length
        src = emg3d.TxElectricDipole(pts.tolist())
        back = electrodes.point_to_dipole(
            (*src.center, src.azimuth, src.elevation), src.length)
        if not np.allclose(back, pts, rtol=0, atol=1e-9):
            notes.append("dipole -> point -> dipole does not return the "
                         "electrodes")
        out.append({"h": h, "p0": p0, "p1": p1, "ent": ent,
                    "obs": not notes, "notes": notes})
    return out


def _observations(seed):
    """Wires, point sources, square loops (floating point)."""
    import numpy as np
    import emg3d
    from emg3d import fields, electrodes
    rng = np.random.default_rng(seed)
    notes = []
    h = [rng.uniform(1, 3, n) for n in (5, 4, 6)]
    grid = emg3d.TensorMesh(h, (0, 0, 0))
    ext = [a.sum() for a in h]
    # wire = sum of its segments; sums to last - first electrode
    n = rng.integers(3, 9)
    pts = np.array([[rng.uniform(0.1, ext[d]-0.1) for d in range(3)]
                    for _ in range(n)])
    if rng.random() < 0.5:
        pts[1] = [grid.nodes_x[2], grid.nodes_y[1], grid.nodes_z[3]]
    v = fields._dipole_vector(grid, pts)
    segs = sum(fields._dipole_vector(grid, pts[i:i+2]).field
               for i in range(n-1))
    if not np.allclose(v.field, segs, rtol=1e-12, atol=1e-15):
        notes.append("wire is not the sum of its segments")
    for c, f in enumerate((v.fx, v.fy, v.fz)):
        if abs(f.sum() - (pts[-1, c] - pts[0, c])) > 1e-9:
            notes.append(f"wire component {c} sums to {f.sum()}, electrodes "
                         f"differ by {pts[-1, c] - pts[0, c]}")
    # the public wire class: a wire may come back to an electrode it has
    # visited (closed loops sum to zero); its field is the sum of its segments
    nw = rng.integers(3, 8)
    wp = np.array([[rng.uniform(0.1, ext[d]-0.1) for d in range(3)]
                   for _ in range(nw)])
    k = rng.integers(3)
    if k == 0:
        wp = np.vstack([wp, wp[:1]])                 # closed loop
    elif k == 1:
        wp = np.vstack([wp, wp[1:2], wp[:1] + 0.05])  # revisits electrode 2
    wsrc = emg3d.TxElectricWire(wp, strength=1.0)
    wsegs = sum(fields._dipole_vector(grid, wp[i:i+2]).field
                for i in range(len(wp)-1))
    wf = fields.get_source_field(grid, wsrc, None)
    if not np.allclose(wf.field, wsegs, rtol=1e-12, atol=1e-14):
        notes.append(f"TxElectricWire ({'closed' if k == 0 else 'revisiting' if k == 1 else 'open'}) "
                     f"is not the sum of its segments")
    for c, f in enumerate((wf.fx, wf.fy, wf.fz)):
        if abs(f.sum() - (wp[-1, c] - wp[0, c])) > 1e-9:
            notes.append(f"TxElectricWire component {c} sums to {f.sum()}, "
                         f"electrodes differ by {wp[-1, c] - wp[0, c]}")
    # a grid far from the origin (UTM-like coordinates): a wire with a short
    # jog (a few metres) still sums to last - first electrode and is the sum
    # of its segments - lengths count in metres, not relative to coordinates
    org = np.array([5.0e5, 6.5e6, -2.0e3])
    hb = [a*60.0 for a in h]
    gbig = emg3d.TensorMesh(hb, org)
    eb = [a.sum() for a in hb]
    nu_ = rng.integers(3, 7)
    up = org + np.array([[rng.uniform(0.1, 0.9)*eb[d] for d in range(3)]
                         for _ in range(nu_)])
    j = rng.integers(1, nu_)
    up = np.insert(up, j, up[j-1] + np.array(
        [rng.uniform(2, 4), rng.uniform(-3, 3), 0.0]), axis=0)
    uw = fields.get_source_field(gbig, emg3d.TxElectricWire(up), None)
    usegs = sum(fields._dipole_vector(gbig, up[i:i+2]).field
                for i in range(len(up)-1))
    if not np.allclose(uw.field, usegs, rtol=1e-9, atol=1e-9):
        notes.append("UTM-like grid: wire with a short jog is not the sum of "
                     "its segments")
    for c, f in enumerate((uw.fx, uw.fy, uw.fz)):
        if abs(f.sum() - (up[-1, c] - up[0, c])) > 1e-6:
            notes.append(f"UTM-like grid: wire component {c} sums to "
                         f"{f.sum()}, electrodes differ by "
                         f"{up[-1, c] - up[0, c]}")
    # sources given as plain coordinates: every accepted format of a magnetic
    # dipole gives the field of the corresponding TxMagneticDipole
    cm = np.array([rng.uniform(0.3, 0.7)*ext[d] for d in range(3)])
    azm, elm, lnm = rng.uniform(-180, 180), rng.uniform(-60, 60), \
        rng.uniform(0.3, 0.8)
    dm = electrodes.point_to_dipole((*cm, azm, elm), lnm)
    refm = fields.get_source_field(
        grid, emg3d.TxMagneticDipole((*cm, azm, elm), length=lnm,
                                     strength=1.5), 2.0).field
    for how, raw, kw in (
            ("(x, y, z, azimuth, elevation)", (*cm, azm, elm),
             {"length": lnm}),
            ("(x1, x2, y1, y2, z1, z2)", dm.ravel('F'), {}),
            ("[[x1, y1, z1], [x2, y2, z2]]", dm, {}),
            ("[[x1, y1, z1], [x2, y2, z2]] as list", dm.tolist(), {})):
        try:
            gotm = fields.get_source_field(grid, raw, 2.0, strength=1.5,
                                           electric=False, **kw).field
        except Exception as e:  # noqa
            notes.append(f"magnetic source given as {how}: {type(e).__name__}")
            continue
        if not np.allclose(gotm, refm, rtol=1e-9, atol=1e-12*np.abs(
                refm).max()):
            notes.append(f"magnetic source given as {how} differs from the "
                         f"TxMagneticDipole of the same dipole")
    # very short dipoles are dipoles: support and distribution as
    # _dipole_vector (validated against DipoleOps.tla) gives them
    # (emg3d refuses electrodes closer than np.allclose's default tolerance,
    # about 1e-5 x coordinate: stay well above it)
    for ln in (1e-2, 6e-4):
        c0 = np.array([rng.uniform(0.3, ext[d]-0.3) for d in range(3)])
        dd = rng.standard_normal(3)
        dd *= ln/np.linalg.norm(dd)/2
        el2 = np.array([c0 - dd, c0 + dd])
        for src in (emg3d.TxElectricDipole(el2, strength=2.0),
                    emg3d.TxElectricDipole(
                        (*c0, *electrodes.dipole_to_point(el2)[:2]),
                        strength=2.0, length=ln)):
            got = fields.get_source_field(grid, src, None).field
            want = 2.0*fields._dipole_vector(grid, src.points).field
            if not np.allclose(got, want, rtol=1e-9, atol=1e-18) or \
                    np.any((want == 0) & (got != 0)):
                notes.append(f"dipole of length {ln}: source field is not "
                             f"its dipole vector times strength")
    # point source: sums to the unit direction, anywhere inside the grid
    # (outer half cells, on nodes, at cell centres included)
    az, el = rng.uniform(-180, 180), rng.uniform(-90, 90)
    if rng.random() < 0.2:
        az, el = rng.choice([0., 90., -90., 180.]), rng.choice([0., 90., -90.])
    elif rng.random() < 0.2:
        # steep, but not vertical: the azimuth still matters
        el = rng.choice([-1., 1.])*(90.0 - 10.0**rng.uniform(-3, -1))
    nodes = [grid.nodes_x, grid.nodes_y, grid.nodes_z]
    p = []
    for d in range(3):
        k = rng.integers(5)
        if k == 0:
            p.append(rng.uniform(0.02, 0.45)*h[d][0])
        elif k == 1:
            p.append(ext[d] - rng.uniform(0.02, 0.45)*h[d][-1])
        elif k == 2:
            p.append(float(nodes[d][rng.integers(1, len(nodes[d])-1)]))
        elif k == 3:
            i = rng.integers(len(h[d]))
            p.append(float(nodes[d][i] + h[d][i]/2))
        else:
            p.append(rng.uniform(0.02, ext[d]-0.02))
    pv = fields._point_vector(grid, (*p, az, el))
    want = (np.cos(np.deg2rad(az))*np.cos(np.deg2rad(el)),
            np.sin(np.deg2rad(az))*np.cos(np.deg2rad(el)),
            np.sin(np.deg2rad(el)))
    for c, f in enumerate((pv.fx, pv.fy, pv.fz)):
        if abs(f.sum() - want[c]) > 1e-12:
            notes.append(f"point source component {c} sums to {f.sum()}, "
                         f"direction is {want[c]}")
    # ... also through the public API, with one source object used again
    st = float(rng.uniform(0.5, 2))
    psrc = emg3d.TxElectricPoint((*p, az, el), strength=st)
    for freq in (None, -2.0, 1.5, None, 1.5):
        sf = fields.get_source_field(grid, psrc, freq)
        fac = st if freq is None else -sf.smu0*st
        if not np.allclose(sf.field, pv.field*fac, rtol=1e-12, atol=1e-300):
            notes.append(f"field of a (re-used) point source is not vector x "
                         f"strength x (-s mu0), frequency {freq}")
            break
    # magnetic dipole -> closed planar square loop, area = length,
    # right-handed normal = dipole direction; the three ways to get it:
    # the helper, a TxMagneticDipole given by centre / angles / length, and
    # a TxMagneticDipole given by its two electrodes
    length = rng.uniform(0.5, 3)
    dip = electrodes.point_to_dipole((*p, az, el), length)
    loops = {"point_to_square_loop":
             electrodes.point_to_square_loop((*p, az, el), length),
             "TxMagneticDipole(centre, angles, length)":
             emg3d.TxMagneticDipole((*p, az, el), length=length).points,
             "TxMagneticDipole(two electrodes)":
             emg3d.TxMagneticDipole(dip).points}
    for how, loop in loops.items():
        loop = np.asarray(loop)
        if loop.shape != (5, 3):
            notes.append(f"{how}: loop has shape {loop.shape}")
            continue
        if not np.allclose(loop[0], loop[-1], atol=1e-12):
            notes.append(f"{how}: square loop is not closed")
        e1, e2 = loop[1] - loop[0], loop[2] - loop[1]
        nrm = np.cross(e1, e2)
        if abs(np.linalg.norm(nrm) - length) > 1e-9*length:
            notes.append(f"{how}: loop area {np.linalg.norm(nrm)} != length "
                         f"{length}")
        if not np.allclose(nrm/np.linalg.norm(nrm), want, atol=1e-9):
            notes.append(f"{how}: loop normal is not the dipole direction")
        if abs(np.dot(loop[3] - loop[0], nrm)) > 1e-9:
            notes.append(f"{how}: loop is not planar")
        if not np.allclose(loop[:4].mean(axis=0), p, atol=1e-9):
            notes.append(f"{how}: loop is not centred on the dipole")
        if abs(np.linalg.norm(e1) - np.linalg.norm(e2)) > 1e-9:
            notes.append(f"{how}: loop is not square")
    # point <-> dipole
    baz, bel, blen = electrodes.dipole_to_point(dip)
    dip2 = electrodes.point_to_dipole((*dip.mean(axis=0), baz, bel), blen)
    if not (np.allclose(dip2, dip, atol=1e-9) and abs(blen - length) < 1e-9
            and np.allclose(dip.mean(axis=0), p, atol=1e-9)):
        notes.append("point -> dipole -> point -> dipole does not return "
                     "the same electrodes")
    return notes


def gen_pairs(h, rng, n):
    ext = [2*sum(a) for a in h]
    nodes = [[2*sum(a[:j]) for j in range(len(a)+1)] for a in h]
    pairs = []
    while len(pairs) < n:
        u = rng.random()
        p0 = [rng.randrange(1, ext[d]) for d in range(3)]
        if u < 0.3:       # on nodes / faces
            for d in range(3):
                if rng.random() < 0.6:
                    p0[d] = rng.choice(nodes[d][1:-1] or nodes[d])
        p1 = list(p0)
        kind = rng.random()
        dirs = [d for d in range(3)]
        rng.shuffle(dirs)
        nd = 1 if kind < 0.4 else (2 if kind < 0.7 else 3)
        for d in dirs[:nd]:
            p1[d] = p0[d] + rng.choice([-8, -6, -5, -4, -3, -2, -1, 1, 2, 3,
                                        4, 5, 6, 8])
        if p1 == p0 or any(not (0 < p1[d] < ext[d]) for d in range(3)):
            continue
        pairs.append((p0, p1))
    return pairs


def for_tlc(x):
    return {k: x[k] for k in ("h", "p0", "p1", "ent", "obs")}


def run(tier, replay=None):
    rep = C.Report("C10", tier)
    rng = random.Random(C.seed())
    rep.assumptions += [
        "integer cell widths in {1,2}, electrodes on the half-integer "
        "lattice strictly inside the grid, extents of at most four units per "
        "direction (exact small rationals); electrodes ON the outer boundary "
        "are not exercised (PEC boundary: no physical source there)",
        "PARTIAL: arbitrary angles, wires, point sources, the -s mu_0 "
        "scaling and the conversions are floating-point observations "
        "(1e-9..1e-12), not decided by the specification"]
    if replay:
        with open(replay) as f:
            j = json.load(f)["case"]
        jobs = [(j["h"], [(j["p0"], j["p1"])], 0)]
    else:
        ngrid = 16 if tier == "quick" else 160
        npair = 16 if tier == "quick" else 40
        jobs = []
        for _ in range(ngrid):
            h = [[rng.choice([1, 1, 2]) for _ in range(rng.choice([2, 3, 4]))]
                 for _ in range(3)]
            jobs.append((h, gen_pairs(h, rng, npair), rng.randrange(10**6)))
    with mp.get_context("fork").Pool(C.NCPU) as pool:
        res = pool.map(_extract, jobs, chunksize=1)
        onotes = pool.map(_observations, [rng.randrange(10**6) for _ in
                                          range(32 if tier == "quick"
                                                else 400)])
    for n in onotes:
        if n:
            rep.violation("C10:observation:" + n[0][:60],
                          "; ".join(n[:3]), {"notes": n})
    insts = [x for r in res for x in r]
    bad = C.validate_batch(rep, "DipoleOps", "DipoleOps.cfg",
                           [for_tlc(x) for x in insts], "impl", chunk=300)
    badidx = dict(bad)
    rep.add_traces(len(insts) - len(badidx))
    for i, why in sorted(badidx.items()):
        x = insts[i]
        rep.violation(f"C10:code:{why}:h={x['h']};p0={x['p0']};p1={x['p1']}",
                      f"dipole {x['p0']} -> {x['p1']} (doubled coordinates): "
                      f"{why}; {x['notes'][:3]}",
                      {"h": x["h"], "p0": x["p0"], "p1": x["p1"]})
    rep.cov["instances"] = len(insts)
    rep.cov["oblique"] = sum(1 for x in insts if sum(
        a != b for a, b in zip(x["p0"], x["p1"])) > 1)
    rep.cov["float_observation_sets"] = len(onotes)
    s = [x for x in insts if len(x["ent"]) > 6]
    rep.sample(for_tlc(s[0]) if s else for_tlc(insts[0]))
    if not replay and s:
        import copy
        muts = []
        g = copy.deepcopy(for_tlc(s[0]))
        g["ent"][0][4] += 1
        muts.append(g)                   # one weight wrong (moment changes)
        g = None
        for cand in s:
            gg = copy.deepcopy(for_tlc(cand))
            prs = [(a, b) for a in gg["ent"] for b in gg["ent"]
                   if a[0] == b[0] and a[4]*b[5] != b[4]*a[5]]
            if prs:
                a, b = prs[0]
                a[4], a[5], b[4], b[5] = b[4], b[5], a[4], a[5]
                g = gg
                break
        if g is None:
            raise C.MachineryError("no instance with two different weights")
        muts.append(g)                   # same moment, wrong distribution
        g = copy.deepcopy(for_tlc(s[2]))
        e = g["ent"][0]
        g["ent"].append([e[0], (e[1]+2) % 3, e[2], e[3], 0, 1])
        g["ent"][-1][4] = 1
        g["ent"][0][4] = g["ent"][0][4]
        muts.append(g)                   # contribution on an untouched edge
        cb = C.validate_batch(rep, "DipoleOps", "DipoleOps.cfg", muts,
                              "canaries", count=False)
        cbi = {b[0] for b in cb}
        for i in range(len(muts)):
            rep.canary(i in cbi)
        if len(cbi) != len(muts):
            raise C.MachineryError("canaries accepted: " + str(
                sorted(set(range(len(muts))) - cbi)))
    return rep.finish()
