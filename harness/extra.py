"""Growth of the specification beyond the listed properties (not registered
in MANIFEST.json: no listed property is claimed with it).

  ./check EXTRA        runs every model below and writes evidence/EXTRA.json

ModelState.tla - emg3d.Model: validation on construction and assignment (the
discrete clause of C14), anisotropy case, rejected assignments change nothing.
"""
import json
import multiprocessing as mp
import random

from . import common as C

PROPS = ["property_x", "property_y", "property_z", "mu_r", "epsilon_r"]
MAPPINGS = ["Conductivity", "Resistivity", "LgConductivity", "LgResistivity",
            "LnConductivity", "LnResistivity"]
CLASSES = ["pos", "zero", "neg", "nan", "inf", "ninf"]


def _values(cls, shape, rng):
    import numpy as np
    a = rng.uniform(0.5, 3.0, shape)
    bad = {"pos": None, "zero": 0.0, "neg": -1.5, "nan": np.nan,
           "inf": np.inf, "ninf": -np.inf}[cls]
    if bad is not None:
        a.flat[rng.integers(a.size)] = bad
    return a


def _drive(seed):
    import warnings
    import numpy as np
    import emg3d
    warnings.filterwarnings("ignore")
    rng = np.random.default_rng(seed)
    r = random.Random(seed)
    grid = emg3d.TensorMesh([np.ones(2), np.ones(3), np.ones(2)], (0, 0, 0))
    mapping = r.choice(MAPPINGS)
    ev = []
    given = ["property_x"] + [p for p in PROPS[1:] if r.random() < 0.5]
    cls = {p: r.choice(CLASSES) if r.random() < 0.4 else "pos" for p in given}
    kw = {p: _values(cls[p], grid.shape_cells, rng) for p in given}
    if r.random() < 0.3:        # scalar input
        p = r.choice(given)
        kw[p] = float(np.asarray(kw[p]).flat[0]) if cls[p] == "pos" else {
            "zero": 0.0, "neg": -2.0, "nan": float("nan"),
            "inf": float("inf"), "ninf": float("-inf")}[cls[p]]
    model = None
    try:
        model = emg3d.Model(grid, mapping=mapping, **kw)
        ok = True
    except ValueError:
        ok = False
    ev.append({"e": "construct", "given": given, "cls": cls, "ok": ok,
               "unchanged": True, "case": model.case if model else "none"})
    if model is not None:
        for _ in range(r.randrange(1, 6)):
            p = r.choice(PROPS)
            c = r.choice(CLASSES)
            before = {q: (None if getattr(model, q) is None
                          else np.array(getattr(model, q), copy=True))
                      for q in PROPS}
            try:
                setattr(model, p, _values(c, grid.shape_cells, rng))
                ok = True
            except ValueError:
                ok = False
            after = {q: getattr(model, q) for q in PROPS}
            unchanged = True
            if not ok:
                for q in PROPS:
                    a, b = before[q], after[q]
                    if (a is None) != (b is None) or (
                            a is not None and not np.array_equal(
                                a, b, equal_nan=True)):
                        unchanged = False
            ev.append({"e": "assign", "prop": p, "c": c, "ok": ok,
                       "unchanged": unchanged})
    return {"mapping": mapping, "ev": ev, "seed": seed}


def run(tier, replay=None):
    rep = C.Report("EXTRA", tier)
    rng = random.Random(C.seed())
    rep.assumptions.append("not a listed property; growth of the "
                           "specification (see DESIGN.md section 3)")
    res = C.run_tlc("ModelState", "ModelState.cfg", timeout=900)
    C.expect_tlc_ok(rep, "ModelState: all constructions / assignments, six "
                    "mappings, six value classes", res, "EXTRA")
    n = 400 if tier == "quick" else 5000
    with mp.get_context("fork").Pool(C.NCPU) as pool:
        traces = pool.map(_drive, [rng.randrange(10**9) for _ in range(n)],
                          chunksize=16)
    bad = C.validate_batch(rep, "TraceModelState", "TraceModelState.cfg",
                           [{"mapping": t["mapping"], "ev": t["ev"]}
                            for t in traces], "Model")
    rep.add_traces(len(traces) - len(bad))
    for i, why in bad:
        t = traces[i]
        rep.violation(f"EXTRA:ModelState:{t['mapping']}:seed={t['seed']}",
                      f"Model({t['mapping']}) history {t['ev']} is not a "
                      f"behaviour of ModelState.tla", t)
    rep.sample({"mapping": traces[0]["mapping"], "ev": traces[0]["ev"]})
    return rep.finish()
