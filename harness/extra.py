"""Growth of the specification beyond the listed properties (not registered
in MANIFEST.json: no listed property is claimed with it).

  ./check EXTRA        runs every model below and writes evidence/EXTRA.json

ModelState.tla - emg3d.Model: validation on construction and assignment (the
discrete clause of C14), anisotropy case, rejected assignments change nothing.

EdgeAvg.tla - the cell <-> edge maps of the sensitivity machinery (discrete
ingredients of C07 / C08): the matrix of maps.interp_edges_to_vol_averages
(gradient) and of discretize's get_edge_inner_product_deriv (jvec), extracted
from the real functions on integer-width grids, are checked by TLC against
the V/4 reference and against each other (transposes on interior edges).
"""
import json
import multiprocessing as mp
import random

from . import common as C

PROPS = ["property_x", "property_y", "property_z", "mu_r", "epsilon_r"]
MAPPINGS = ["Conductivity", "Resistivity", "LgConductivity", "LgResistivity",
            "LnConductivity", "LnResistivity"]
CLASSES = ["pos", "zero", "neg", "nan", "inf", "ninf"]


def _values(cls, shape, rng):
    import numpy as np
    a = rng.uniform(0.5, 3.0, shape)
    bad = {"pos": None, "zero": 0.0, "neg": -1.5, "nan": np.nan,
           "inf": np.inf, "ninf": -np.inf}[cls]
    if bad is not None:
        a.flat[rng.integers(a.size)] = bad
    return a


def _drive(seed):
    import warnings
    import numpy as np
    import emg3d
    warnings.filterwarnings("ignore")
    rng = np.random.default_rng(seed)
    r = random.Random(seed)
    grid = emg3d.TensorMesh([np.ones(2), np.ones(3), np.ones(2)], (0, 0, 0))
    mapping = r.choice(MAPPINGS)
    ev = []
    given = ["property_x"] + [p for p in PROPS[1:] if r.random() < 0.5]
    cls = {p: r.choice(CLASSES) if r.random() < 0.4 else "pos" for p in given}
    kw = {p: _values(cls[p], grid.shape_cells, rng) for p in given}
    if r.random() < 0.3:        # scalar input
        p = r.choice(given)
        kw[p] = float(np.asarray(kw[p]).flat[0]) if cls[p] == "pos" else {
            "zero": 0.0, "neg": -2.0, "nan": float("nan"),
            "inf": float("inf"), "ninf": float("-inf")}[cls[p]]
    model = None
    try:
        model = emg3d.Model(grid, mapping=mapping, **kw)
        ok = True
    except ValueError:
        ok = False
    ev.append({"e": "construct", "given": given, "cls": cls, "ok": ok,
               "unchanged": True, "case": model.case if model else "none"})
    if model is not None:
        for _ in range(r.randrange(1, 6)):
            p = r.choice(PROPS)
            c = r.choice(CLASSES)
            before = {q: (None if getattr(model, q) is None
                          else np.array(getattr(model, q), copy=True))
                      for q in PROPS}
            try:
                setattr(model, p, _values(c, grid.shape_cells, rng))
                ok = True
            except ValueError:
                ok = False
            after = {q: getattr(model, q) for q in PROPS}
            unchanged = True
            if not ok:
                for q in PROPS:
                    a, b = before[q], after[q]
                    if (a is None) != (b is None) or (
                            a is not None and not np.array_equal(
                                a, b, equal_nan=True)):
                        unchanged = False
            ev.append({"e": "assign", "prop": p, "c": c, "ok": ok,
                       "unchanged": unchanged})
    return {"mapping": mapping, "ev": ev, "seed": seed}


def _edgeavg(job):
    """Matrices of the gradient's edge->cell map and of jvec's cell->edge
    map, as rows per (direction, cell)."""
    import numpy as np
    import emg3d
    from emg3d import maps
    h, seed = job
    grid = emg3d.TensorMesh([np.array(a, dtype=float) for a in h], (0, 0, 0))
    nx, ny, nz = grid.shape_cells
    vol = grid.cell_volumes.reshape(grid.shape_cells, order='F')
    shp = [(nx, ny+1, nz+1), (nx+1, ny, nz+1), (nx+1, ny+1, nz)]
    notes = []
    rows_c = {}
    for c in range(3):
        for idx in np.ndindex(*shp[c]):
            e = [np.zeros(s_) for s_ in shp]
            e[c][idx] = 1.0
            o = [np.zeros(grid.shape_cells) for _ in range(3)]
            maps.interp_edges_to_vol_averages(
                ex=e[0], ey=e[1], ez=e[2], volumes=vol,
                ox=o[0], oy=o[1], oz=o[2])
            for cc in range(3):
                for cell in zip(*np.nonzero(o[cc])):
                    v4 = 4*o[cc][cell]
                    if v4 != int(v4):
                        notes.append("entry is not a multiple of 1/4")
                    rows_c.setdefault((cc+1, *map(int, cell)), []).append(
                        [c+1, *map(int, idx), int(round(v4))])
    # jvec: gvec = get_edge_inner_product_deriv(ones)(efield) * cvector
    D = grid.get_edge_inner_product_deriv(np.ones(grid.n_cells*3))(
        np.ones(grid.n_edges)).toarray()        # edges x (3 n_cells)
    Di = grid.get_edge_inner_product_deriv(np.ones(grid.n_cells))(
        np.ones(grid.n_edges)).toarray()        # isotropic: edges x n_cells
    off = [0, grid.n_edges_x, grid.n_edges_x + grid.n_edges_y]
    rows_d = {}
    for c in range(3):
        for n, idx in enumerate(np.ndindex(*shp[c][::-1])):
            idx = idx[::-1]                    # Fortran order: x fastest
            row = D[off[c] + n]
            for col in np.flatnonzero(row):
                cc, cn = divmod(int(col), grid.n_cells)
                cell = np.unravel_index(cn, grid.shape_cells, order='F')
                v4 = 4*row[col]
                if v4 != int(v4):
                    notes.append("deriv entry is not a multiple of 1/4")
                if cc != c:
                    notes.append("deriv couples different directions")
                rows_d.setdefault((cc+1, *map(int, cell)), []).append(
                    [c+1, *map(int, idx), int(round(v4))])
            # isotropic = sum of the three anisotropic blocks
            if not np.array_equal(Di[off[c] + n],
                                  sum(row[k*grid.n_cells:(k+1)*grid.n_cells]
                                      for k in range(3))):
                notes.append("isotropic derivative is not the sum of the "
                             "three directional ones")
    def pack(rows):
        return [[k[0], k[1], k[2], k[3], v] for k, v in sorted(rows.items())]
    return {"h": [list(map(int, a)) for a in h], "c": pack(rows_c),
            "d": pack(rows_d), "obs": not notes, "notes": notes}


def edge_part(rep, tier, rng):
    n = 12 if tier == "quick" else 80
    jobs = [([[rng.choice([1, 2, 3]) for _ in range(rng.choice([1, 2, 3]))]
              for _ in range(3)], rng.randrange(10**6)) for _ in range(n)]
    jobs[0] = ([[1, 2, 3], [2, 1], [3, 1, 2]], 0)
    with mp.get_context("fork").Pool(C.NCPU) as pool:
        insts = pool.map(_edgeavg, jobs)
    tl = [{k: x[k] for k in ("h", "c", "d", "obs")} for x in insts]
    bad = C.validate_batch(rep, "EdgeAvg", "EdgeAvg.cfg", tl, "edge maps",
                           chunk=40)
    rep.add_traces(len(insts) - len(bad))
    for i, why in bad:
        rep.violation(f"EXTRA:EdgeAvg:{why}:h={insts[i]['h']}",
                      f"edge/cell maps on grid {insts[i]['h']}: {why}; "
                      f"{insts[i]['notes'][:2]}", {"h": insts[i]["h"]})
    # canaries: one wrong weight / one missing edge must be rejected
    import copy
    m1 = copy.deepcopy(tl[0])
    m1["c"][0][4][0][4] += 1
    m2 = copy.deepcopy(tl[0])
    k = next(i for i, r in enumerate(m2["d"]) if len(r[4]) == 4)
    m2["d"][k][4] = m2["d"][k][4][:3]
    cb = {b[0] for b in C.validate_batch(rep, "EdgeAvg", "EdgeAvg.cfg",
                                         [m1, m2], "canaries", count=False)}
    for i in range(2):
        rep.canary(i in cb)
    if len(cb) != 2:
        raise C.MachineryError("EdgeAvg canaries not rejected")
    rep.cov["edgeavg_instances"] = len(insts)


def run(tier, replay=None):
    rep = C.Report("EXTRA", tier)
    rng = random.Random(C.seed())
    rep.assumptions.append("not a listed property; growth of the "
                           "specification (see DESIGN.md section 3)")
    res = C.run_tlc("ModelState", "ModelState.cfg", timeout=900)
    C.expect_tlc_ok(rep, "ModelState: all constructions / assignments, six "
                    "mappings, six value classes", res, "EXTRA")
    n = 400 if tier == "quick" else 5000
    with mp.get_context("fork").Pool(C.NCPU) as pool:
        traces = pool.map(_drive, [rng.randrange(10**9) for _ in range(n)],
                          chunksize=16)
    bad = C.validate_batch(rep, "TraceModelState", "TraceModelState.cfg",
                           [{"mapping": t["mapping"], "ev": t["ev"]}
                            for t in traces], "Model")
    rep.add_traces(len(traces) - len(bad))
    for i, why in bad:
        t = traces[i]
        rep.violation(f"EXTRA:ModelState:{t['mapping']}:seed={t['seed']}",
                      f"Model({t['mapping']}) history {t['ev']} is not a "
                      f"behaviour of ModelState.tla", t)
    rep.sample({"mapping": traces[0]["mapping"], "ev": traces[0]["ev"]})
    edge_part(rep, tier, rng)
    return rep.finish()
