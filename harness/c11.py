"""C11 - results do not depend on worker count, scheduling or file mode.

1. TLC checks OrderPreserved / SlotOwnResult / ExactlyOnce / ... on
   ProcessMap.tla for all interleavings (N=4 tasks, W=3 workers, all four
   branches, two batches) and liveness.
2. Real simulations (2 sources x 2 frequencies) are computed with
   max_workers in 1..16, in-memory and file-based, with and without tqdm,
   under adversarial per-task delays chosen from the completion orders;
   worker processes log Start/Finish themselves.  Each batch (forward,
   back-propagation, J v, repeated forward) is validated by TLC against
   ProcessMap (TraceProcessMap) and every result must be BIT-identical to the
   sequential in-memory run.
"""
import itertools
import json
import multiprocessing as mp
import os
import random
import shutil
import tempfile

from . import common as C

DELTA = 0.12


def _one_run(job):
    """Run one configuration in a fresh process (so that module patches and
    the event file are private)."""
    os.environ.setdefault("NUMBA_NUM_THREADS", "1")
    # this process was spawned; the pools emg3d creates must use the
    # platform default (fork), as they do for a user
    mp.set_start_method("fork", force=True)
    import numpy as np
    import emg3d
    from emg3d import _multiprocessing as _mp
    from . import simreplay, c11worker
    maxw, file_mode, use_tqdm, perm, seed, ref, gmode = job
    ref = ref[gmode] if gmode in ref else ref
    tmp = tempfile.mkdtemp(prefix="c11-")
    evfile = os.path.join(tmp, "events")
    os.environ["C11_EVENTS"] = evfile
    open(evfile, "w").close()
    try:
        # load the compiled kernels in this process, so that forked pool
        # workers inherit them instead of each loading the numba cache
        g0 = emg3d.TensorMesh([np.ones(4)]*3, (0, 0, 0))
        emg3d.solve(emg3d.Model(g0, 1.0), emg3d.get_source_field(
            g0, (2, 2, 2, 0, 0), 1.0), plain=True, verb=0, maxit=1)
        prob = simreplay.Problem(dict(four=True, irregular=True), seed=5)
        prob.obs = np.array(ref["obs_re"]) + 1j*np.array(ref["obs_im"])
        if gmode != "same" and ref.get("res"):
            # another simulation (other model, same grids) in this process
            # first: results must not depend on what was computed before
            pre = prob.simulation(1, None, gmode)
            pre.compute()
        # (a directory name with a dot: hand-over file names are derived from
        # the path)
        sim = prob.simulation(0, os.path.join(tmp, "fd.v2") if file_mode
                              else None, gmode)
        sim.max_workers = maxw
        if not use_tqdm:
            _mp.tqdm = None
        state = {"batch": 0, "batches": []}
        orig_pm = _mp.process_map

        def pm(fn, items, max_workers, **kw):
            state["batch"] += 1
            b = state["batch"]
            delays = [DELTA*perm.index(i) if (perm and max_workers > 1) else 0
                      for i in range(len(items))]
            tagged = [(b, i+1, delays[i], fn, it)
                      for i, it in enumerate(items)]
            out = orig_pm(c11worker.indexed_call, tagged,
                          max_workers=max_workers, **kw)
            names = len(set(items)) if all(isinstance(x, str) for x in items) \
                else len(items)
            state["batches"].append({
                "b": b, "n": len(items), "names": names,
                "out": [o[0] for o in out], "maxw": max_workers,
                "items": [x if isinstance(x, str) else None for x in items]})
            return [o[2] for o in out]

        pm.count = getattr(orig_pm, 'count', 0)
        _mp.process_map = pm
        res = {}
        slots = {}

        def slot_tags(which, b):
            tags = []
            for src, freq in sim._srcfreq:
                v = getattr(sim, f"_dict_{which}_info")[src][freq]
                if isinstance(v, str):     # file mode: name identifies task
                    items = state["batches"][b-1]["items"]
                    stem = v.rsplit("_out.", 1)[0]
                    k = [i+1 for i, x in enumerate(items)
                         if x and x.rsplit(".", 1)[0] == stem]
                    tags.append(k[0] if len(k) == 1 else 0)
                else:
                    t = v.get("_task", (0, 0))
                    tags.append(t[1] if t[0] == b else 0)
            return tags

        sim.compute()
        slots[1] = slot_tags("efield", 1)
        res["syn"] = sim.data.synthetic.data.copy()
        res["ef"] = [sim.get_efield(s, f).field.copy() for s, f in sim._srcfreq]
        res["misfit"] = float(sim.misfit)
        res["grad"] = np.array(sim.gradient)
        slots[2] = slot_tags("bfield", 2)
        res["jvec"] = np.array(sim.jvec(prob.v))
        slots[3] = None     # J v results are sampled, not stored per slot
        sim.compute()       # repeating the computation changes nothing
        slots[4] = slot_tags("efield", 4)
        res["syn2"] = sim.data.synthetic.data.copy()
        res["ef2"] = [sim.get_efield(s, f).field.copy() for s, f in sim._srcfreq]
        # J v directly after a forward run (the last solves used the forward
        # tolerance): the same product as before
        res["jvec2"] = np.array(sim.jvec(prob.v))
        slots[5] = None
        # ---- a survey with a single source-frequency pair: compute, replace
        # the model in place (no clean), compute again: the second run gives
        # the new model's results whatever the execution mode
        # (one task per batch: not part of the recorded N = 4 trace)
        _mp.process_map = orig_pm
        p1 = simreplay.Problem(dict(one=True, irregular=True), seed=5)
        s1 = p1.simulation(0, os.path.join(tmp, "fd1.b") if file_mode
                           else None, "same")
        s1.max_workers = maxw
        s1.verb = -1
        s1.compute()
        res["one_a"] = s1.data.synthetic.data.copy()
        s1.model = p1.model(1)
        s1.compute()
        res["one_b"] = s1.data.synthetic.data.copy()
        res["one_ef"] = s1.get_efield('TxED-1', 'f-1').field.copy()
        # ---- events -> one trace per run
        pids = {}
        ev = []
        with open(evfile) as f:
            lines = [ln.split() for ln in f if ln.strip()]
        for bt in state["batches"]:
            b = bt["b"]
            branch = ("tqdm" if use_tqdm else "") + \
                ("pool" if bt["maxw"] > 1 else "seq")
            ev.append({"e": "Submit", "branch": branch, "n": bt["n"],
                       "names": bt["names"]})
            for kind, bb, i, pid in lines:
                if int(bb) != b:
                    continue
                if bt["maxw"] > 1:
                    w = pids.setdefault((b, pid), 1 + len(
                        [k for k in pids if k[0] == b]))
                else:
                    w = 1
                ev.append({"e": "Start" if kind == "S" else "Finish",
                           "t": int(i), "w": w})
            ev.append({"e": "Return", "out": bt["out"]})
            ev.append({"e": "Store", "slots": slots[b] if slots.get(b)
                       else bt["out"]})
        order = [[int(i) for k, bb, i, _ in lines if k == "F" and int(bb) == b]
                 for b in (1, 2, 3)]
        # ---- bit-identity with the sequential in-memory reference
        diffs = []
        if ref.get("res"):
            r = ref["res"]

            def same(a, key):
                b = np.array(r[key + "_re"]) + 1j*np.array(r[key + "_im"])
                return np.array_equal(np.asarray(a, dtype=complex), b,
                                      equal_nan=True)
            for key, val in (("syn", res["syn"]), ("syn", res["syn2"]),
                             ("grad", res["grad"]), ("jvec", res["jvec"]),
                             ("jvec", res["jvec2"]),
                             ("one_a", res["one_a"]), ("one_b", res["one_b"]),
                             ("one_ef", res["one_ef"])):
                if not same(val, key):
                    diffs.append(key)
            for k in range(len(res["ef"])):
                if not same(res["ef"][k], f"ef{k}"):
                    diffs.append(f"efield[{k}]")
                if not same(res["ef2"][k], f"ef{k}"):
                    diffs.append(f"efield-repeat[{k}]")
            if res["misfit"] != r["misfit"]:
                diffs.append("misfit")
        pack = {}
        if not ref.get("res"):
            def put(key, a):
                a = np.asarray(a, dtype=complex)
                pack[key + "_re"] = a.real.tolist()
                pack[key + "_im"] = a.imag.tolist()
            put("syn", res["syn"])
            put("grad", res["grad"])
            put("jvec", res["jvec"])
            for key in ("one_a", "one_b", "one_ef"):
                put(key, res[key])
            for k in range(len(res["ef"])):
                put(f"ef{k}", res["ef"][k])
            pack["misfit"] = res["misfit"]
        return {"trace": {"ev": ev, "maxworkers": maxw, "tqdm": use_tqdm},
                "diffs": diffs, "order": order, "pack": pack,
                "job": [maxw, file_mode, use_tqdm, perm, seed, gmode]}
    except Exception as e:  # noqa
        import traceback
        return {"fatal": f"{type(e).__name__}: {e}\n{traceback.format_exc()}"}
    finally:
        shutil.rmtree(tmp, ignore_errors=True)


def run_jobs(jobs, par):
    from concurrent.futures import ProcessPoolExecutor
    ctx = mp.get_context("spawn")
    with ProcessPoolExecutor(max_workers=par, mp_context=ctx,
                             max_tasks_per_child=1) as ex:
        return list(ex.map(_one_run, jobs))


def key_of(job):
    maxw, fm, tq, perm, seed = job[:5]
    return (f"max_workers={maxw};{'file' if fm else 'memory'};"
            f"{'tqdm' if tq else 'notqdm'};delays={perm};grids={job[6]}")


def run(tier, replay=None):
    rep = C.Report("C11", tier)
    rng = random.Random(C.seed())
    rep.assumptions += [
        "concurrent.futures / tqdm are the environment: the specification "
        "assumes the mapping function returns results in submission order; "
        "the recorded Return events show whether it did",
        "Start/Finish are logged by the worker processes (O_APPEND); the "
        "interleaving of different processes' lines is the order of their "
        "write() calls, per-process order is exact",
        "a completion order that could not be forced (scheduler) lowers the "
        "coverage count, it never raises an alarm"]
    res = C.run_tlc("ProcessMap", "ProcessMap.cfg", coverage=True, timeout=900)
    if C.expect_tlc_ok(rep, "ProcessMap: N=4, W=3, four branches, two batches, "
                       "all interleavings + liveness", res, "C11"):
        C.check_coverage(res, ["Submit", "Start", "Finish", "Return", "Store"],
                         "ProcessMap")
    rep.cov["exhaustive"] = True
    # reference: sequential, in memory, no tqdm, no delays
    import numpy as np  # noqa
    from . import simreplay
    ref0 = run_jobs([(1, False, False, None, 0, {"obs_re": None})], 1) \
        if False else None
    prob = simreplay.Problem(dict(four=True, irregular=True), seed=5).prepare(oracles=False)
    obs = prob.obs
    ref = {}
    GM = ("same", "input", "dict")
    for gm in GM:
        ref[gm] = {"obs_re": obs.real.tolist(), "obs_im": obs.imag.tolist()}
    r0s = run_jobs([(1, False, False, None, 0, ref, gm) for gm in GM], 3)
    for gm, r0 in zip(GM, r0s):
        if "fatal" in r0:
            raise C.MachineryError(r0["fatal"])
        ref[gm]["res"] = r0["pack"]
    perms = list(itertools.permutations(range(4)))
    jobs = []
    if replay:
        with open(replay) as f:
            j = json.load(f)["case"]["job"]
        jobs = [(j[0], j[1], j[2], j[3], j[4], ref, j[5])]
    else:
        if tier == "quick":
            ws = [1, 2, 3, 4, 16] + rng.sample([5, 6, 7, 8, 9, 10, 11, 12, 13,
                                                14, 15], 2)
            for w in ws:
                for fm in (False, True):
                    tq = rng.random() < 0.5
                    jobs.append((w, fm, tq, list(rng.choice(perms)),
                                 rng.randrange(10**6), ref, rng.choice(GM)))
            for p in rng.sample(perms, 6):
                jobs.append((4, rng.random() < 0.5, rng.random() < 0.5,
                             list(p), rng.randrange(10**6), ref,
                             rng.choice(GM)))
            jobs.append((1, False, True, None, 0, ref, "same"))
            jobs.append((1, True, False, None, 0, ref, "dict"))
            jobs.append((1, False, False, None, 0, ref, "input"))
            jobs.append((2, False, False, [3, 2, 1, 0], 0, ref, "dict"))
            jobs.append((3, True, True, [1, 3, 0, 2], 0, ref, "dict"))
        else:
            for p in perms:
                for w in (2, 3, 4):
                    for fm in (False, True):
                        jobs.append((w, fm, rng.random() < 0.5, list(p),
                                     rng.randrange(10**6), ref,
                                     rng.choice(GM)))
            for w in range(1, 17):
                for fm in (False, True):
                    for tq in (False, True):
                        jobs.append((w, fm, tq, list(rng.choice(perms)),
                                     rng.randrange(10**6), ref,
                                     rng.choice(GM)))
    results = run_jobs(jobs, 4 if tier == "quick" else 5)
    fatal = [r for r in results if "fatal" in r]
    if fatal:
        raise C.MachineryError(fatal[0]["fatal"])
    traces = [r["trace"] for r in results]
    bad = C.validate_batch(rep, "TraceProcessMap", "TraceProcessMap.cfg",
                           traces, "impl")
    badidx = dict(bad)
    rep.add_traces(len(traces) - len(badidx))
    for i, why in sorted(badidx.items()):
        d = C.diagnose_one("TraceProcessMap", "TraceProcessMap.cfg",
                           traces[i], len(traces[i]["ev"]))
        k = d["matched_events"]
        nxt = traces[i]["ev"][k] if k < len(traces[i]["ev"]) else "end"
        rep.violation(f"C11:trace:{why}:{key_of(jobs[i])}",
                      f"recorded batches are not a behaviour of ProcessMap "
                      f"({why}); matched {k}/{d['of']}; next {nxt}",
                      {"job": list(jobs[i][:5]) + [jobs[i][6]],
                       "trace": traces[i],
                       "diag": d})
    for r, job in zip(results, jobs):
        if r["diffs"]:
            rep.violation(f"C11:bits:{key_of(job)}:{','.join(r['diffs'])}",
                          "results differ from the sequential in-memory run: "
                          + ", ".join(r["diffs"]),
                          {"job": list(job[:5]) + [job[6]],
                           "order": r["order"]})
    orders = {tuple(o) for r in results for o in r["order"] if len(o) == 4}
    rep.cov["runs"] = len(jobs)
    rep.cov["batches_validated"] = sum(
        sum(1 for e in t["ev"] if e["e"] == "Submit") for t in traces)
    rep.cov["distinct_completion_orders_observed"] = len(orders)
    rep.cov["max_workers_values"] = sorted({j[0] for j in jobs})
    k = rng.randrange(len(jobs))
    rep.sample({"config": key_of(jobs[k]),
                "completion_orders": results[k]["order"],
                "events_first_20": traces[k]["ev"][:20]})
    # canaries
    if not replay:
        import copy
        muts = []
        good = [t for i, t in enumerate(traces) if i not in badidx]
        t = copy.deepcopy(good[0])
        e = [x for x in t["ev"] if x["e"] == "Return"][0]
        e["out"] = [e["out"][1], e["out"][0]] + e["out"][2:]
        muts.append(t)            # as-completed order returned
        t = copy.deepcopy(good[-1])
        e = [x for x in t["ev"] if x["e"] == "Store"][0]
        e["slots"] = e["slots"][::-1]
        muts.append(t)            # slots keyed by the wrong index
        t = copy.deepcopy(good[len(good)//2])
        i = [i for i, x in enumerate(t["ev"]) if x["e"] == "Start"][0]
        t["ev"].insert(i, dict(t["ev"][i]))
        muts.append(t)            # a task started twice
        t = copy.deepcopy(good[1])
        i = [i for i, x in enumerate(t["ev"]) if x["e"] == "Finish"][-1]
        del t["ev"][i]
        muts.append(t)            # returned before a task finished
        cb = C.validate_batch(rep, "TraceProcessMap", "TraceProcessMap.cfg",
                              muts, "canaries", count=False)
        cbi = {b[0] for b in cb}
        for i in range(len(muts)):
            rep.canary(i in cbi)
        if len(cbi) != len(muts):
            raise C.MachineryError("canary traces accepted: "
                                   f"{sorted(set(range(len(muts))) - cbi)}")
    return rep.finish()
