"""Replay of SurveyNoise.tla behaviours on real emg3d.Survey objects."""
import os
import shutil
import tempfile
import warnings
from fractions import Fraction

import numpy as np

import emg3d

warnings.filterwarnings("ignore")
INF = 100000
ABS = [[[5, 13], [2, 5]], [[13, 0], [5, 2]]]
D = np.array([[[3+4j, 5+12j], [0+2j, 3+4j]],
              [[5+12j, np.nan+1j*np.nan], [3+4j, 0+2j]]])
SN, RN, FN = ['TxED-1', 'TxED-2'], ['RxEP-1', 'RxEP-2'], ['f-1', 'f-2']


def nfval(pat, s, r, f):
    return {1: [1, 8][s-1], 2: [8, 30][r-1], 3: [30, 1][f-1],
            4: s + 2*r + 4*f}[pat]


def reval(pat, s, r, f):
    return {1: [1, 2][s-1], 2: [2, 4][r-1], 3: [4, 1][f-1],
            4: s + r + f}[pat]


def setting_array(fn, pat, scale):
    if pat == 1:
        return np.array([fn(1, s, 1, 1) for s in (1, 2)],
                        dtype=float)[:, None, None]*scale
    if pat == 2:
        return np.array([fn(2, 1, r, 1) for r in (1, 2)],
                        dtype=float)[None, :, None]*scale
    if pat == 3:
        return np.array([fn(3, 1, 1, f) for f in (1, 2)],
                        dtype=float)[None, None, :]*scale
    return np.array([[[fn(4, s, r, f) for f in (1, 2)] for r in (1, 2)]
                     for s in (1, 2)], dtype=float)*scale


def base_survey():
    src = [emg3d.TxElectricDipole((0, 0, 0, 0, 0)),
           emg3d.TxElectricDipole((-200, 0, 0, 0, 0))]
    rec = [emg3d.RxElectricPoint((100, 0, 0, 0, 0)),
           emg3d.RxElectricPoint((200, 0, 0, 0, 0))]
    return emg3d.Survey(src, rec, [1., 2.], data=D.copy())


class SWorld:
    def __init__(self, seed):
        self.sv = base_survey()
        self.tmp = tempfile.mkdtemp(prefix="c13-")
        self.n = 0
        self.seed = seed
        self.shadows = []     # (survey, projection) that must not change

    def close(self):
        shutil.rmtree(self.tmp, ignore_errors=True)

    def idx(self, sv=None):
        sv = sv or self.sv
        return ([SN.index(k)+1 for k in sv.sources],
                [RN.index(k)+1 for k in sv.receivers],
                [FN.index(k)+1 for k in sv.frequencies])

    def sub(self, full, sv=None):
        """Restrict a full 2x2x2 array setting to the current keys."""
        ks, kr, kf = self.idx(sv)
        full = np.broadcast_to(full, (2, 2, 2))
        return full[np.ix_([k-1 for k in ks], [k-1 for k in kr],
                           [k-1 for k in kf])]

    def shadow(self):
        self.shadows.append((self.sv, self.snapshot(self.sv)))
        self.shadows = self.shadows[-3:]

    @staticmethod
    def snapshot(sv):
        out = {k: np.array(v.data, copy=True) for k, v in sv.data.items()}
        out["__nf"] = np.array(sv.noise_floor, copy=True) \
            if sv.noise_floor is not None else None
        out["__re"] = np.array(sv.relative_error, copy=True) \
            if sv.relative_error is not None else None
        out["__keys"] = (list(sv.sources), list(sv.receivers),
                         list(sv.frequencies))
        return out

    def shadows_ok(self):
        for sv, snap in self.shadows:
            now = self.snapshot(sv)
            if now.keys() != snap.keys():
                return f"a detached survey gained/lost data sets: " \
                       f"{sorted(snap)} -> {sorted(now)}"
            for k in snap:
                a, b = snap[k], now[k]
                if k == "__keys":
                    if a != b:
                        return "keys of a detached survey changed"
                elif (a is None) != (b is None) or (
                        a is not None and not np.array_equal(
                            a, b, equal_nan=True)):
                    return f"'{k}' of a detached survey (original / earlier " \
                           f"copy) changed"
        return None

    # ---- one step
    def apply(self, last):
        op, a = last["op"], last["a"]
        sv = self.sv
        try:
            if op in ("set_nf", "set_re"):
                kind, v = a
                fn, scale = (nfval, 1.0) if op == "set_nf" else (reval, 0.25)
                if kind == "bad":
                    val = self.sub(setting_array(fn, 4, scale)).copy()
                    val.flat[-1] = 0.0 if self.seed % 2 else -1.0
                elif kind == "none":
                    val = None
                elif kind == "scalar":
                    val = v*scale
                else:
                    val = self.sub(setting_array(fn, v, scale)).copy()
                    # per-dimension patterns are given in broadcastable form
                    if v in (1, 2, 3):
                        ks, kr, kf = self.idx()
                        full = setting_array(fn, v, scale)
                        sel = [[k-1 for k in ks], [k-1 for k in kr],
                               [k-1 for k in kf]]
                        ix = [sel[d] if full.shape[d] > 1 else [0]
                              for d in range(3)]
                        val = full[np.ix_(*ix)].copy()
                        if val.size == 1:     # would be stored as scalar
                            val = self.sub(full).copy()
                if op == "set_nf":
                    sv.noise_floor = val
                else:
                    sv.relative_error = val
            elif op == "set_std":
                kind, v = a
                if kind == "bad":
                    val = np.ones(sv.shape)
                    val.flat[0] = 0.0
                    sv.standard_deviation = val
                elif v == 0:
                    sv.standard_deviation = None
                else:
                    full = np.array([[[s+r+f for f in (1, 2)] for r in (1, 2)]
                                     for s in (1, 2)], dtype=float)
                    sv.standard_deviation = self.sub(full).copy()
            elif op == "add_noise":
                minamp, addto, o1, o2 = a
                kw = dict(min_offset=float(o1), add_to=addto,
                          min_amplitude={"half_nf": "half_nf", "none": None,
                                         "v6": 6.0}[minamp])
                if o2 < INF:
                    kw["max_offset"] = float(o2)
                before = {k: np.array(v.data, copy=True)
                          for k, v in sv.data.items()}
                std = sv.standard_deviation
                std = None if std is None else np.array(std.data, copy=True)
                orig = np.random.default_rng
                seed = self.seed + self.n
                np.random.default_rng = lambda *x: orig(seed)
                try:
                    sv.add_noise(**kw)
                finally:
                    np.random.default_rng = orig
                self.n += 1
                # amount of noise: |delta| = std wherever both are finite
                if std is not None:
                    old = before.get(addto, np.zeros(sv.shape, dtype=complex))
                    new = sv.data[addto].data
                    m = np.isfinite(new) & np.isfinite(old) & np.isfinite(std)
                    if m.any() and not np.allclose(
                            np.abs(new-old)[m], std[m], rtol=1e-9, atol=0):
                        return "value", "noise amplitude differs from the " \
                                        "standard deviation"
            elif op == "select":
                ss, rr, ff, rem = a
                self.shadow()
                self.sv = sv.select(
                    sources=[SN[i-1] for i in ss] if ss else None,
                    receivers=[RN[i-1] for i in rr] if rr else None,
                    frequencies=[FN[i-1] for i in ff] if ff else None,
                    remove_empty=bool(rem))
            elif op == "roundtrip":
                how = a[0]
                if how == "copy":
                    self.shadow()
                    self.sv = sv.copy()
                elif how == "dict":
                    self.sv = emg3d.Survey.from_dict(sv.to_dict())
                else:
                    self.shadow()
                    self.n += 1
                    fn = os.path.join(self.tmp, f"s{self.n}.{how}")
                    sv.to_file(fn, verb=0)
                    self.sv = emg3d.Survey.from_file(fn, verb=0)
            elif op == "misfit":
                return "value", self.misfit_check()
            elif op == "sim_misfit":
                return "value", self.misfit_persistent()
            elif op == "newsim_misfit":
                return "value", self.misfit_newsim()
            else:
                raise ValueError(op)
        except ValueError as e:
            return "error", str(e)[:100]
        return "ok", None

    def misfit_persistent(self):
        """SimMisfit: a Simulation that lives as long as the survey object
        does; the documented refresh after a change of the noise settings is
        clean('computed'); the misfit must then follow the current std.  The
        weights stay cached in the survey afterwards (as for a real user)."""
        hx = np.ones(4)*100.
        grid = emg3d.TensorMesh([hx, hx, hx], (-300, -200, -200))
        if getattr(self, "_psim", None) is None or \
                self._psim.survey is not self.sv:
            self._psim = emg3d.Simulation(
                self.sv, emg3d.Model(grid, 1.0), gridding='same',
                max_workers=1, tqdm_opts={'disable': True})
        sim = self._psim
        sim.clean('computed')
        obs = self.sv.data.observed.data
        sim.data['synthetic'][...] = np.where(np.isfinite(obs), obs + (3+4j),
                                              np.nan)
        sim._computed = True
        m = float(sim.misfit)
        std = self.sv.standard_deviation.data
        ok = np.isfinite(obs) & np.isfinite(std)
        exp = 0.5*np.sum(25.0/std[ok]**2)
        if not np.isclose(m, exp, rtol=1e-12, atol=0):
            return (f"misfit of a long-lived simulation after "
                    f"clean('computed') is {m}, but 1/2 sum |r|^2/std^2 = "
                    f"{exp} for the current noise settings")
        return None

    def misfit_newsim(self):
        """NewSimMisfit: a Simulation newly created on THIS survey object
        (which may have served other simulations before), no clean."""
        hx = np.ones(4)*100.
        grid = emg3d.TensorMesh([hx, hx, hx], (-300, -200, -200))
        sim = emg3d.Simulation(
            self.sv, emg3d.Model(grid, 1.0), gridding='same',
            max_workers=1, tqdm_opts={'disable': True})
        obs = self.sv.data.observed.data
        sim.data['synthetic'][...] = np.where(np.isfinite(obs), obs + (3+4j),
                                              np.nan)
        sim._computed = True
        m = float(sim.misfit)
        std = self.sv.standard_deviation.data
        ok = np.isfinite(obs) & np.isfinite(std)
        exp = 0.5*np.sum(25.0/std[ok]**2)
        if not np.isclose(m, exp, rtol=1e-12, atol=0):
            return (f"misfit of a newly created simulation is {m}, but "
                    f"1/2 sum |r|^2/std^2 = {exp} for the current noise "
                    f"settings of its survey")
        return None

    def misfit_check(self):
        sv = self.sv.copy()
        hx = np.ones(4)*100.
        grid = emg3d.TensorMesh([hx, hx, hx], (-300, -200, -200))
        sim = emg3d.Simulation(sv, emg3d.Model(grid, 1.0), gridding='same',
                               max_workers=1, tqdm_opts={'disable': True})
        obs = sv.data.observed.data
        syn = np.where(np.isfinite(obs), obs + (3+4j), np.nan)
        sim.clean('computed')     # cached weights travel with the data
        sim.data['synthetic'][...] = syn
        sim._computed = True
        m = float(sim.misfit)
        std = self.sv.standard_deviation.data
        ok = np.isfinite(obs) & np.isfinite(std)
        exp = 0.5*np.sum(25.0/std[ok]**2)
        if not np.isclose(m, exp, rtol=1e-12, atol=0):
            return f"misfit {m} != 1/2 sum |r|^2/std^2 = {exp}"
        # invariance under reordering of sources, receivers, frequencies
        rs = self.sv.select(sources=list(sv.sources)[::-1],
                            receivers=list(sv.receivers)[::-1],
                            frequencies=list(sv.frequencies)[::-1],
                            remove_empty=False)
        sim2 = emg3d.Simulation(rs, emg3d.Model(grid, 1.0), gridding='same',
                                max_workers=1, tqdm_opts={'disable': True})
        obs2 = rs.data.observed.data
        sim2.clean('computed')
        sim2.data['synthetic'][...] = np.where(np.isfinite(obs2),
                                               obs2 + (3+4j), np.nan)
        sim2._computed = True
        m2 = float(sim2.misfit)
        if not np.isclose(m, m2, rtol=1e-12, atol=0):
            return f"misfit changes under reordering: {m} vs {m2}"
        return None

    # ---- compare the survey with the spec state
    def compare(self, st):
        sv = self.sv
        diffs = []
        ks, kr, kf = self.idx()
        if (tuple(ks), tuple(kr), tuple(kf)) != (
                tuple(st["keys"]["s"]), tuple(st["keys"]["r"]),
                tuple(st["keys"]["f"])):
            diffs.append(f"keys: spec {st['keys']} code {(ks, kr, kf)}")
            return diffs
        nan = dict(st["nan"]) if isinstance(st["nan"], dict) else st["nan"]
        obs = sv.data.observed.data
        for i, s in enumerate(ks):
            for j, r in enumerate(kr):
                for k, f in enumerate(kf):
                    if bool(np.isnan(obs[i, j, k])) != nan[(s, r, f)]:
                        diffs.append(f"observed NaN mask at {(s, r, f)}: spec "
                                     f"{nan[(s, r, f)]}")
        ex = st["extra"]
        if ('noise' in sv.data.keys()) != ex["on"]:
            diffs.append(f"'noise' data set: spec {ex['on']}")
        elif ex["on"]:
            nz = sv.data['noise'].data
            for i, s in enumerate(ks):
                for j, r in enumerate(kr):
                    for k, f in enumerate(kf):
                        if bool(np.isnan(nz[i, j, k])) != ex["nan"][(s, r, f)]:
                            diffs.append(f"noise NaN mask at {(s, r, f)}")
        for name, fn, scale, attr in (("nf", nfval, 1.0, "noise_floor"),
                                      ("re", reval, 0.25, "relative_error")):
            set_ = st[name]
            val = getattr(sv, attr)
            if set_["k"] == "none":
                if val is not None:
                    diffs.append(f"{attr}: spec None code {val}")
            elif set_["k"] == "scalar":
                if not (np.ndim(val) == 0 and float(val) == set_["v"]*scale):
                    diffs.append(f"{attr}: spec scalar {set_['v']*scale} "
                                 f"code {val}")
            else:
                exp = self.sub(setting_array(fn, set_["v"], scale))
                if exp.size == 1 and val is not None and np.ndim(val) == 0 \
                        and float(val) == float(exp.ravel()[0]):
                    continue      # a single value is stored as scalar
                if val is None or np.shape(val) != exp.shape or \
                        not np.array_equal(np.asarray(val), exp):
                    diffs.append(f"{attr}: spec array pattern {set_['v']} "
                                 f"{exp.ravel().tolist()} code "
                                 f"{None if val is None else np.asarray(val).ravel().tolist()}")
        if "wc" in st and ('weights' in sv.data.keys()) != (st["wc"] != "none"):
            diffs.append(f"cached weights: spec {st['wc']} code "
                         f"{'weights' in sv.data.keys()}")
        if ('standard_deviation' in sv.data.keys()) != (st["stdx"] == 1):
            diffs.append(f"explicit std: spec {st['stdx']}")
        # the standard deviation itself
        std = sv.standard_deviation
        defined = st["stdx"] == 1 or st["nf"]["k"] != "none" or \
            st["re"]["k"] != "none"
        if (std is not None) != defined:
            diffs.append(f"standard_deviation defined: spec {defined}")
        elif defined:
            std = std.data
            for i, s in enumerate(ks):
                for j, r in enumerate(kr):
                    for k, f in enumerate(kf):
                        exp = self.std_sq16(st, s, r, f, obs[i, j, k])
                        got = std[i, j, k]
                        if exp is None:
                            if not np.isnan(got):
                                diffs.append(f"std at {(s, r, f)}: expected "
                                             f"NaN got {got}")
                        elif not np.isclose(16*got*got, float(exp),
                                            rtol=1e-12, atol=0):
                            diffs.append(f"std^2*16 at {(s, r, f)}: spec "
                                         f"{float(exp)} code {16*got*got}")
        return diffs

    def std_sq16(self, st, s, r, f, d):
        if st["stdx"] == 1:
            return Fraction(16*(s+r+f)**2)
        out = Fraction(0)
        if st["nf"]["k"] != "none":
            v = st["nf"]["v"] if st["nf"]["k"] == "scalar" else \
                nfval(st["nf"]["v"], s, r, f)
            out += 16*v*v
        if st["re"]["k"] != "none":
            v = st["re"]["v"] if st["re"]["k"] == "scalar" else \
                reval(st["re"]["v"], s, r, f)
            if np.isnan(d):
                return None
            if st["noisy"]:
                out += Fraction(v*v)*Fraction(abs(d)**2)
            else:
                out += v*v*ABS[s-1][r-1][f-1]**2
        return out


def replay(steps, seed):
    w = SWorld(seed)
    probs = []
    try:
        for i, st in enumerate(steps):
            last = st["last"]
            kind, val = w.apply(last)
            if last["ok"] and kind == "error":
                probs.append((i, "ret", f"{last['op']}{last['a']} raised: {val}"))
                break
            if not last["ok"] and kind != "error":
                probs.append((i, "ret", f"{last['op']} with a non-positive "
                              "value was accepted"))
                break
            if kind == "value" and val:
                probs.append((i, "property", val))
                break
            d = w.compare(st)
            if d:
                probs.append((i, "state", "; ".join(d[:4])))
                break
            sh = w.shadows_ok()
            if sh:
                probs.append((i, "detached", sh))
                break
    finally:
        w.close()
    return probs
