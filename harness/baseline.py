"""Run the repository's pinned test-suite (guard off) and compare with
/root/.vp/BASELINE.json's stable_pass list.  Exit 0 iff all of them pass."""
import json
import os
import subprocess
import sys
import tempfile
import xml.etree.ElementTree as ET

b = json.load(open("/root/.vp/BASELINE.json"))
fd, out = tempfile.mkstemp(suffix=".xml")
os.close(fd)
env = dict(os.environ)
env.pop("EMG3D_VERIF", None)
cmd = b["cmd"].replace("<file>", out)
if "-n" in sys.argv:
    cmd += " -n 8"
subprocess.run(cmd, shell=True, env=env, stdout=subprocess.DEVNULL,
               stderr=subprocess.DEVNULL)
passed = set()
for tc in ET.parse(out).getroot().iter("testcase"):
    if not any(ch.tag in ("failure", "error", "skipped") for ch in tc):
        passed.add(f"{tc.get('classname')}::{tc.get('name')}")
os.unlink(out)
missing = [t for t in b["stable_pass"] if t not in passed]
print(f"baseline: {len(b['stable_pass']) - len(missing)}/"
      f"{len(b['stable_pass'])} stable tests pass")
for m in missing:
    print("  MISSING", m)
sys.exit(1 if missing else 0)
