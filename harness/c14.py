"""C14 - the physical model is invariant under the property mapping; chain
rule; rejection of non-positive / non-finite values.  Partial (level
exploration): TLC decides the discrete content, the floating-point clauses are
observations handed to TLC as booleans.

1. TLC checks ModelState.tla (every construction / assignment, six mappings,
   six value classes, all subsets of parameters: accepted iff conductivity,
   mu_r, epsilon_r are positive and finite; a rejection changes nothing;
   anisotropy case) and Mapping.tla (exponent algebra on sigma = 10^k over
   twelve decades: round trip, same sigma for all parametrisations, the
   documented chain-rule factors are the derivatives of the inverse maps).
2. Real emg3d.Model constructions / assignments are validated by TLC against
   ModelState (TraceModelState).
3. The REAL Map classes are evaluated on the lattice sigma = 10^k; TLC checks
   the recognised values against Mapping (MappingCode).  Attached
   observations: round trip at random values over twelve decades (1e-14),
   derivative_chain against central differences of the code's own backward
   map (1e-6) and against the harness's own formulas (1e-13), in-place
   semantics; VolumeModel coefficients (1e-13) and solved fields (1e-6
   relative to the field) equal for all six parametrisations of one
   conductivity model, all anisotropy cases, mu_r / epsilon_r, frequency and
   Laplace domain.
"""
import json
import math
import multiprocessing as mp
import random

from . import common as C
from . import extra

MAPPINGS = extra.MAPPINGS
LN10 = math.log(10.0)


def _own_fwd(m, c):
    import numpy as np
    return {"Conductivity": lambda x: x, "Resistivity": lambda x: 1.0/x,
            "LgConductivity": np.log10, "LgResistivity": lambda x: -np.log10(x),
            "LnConductivity": np.log, "LnResistivity": lambda x: -np.log(x)
            }[m](c)


def _own_chain(m, c):
    return {"Conductivity": 1.0 + 0*c, "Resistivity": -c**2,
            "LgConductivity": c*LN10, "LgResistivity": -c*LN10,
            "LnConductivity": c, "LnResistivity": -c}[m]


def _map_inst(job):
    import warnings
    warnings.filterwarnings("ignore")
    import numpy as np
    import emg3d
    from emg3d import maps
    m, k, seed = job
    rng = np.random.default_rng(seed)
    mp_ = getattr(maps, "Map" + m)()
    sig = 10.0**k
    notes = []
    v = float(np.asarray(mp_.forward(np.array([sig])))[0])
    fwd = []
    if v > 0:
        n = round(math.log10(v))
        if abs(v - 10.0**n) <= 4e-16*10.0**n:
            fwd.append(["p10", int(n)])
    if abs(v - round(v)) <= 1e-13*max(1.0, abs(v)):
        fwd.append(["int", int(round(v))])
    n = round(v/LN10)
    if abs(v - n*LN10) <= 1e-13*max(1.0, abs(v)):
        fwd.append(["ln", int(n)])
    b = float(np.asarray(mp_.backward(np.array([v])))[0])
    bwd = 99
    if b > 0:
        n = round(math.log10(b))
        if abs(b - 10.0**n) <= 1e-13*10.0**n:
            bwd = int(n)
    g = np.ones(1)
    mp_.derivative_chain(g, np.array([v]))
    chn = []
    for s in (1, -1):
        for a in (0, 1, 2):
            for bb in (0, 1):
                ref = s*sig**a*LN10**bb
                if abs(g[0] - ref) <= 1e-13*abs(ref):
                    chn.append([s, a, bb])
    # ---- floating-point observations at random values over twelve decades
    c = 10.0**rng.uniform(-6, 6, 200)
    x = np.asarray(mp_.forward(c.copy()))
    if not np.allclose(x, _own_fwd(m, c), rtol=1e-13, atol=1e-13):
        notes.append("forward differs from the definition of the mapping")
    back = np.asarray(mp_.backward(x.copy()))
    if not np.allclose(back, c, rtol=1e-13, atol=0):
        notes.append("backward(forward(sigma)) is not sigma")
    xx = np.asarray(mp_.forward(np.asarray(mp_.backward(x.copy()))))
    if not np.allclose(xx, x, rtol=1e-12, atol=1e-12):
        notes.append("forward(backward(x)) is not x")
    # whole-numbered input (integer dtype) is legal input
    ci = np.array([1, 2, 5, 10, 1000])
    xi = np.asarray(mp_.forward(ci))
    if not np.allclose(xi, _own_fwd(m, ci.astype(float)), rtol=1e-13,
                       atol=1e-13):
        notes.append("forward of integer-valued conductivities differs from "
                     "the definition of the mapping")
    if not np.allclose(np.asarray(mp_.backward(np.asarray(_own_fwd(
            m, ci.astype(float))))), ci, rtol=1e-13, atol=0):
        notes.append("backward(forward(integer sigma)) is not sigma")
    grad = rng.standard_normal(c.size)
    gin = grad.copy()
    ret = mp_.derivative_chain(gin, x.copy())
    if ret is not None:
        notes.append("derivative_chain returns something (in-place contract)")
    want = grad*_own_chain(m, c)
    if not np.allclose(gin, want, rtol=1e-13, atol=0):
        notes.append("derivative_chain differs from d sigma / d x")
    # ... at the CURRENT values: the same array object edited in place by a
    # permutation (sum, shape and identity unchanged), chain rule again
    xs = x.copy()
    g1 = np.ones(c.size)
    mp_.derivative_chain(g1, xs)
    xs[:] = xs[::-1].copy()
    g2 = np.ones(c.size)
    mp_.derivative_chain(g2, xs)
    if not np.allclose(g2, _own_chain(m, c[::-1]), rtol=1e-13, atol=0):
        notes.append("derivative_chain after an in-place permutation of the "
                     "same array is not the derivative at the current values")
    # the derivative of the code's OWN backward map, by central differences
    hstep = 1e-6*np.maximum(np.abs(x), 1e-3)
    fd = (np.asarray(mp_.backward(x + hstep)) -
          np.asarray(mp_.backward(x - hstep)))/(2*hstep)
    if not np.allclose(gin/grad, fd, rtol=1e-5, atol=0):
        notes.append("derivative_chain is not the derivative of backward()")
    # ---- same coefficients and fields in this parametrisation as in
    # conductivities (one small model per lattice point)
    hx = np.array([1.5, 1.0, 1.0, 2.0])*10**rng.uniform(0, 2)
    grid = emg3d.TensorMesh([hx, hx[::-1], hx], (0, 0, 0))
    case = int(rng.integers(4))
    shape = grid.shape_cells
    cond = [sig*10**rng.uniform(-0.5, 0.5, shape) for _ in range(3)]
    kw_c, kw_m = {}, {}
    for name, i in (("property_x", 0), ("property_y", 1), ("property_z", 2)):
        if i == 0 or (i == 1 and case in (1, 3)) or (i == 2 and case in (2, 3)):
            kw_c[name] = cond[i]
            kw_m[name] = _own_fwd(m, cond[i])
    extra_kw = {}
    if rng.random() < 0.4:
        extra_kw["mu_r"] = rng.uniform(1, 3, shape)
    if rng.random() < 0.4:
        extra_kw["epsilon_r"] = rng.uniform(1, 30, shape)
    mc = emg3d.Model(grid, mapping="Conductivity", **kw_c, **extra_kw)
    mm = emg3d.Model(grid, mapping=m, **kw_m, **extra_kw)
    if mm.case != mc.case:
        notes.append("anisotropy case depends on the mapping")
    freq = float(rng.choice([1.0, 0.01, 100.0, -1.0, -30.0]))
    sf = emg3d.get_source_field(grid, (hx.sum()/2, hx.sum()/2, hx.sum()/2,
                                       30, 10), freq)
    vc = emg3d.models.VolumeModel(mc, sf)
    vm = emg3d.models.VolumeModel(mm, sf)
    for nm in ("eta_x", "eta_y", "eta_z", "zeta"):
        if not np.allclose(getattr(vm, nm), getattr(vc, nm), rtol=1e-12,
                           atol=0):
            notes.append(f"VolumeModel.{nm} depends on the mapping")
    if abs(k) <= 3:
        ec = emg3d.solve(mc, sf, plain=True, tol=1e-9, maxit=60, verb=-1)
        em = emg3d.solve(mm, sf, plain=True, tol=1e-9, maxit=60, verb=-1)
        d = np.linalg.norm(ec.field - em.field)
        if not d <= 1e-6*np.linalg.norm(ec.field):
            notes.append(f"solved fields differ between mappings ({d:.2e})")
    return {"m": m, "k": k, "fwd": fwd, "bwd": bwd, "chn": chn,
            "obs": not notes, "notes": notes, "seed": seed}


def for_tlc(x):
    return {k: x[k] for k in ("m", "k", "fwd", "bwd", "chn", "obs")}


def run(tier, replay=None):
    rep = C.Report("C14", tier, level="exploration")
    rng = random.Random(C.seed())
    rep.assumptions += [
        "partial: TLC decides the rejection clause on value classes "
        "(ModelState) and the algebra of the mappings on the lattice "
        "sigma = 10^k (Mapping); round trips, the chain rule at arbitrary "
        "values, equal coefficients and equal fields are floating-point "
        "observations (1e-13 .. 1e-6) handed to TLC as booleans",
        "'the same data' is not observed separately from 'the same fields'"]
    res = C.run_tlc("ModelState", "ModelState.cfg", timeout=900)
    C.expect_tlc_ok(rep, "ModelState: all constructions / assignments, six "
                    "mappings, six value classes", res, "C14")
    res = C.run_tlc("Mapping", "Mapping.cfg", timeout=300)
    C.expect_tlc_ok(rep, "Mapping: six maps x sigma = 10^k, k in -6..6", res,
                    "C14")
    rep.cov["exhaustive"] = True
    if replay:
        with open(replay) as f:
            j = json.load(f)["case"]
        seeds = [j["seed"]] if "ev" in j else []
        mjobs = [(j["m"], j["k"], j["seed"])] if "m" in j else []
    else:
        n = 400 if tier == "quick" else 5000
        seeds = [rng.randrange(10**9) for _ in range(n)]
        reps = 1 if tier == "quick" else 8
        mjobs = [(m, k, rng.randrange(10**6)) for m in MAPPINGS
                 for k in range(-6, 7) for _ in range(reps)]
    with mp.get_context("fork").Pool(C.NCPU) as pool:
        traces = pool.map(extra._drive, seeds, chunksize=16)
        insts = pool.map(_map_inst, mjobs, chunksize=2)
    bad = C.validate_batch(rep, "TraceModelState", "TraceModelState.cfg",
                           [{"mapping": t["mapping"], "ev": t["ev"]}
                            for t in traces], "Model")
    rep.add_traces(len(traces) - len(bad))
    for i, why in bad:
        t = traces[i]
        rep.violation(f"C14:model:{t['mapping']}:seed={t['seed']}",
                      f"Model({t['mapping']}) history {t['ev']} is not a "
                      f"behaviour of ModelState.tla ({why})", t)
    ibad = dict(C.validate_batch(rep, "MappingCode", "MappingCode.cfg",
                                 [for_tlc(x) for x in insts], "maps"))
    rep.add_traces(len(insts) - len(ibad))
    for i, why in sorted(ibad.items()):
        x = insts[i]
        rep.violation(f"C14:map:{why}:{x['m']};k={x['k']}",
                      f"Map{x['m']} at sigma = 1e{x['k']}: {why}; readings "
                      f"fwd {x['fwd']} bwd {x['bwd']} chain {x['chn']}; "
                      f"{x['notes']}", x)
    rep.cov["evaluations"] = len(traces) + len(insts)
    rep.cov["distinct_nontrivial"] = len(
        {json.dumps(t["ev"]) for t in traces if len(t["ev"]) > 1}) + len(
        {(x["m"], x["k"]) for x in insts})
    rep.cov["rule"] = ("one trace per random Model construction followed by "
                       "assignments (non-trivial: at least one assignment); "
                       "one instance per (mapping, decade)")
    if traces:
        rep.sample({"mapping": traces[0]["mapping"], "ev": traces[0]["ev"]})
    if insts:
        rep.sample(insts[len(insts)//2])
    if not replay:
        import copy
        muts = []
        x = copy.deepcopy(for_tlc(insts[5]))
        x["bwd"] = x["bwd"] + 1
        muts.append(x)
        x = copy.deepcopy(for_tlc([y for y in insts
                                   if y["m"] == "Resistivity"
                                   and y["k"] == 2][0]))
        x["chn"] = [[1, 2, 0]]           # sign of the chain rule lost
        muts.append(x)
        x = copy.deepcopy(for_tlc([y for y in insts
                                   if y["m"] == "LgResistivity"
                                   and y["k"] == -3][0]))
        x["fwd"] = [["int", -3]]         # log10(sigma) instead of log10(rho)
        muts.append(x)
        x = copy.deepcopy(for_tlc(insts[-1]))
        x["obs"] = False
        muts.append(x)
        cb = {b[0] for b in C.validate_batch(rep, "MappingCode",
                                             "MappingCode.cfg", muts,
                                             "canaries", count=False)}
        for i in range(len(muts)):
            rep.canary(i in cb)
        if len(cb) != len(muts):
            raise C.MachineryError("canary instances accepted: " + str(
                sorted(set(range(len(muts))) - cb)))
        t = copy.deepcopy({"mapping": traces[0]["mapping"],
                           "ev": traces[0]["ev"]})
        t["ev"][0]["ok"] = not t["ev"][0]["ok"]
        cb = C.validate_batch(rep, "TraceModelState", "TraceModelState.cfg",
                              [t], "canaries", count=False)
        rep.canary(bool(cb))
        if not cb:
            raise C.MachineryError("ModelState canary accepted")
    return rep.finish()
