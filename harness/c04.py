"""C04 - restriction = prolongation^T; coarse model conserves volumes.

1. TLC proves (exhaustively over all 1-D width vectors with widths in
   {1,2,3,5}, 2/4/6 cells) that the restriction weights of restrict_weights
   are the transpose of linear interpolation, non-negative, summing to one,
   and that the coarse grid is every second node (Transfer.tla, part 1).
2. The matrices of the REAL emg3d.solver.restriction and .prolongation are
   extracted by applying them to every basis field (grid widths in {1,2,3},
   all seven coarsening patterns); TLC checks every entry against the exact
   rational references and the C04 laws on the code's own matrices
   (TransferCode.tla): P = reference, R = P^T on interior edges, rows of P
   sum to one, non-negative, boundary rows empty, coarse grid rule, coarse
   model parameter = sum of its children.
"""
import json
import multiprocessing as mp
import os
import random
from fractions import Fraction

from . import common as C

KEPT = {0: set(), 1: {0}, 2: {1}, 3: {2}, 4: {1, 2}, 5: {0, 2}, 6: {0, 1}}


def frac(x):
    f = Fraction(float(x)).limit_denominator(5000)
    if abs(float(f) - float(x)) > 8e-16*max(1.0, abs(float(x))):
        return None
    return f


def _extract(job):
    import numpy as np
    import emg3d
    from emg3d import solver
    h, sc, dtype = job
    h = [np.array(a, dtype=float) for a in h]
    grid = emg3d.TensorMesh(h, (0, 0, 0))
    shape = grid.shape_cells
    cshape = tuple(n if d in KEPT[sc] else n//2 for d, n in enumerate(shape))
    frequency = 1.0 if dtype == "complex" else -1.0

    class VM:
        pass
    vm = VM()
    vm.case = 'triaxial'
    vm.grid = grid
    i, j, k = np.meshgrid(*[np.arange(n) for n in shape], indexing='ij')
    par = (1 + i + 16*j + 256*k).astype(float)
    vm.eta_x, vm.eta_y, vm.eta_z, vm.zeta = par.copy(), 2*par, 3*par, 5*par
    sfield = emg3d.Field(grid, frequency=frequency)
    unit = 1.0 if dtype == "real" else (1.0+0.5j)

    def edges(shp):
        out = []
        nn = list(shp)
        for c in range(3):
            dims = [nn[d] if d == c else nn[d]+1 for d in range(3)]
            for kk in range(dims[2]):
                for jj in range(dims[1]):
                    for ii in range(dims[0]):
                        out.append((c+1, ii, jj, kk))
        return out
    fe, ce = edges(shape), edges(cshape)
    bad = []

    def rows_of(cols, nrow, row_edges, col_edges):
        """cols[j] = dense column vector (per basis vector j)."""
        rows = [[] for _ in range(nrow)]
        for jcol, v in enumerate(cols):
            nz = np.flatnonzero(v)
            for r in nz:
                val = v[r]/unit
                if abs(val.imag) > 1e-14*abs(val):
                    bad.append("not linear over the complex numbers")
                f = frac(val.real)
                if f is None:
                    bad.append(f"entry {val.real!r} is not a small rational")
                    f = Fraction(0)
                rows[r].append(list(col_edges[jcol][1:]) +
                               [f.numerator, f.denominator])
        return [[*row_edges[r], rows[r]] for r in range(nrow)]
    # ---- restriction: columns = fine basis fields
    cols = []
    cmodel = None
    for n in range(len(fe)):
        res = emg3d.Field(grid, frequency=frequency)
        res.field[n] = unit
        cmodel, csf, cef = solver.restriction(vm, sfield, res, sc)
        cols.append(csf.field.copy())
        if np.any(cef.field != 0):
            bad.append("coarse e-field not zero")
    rrow = rows_of(cols, len(ce), ce, fe)
    # ---- prolongation: columns = coarse basis fields
    cgrid = cmodel.grid
    cols = []
    for n in range(len(ce)):
        cef = emg3d.Field(cgrid, frequency=frequency)
        cef.field[n] = unit
        ef = emg3d.Field(grid, frequency=frequency)
        solver.prolongation(ef, cef, sc)
        cols.append(ef.field.copy())
    prow = rows_of(cols, len(fe), fe, ce)
    # prolongation ADDS its correction
    ef = emg3d.Field(grid, frequency=frequency)
    ef.field[:] = 7.0*unit
    cef = emg3d.Field(cgrid, frequency=frequency)
    cef.field[:] = unit
    solver.prolongation(ef, cef, sc)
    base = np.zeros_like(ef.field)
    tmp = emg3d.Field(grid, frequency=frequency)
    solver.prolongation(tmp, cef, sc)
    if not np.allclose(ef.field, 7.0*unit + tmp.field, rtol=1e-14, atol=0):
        bad.append("prolongation does not add its correction")
    # ---- coarse grid and model
    ch = [[int(round(x)) for x in cgrid.h[d]] for d in range(3)]
    if any(abs(cgrid.h[d] - np.round(cgrid.h[d])).max() > 0 for d in range(3)):
        bad.append("coarse widths are not the sums of fine widths")
    par_entries = []
    cs = cmodel.eta_x.shape
    for kk in range(cs[2]):
        for jj in range(cs[1]):
            for ii in range(cs[0]):
                par_entries.append([ii, jj, kk, int(cmodel.eta_x[ii, jj, kk])])
    if not (np.array_equal(cmodel.eta_y, 2*cmodel.eta_x) and
            np.array_equal(cmodel.eta_z, 3*cmodel.eta_x) and
            np.array_equal(cmodel.zeta, 5*cmodel.eta_x)):
        bad.append("eta_y / eta_z / zeta are not restricted like eta_x")
    # anisotropy aliasing on the coarse model
    for case, (ay, az) in {"isotropic": (True, True), "HTI": (False, True),
                           "VTI": (True, False)}.items():
        vm.case = case
        cm, _, _ = solver.restriction(vm, sfield, sfield, sc)
        if (cm.eta_y is cm.eta_x) != ay or (cm.eta_z is cm.eta_x) != az:
            bad.append(f"aliasing of coarse eta for case {case}")
    # ---- floating-point sibling: the same shape and pattern with general
    # positive widths (random stretching, or nearly regular: ratios 1+eps)
    # - the transpose identity and the partition of unity hold for ALL
    # positive widths, to rounding
    rng = np.random.default_rng(abs(hash((str(h), sc))) % (2**32))
    for mode in ("random", "nearly-regular"):
        hf = []
        for a in h:
            if mode == "random":
                hf.append(a*rng.uniform(0.5, 2.0, a.size))
            else:
                eps = 10.0**rng.integers(-8, -3)
                hf.append(a[0]*(1 + eps)**np.arange(a.size))
        gf = emg3d.TensorMesh(hf, (0, 0, 0))
        vmf = VM()
        vmf.case, vmf.grid = 'isotropic', gf
        one = np.ones(shape)
        vmf.eta_x = vmf.eta_y = vmf.eta_z = vmf.zeta = one
        sf = emg3d.Field(gf, frequency=frequency)
        R = np.zeros((len(ce), len(fe)))
        cg = None
        for n in range(len(fe)):
            res = emg3d.Field(gf, frequency=frequency)
            res.field[n] = 1.0
            cm, csf, _ = solver.restriction(vmf, sf, res, sc)
            cg = cm.grid
            R[:, n] = csf.field.real
        P = np.zeros((len(fe), len(ce)))
        for n in range(len(ce)):
            cef = emg3d.Field(cg, frequency=frequency)
            cef.field[n] = 1.0
            ef = emg3d.Field(gf, frequency=frequency)
            solver.prolongation(ef, cef, sc)
            P[:, n] = ef.field.real

        def interior(e, nn):
            return all(d == e[0]-1 or 1 <= e[d+1] <= nn[d]-1 for d in range(3))
        fi = np.array([interior(e, shape) for e in fe])
        ci = np.array([interior(e, cshape) for e in ce])
        d = np.abs(R[np.ix_(ci, fi)] - P[np.ix_(fi, ci)].T).max() \
            if ci.any() and fi.any() else 0.0
        if d > 1e-13:
            bad.append(f"{mode} widths: max |R - P^T| on interior edges = "
                       f"{d:.2e}")
        if fi.any():
            rs = np.abs(P[fi].sum(axis=1) - 1.0).max()
            if rs > 1e-13 or P.min() < 0:
                bad.append(f"{mode} widths: prolongation weights do not sum "
                           f"to one ({rs:.2e}) or are negative")
        if np.abs(P[~fi]).max() > 0:
            bad.append(f"{mode} widths: prolongation writes boundary edges")
    return {"h": [[int(x) for x in a] for a in h], "sc": sc, "ch": ch,
            "prow": prow, "rrow": rrow, "par": par_entries,
            "obs": not bad, "bad": bad, "dtype": dtype}


def gen_jobs(tier, rng):
    jobs = []
    sizes = [4, 6] if tier == "quick" else [4, 6, 8]
    n = 44 if tier == "quick" else 400
    for sc in range(7):                      # every pattern, one fixed grid
        jobs.append(([[1, 2, 3, 1], [2, 1, 1, 3, 2, 1], [3, 1, 2, 2]], sc,
                     "real"))
    while len(jobs) < n:
        sc = rng.randrange(7)
        h = []
        for d in range(3):
            if d in KEPT[sc]:
                m = rng.choice([2, 3, 4, 5])
            else:
                m = rng.choice(sizes)
            h.append([rng.choice([1, 1, 2, 3]) for _ in range(m)])
        jobs.append((h, sc, rng.choice(["real", "complex"])))
    return jobs


def key_of(inst):
    return (f"sc={inst['sc']};h={'|'.join(','.join(map(str, a)) for a in inst['h'])}"
            f";{inst['dtype']}")


def for_tlc(x):
    return {k: x[k] for k in ("h", "sc", "ch", "prow", "rrow", "par", "obs")}


def run(tier, replay=None):
    rep = C.Report("C04", tier)
    rng = random.Random(C.seed())
    rep.assumptions += [
        "integer cell widths in {1,2,3}: every weight is a rational with a "
        "small denominator; a float is accepted as that rational if it "
        "agrees to 8e-16 relative",
        "matrices are extracted by applying the real functions to every "
        "basis field (linearity over the complex numbers is observed with a "
        "complex unit)"]
    res = C.run_tlc("Transfer", "Transfer.cfg", timeout=900)
    C.expect_tlc_ok(rep, "Transfer part 1: all 1-D width vectors over "
                    "{1,2,3,5}, 2/4/6 cells", res, "C04")
    rep.cov["exhaustive"] = True
    if replay:
        with open(replay) as f:
            j = json.load(f)["case"]
        jobs = [(j["h"], j["sc"], j["dtype"])]
    else:
        jobs = gen_jobs(tier, rng)
    with mp.get_context("fork").Pool(C.NCPU) as pool:
        insts = pool.map(_extract, jobs, chunksize=1)
    bad = C.validate_batch(rep, "TransferCode", "TransferCode.cfg",
                           [for_tlc(x) for x in insts], "impl", chunk=12,
                           timeout=3000)
    badidx = dict(bad)
    rep.add_traces(len(insts) - len(badidx))
    for i, why in sorted(badidx.items()):
        x = insts[i]
        rep.violation(f"C04:code:{why}:{key_of(x)}",
                      f"matrices of the real restriction/prolongation violate "
                      f"{why}" + (f"; observations: {x['bad']}" if x["bad"]
                                  else ""),
                      {"h": x["h"], "sc": x["sc"], "dtype": x["dtype"]})
    rep.cov["instances"] = len(insts)
    rep.cov["patterns"] = sorted({x["sc"] for x in insts})
    rep.cov["matrix_entries_checked"] = sum(
        sum(len(r[4]) for r in x["prow"]) + sum(len(r[4]) for r in x["rrow"])
        for x in insts)
    s = insts[0]
    rep.sample({"h": s["h"], "sc": s["sc"], "coarse_h": s["ch"],
                "one_P_row": [r for r in s["prow"] if len(r[4]) > 2][:1],
                "one_R_row": [r for r in s["rrow"] if len(r[4]) > 4][:1]})
    if not replay:
        import copy
        muts = []
        g = copy.deepcopy(for_tlc(insts[0]))
        r = [r for r in g["prow"] if r[4]][0]
        r[4][0][3] += 1                       # one prolongation weight wrong
        muts.append(g)
        g = copy.deepcopy(for_tlc(insts[3]))
        nf = [len(a) for a in g["h"]]
        nc = [len(a) for a in g["ch"]]

        def interior(e, nn):
            return all(d == e[0]-1 or 1 <= e[d+1] <= nn[d]-1 for d in range(3))
        done = False
        for r in g["rrow"]:
            if done or not interior(r[:4], nc):
                continue
            for t in r[4]:
                if interior([r[0]] + t[:3], nf) and t[3] != 0:
                    t[3] += 1                 # one restriction weight wrong
                    done = True
                    break
        if not done:
            raise C.MachineryError("no interior restriction entry found")
        muts.append(g)
        g = copy.deepcopy(for_tlc(insts[1]))
        g["par"][0][3] += 1                   # coarse parameter not the sum
        muts.append(g)
        g = copy.deepcopy(for_tlc(insts[2]))
        g["ch"][0][0] += 1                    # wrong coarse width
        muts.append(g)
        cb = C.validate_batch(rep, "TransferCode", "TransferCode.cfg", muts,
                              "canaries", count=False, chunk=12)
        cbi = {b[0] for b in cb}
        for i in range(len(muts)):
            rep.canary(i in cbi)
        if len(cbi) != len(muts):
            raise C.MachineryError("canaries accepted: " + str(
                sorted(set(range(len(muts))) - cbi)))
    return rep.finish()
