#!/bin/bash
# development tool: run every quick check under several seeds, report non-zero exits
cd "$(dirname "$0")/.."
for sd in "$@"; do
  for id in C01 C02 C03 C04 C05 C06 C07 C08 C09 C10 C11 C12 C13 C14 C15 C16 C17 C18 C19 C20 EXTRA; do
    t0=$(date +%s)
    VERIF_SEED=$sd ./check $id > /tmp/smoke-$sd-$id.log 2>&1
    rc=$?
    echo "seed=$sd $id exit=$rc $(( $(date +%s) - t0 ))s $(tail -1 /tmp/smoke-$sd-$id.log | cut -c1-160)"
  done
done
