"""Recorder for emg3d.solver.multigrid(): one event per MGCycle action.

Installed by wrapping module attributes at run time (no change to /repo).
Used by the C05 and C01 harnesses.  With stub=True the four Gauss-Seidel
kernels, core.amat_x and core.restrict are replaced by cheap stand-ins so that
only the *control* code of emg3d runs (multigrid recursion, restriction(),
prolongation(), MGParameters, _terminate are always the real code).
"""
import numpy as np

import emg3d
from emg3d import core, solver

_KIND = {"initial smoothing": "InitSmooth", "coarsest level": "CoarsestSmooth",
         "pre-smoothing": "PreSmooth", "post-smoothing": "PostSmooth"}


def digits(x, true_pattern):
    if x is True:
        return list(true_pattern)
    if x is False:
        return [0]
    return [int(c) for c in str(abs(int(x)))]


class MGRecorder:
    def __init__(self, stub=False):
        self.stub = stub
        self.ev = []
        self.levels = []        # stack of levels of active multigrid() calls
        self.pending = None     # smoothing call waiting for its log line
        self.nsmooth = 0
        self.first_term = True
        self.ncalls = 4
        self._saved = {}

    # -- install / remove
    def _patch(self, mod, name, new):
        self._saved[(mod, name)] = getattr(mod, name)
        setattr(mod, name, new)

    def install(self):
        rec = self
        o_mg, o_sm = solver.multigrid, solver.smoothing
        o_re, o_pr = solver.restriction, solver.prolongation
        o_te, o_gs = solver._terminate, solver._print_gs_info

        def multigrid(model, sfield, efield, var, **kw):
            level = kw.get('level', 0)
            rec.ev.append({"e": "Enter", "level": level,
                           "newcm": kw.get('new_cycmax', 0),
                           "shape": [int(n) for n in model.grid.shape_cells]})
            rec.levels.append(level)
            try:
                out = o_mg(model, sfield, efield, var, **kw)
            finally:
                rec.levels.pop()
            if level > 0:
                rec.ev.append({"e": "Return", "level": level})
            return out

        def smoothing(model, sfield, efield, nu, lr_dir):
            rec.flush()
            rec.nsmooth += 1
            rec.pending = {"nu": int(nu), "lr": int(lr_dir), "k": [],
                           "kshape": None}
            return o_sm(model, sfield, efield, nu, lr_dir)

        def _print_gs_info(var, it, level, cycmax, grid, norm, add):
            if add in _KIND:
                p = rec.pending or {"nu": -1, "lr": -1, "k": [],
                                    "kshape": None}
                rec.pending = None
                p.update({"e": _KIND[add], "it": int(it), "level": int(level),
                          "cycmax": int(cycmax),
                          "shape": [int(n) for n in grid.shape_cells]})
                if p["kshape"] is None:
                    p["kshape"] = []
                rec.ev.append(p)
            return o_gs(var, it, level, cycmax, grid, norm, add)

        def restriction(model, sfield, residual, sc_dir):
            rec.flush()
            out = o_re(model, sfield, residual, sc_dir)
            rec.ev.append({
                "e": "Restrict", "level": rec.levels[-1] if rec.levels else -1,
                "shape": [int(n) for n in model.grid.shape_cells],
                "csc": int(sc_dir),
                "cshape": [int(n) for n in out[0].grid.shape_cells]})
            return out

        def prolongation(efield, cefield, sc_dir):
            rec.flush()
            out = o_pr(efield, cefield, sc_dir)
            rec.ev.append({
                "e": "Prolong", "level": rec.levels[-1] if rec.levels else -1,
                "shape": [int(n) for n in efield.grid.shape_cells],
                "csc": int(sc_dir),
                "cshape": [int(n) for n in cefield.grid.shape_cells]})
            return out

        def _terminate(var, l2_last, l2_stag, it):
            rec.flush()
            e = {"e": "EndCycle", "it": int(it), "git": int(var.it),
                 "sc": int(var.sc_dir), "lr": int(var.lr_dir)}
            if rec.first_term:
                e["qc"] = [int(x) for x in var.level_all]
                rec.first_term = False
            try:
                fin = o_te(var, l2_last, l2_stag, it)
            except solver._ConvergenceError:
                e["stop"] = True
                e["msg"] = var.exit_message
                rec.ev.append(e)
                raise
            e["stop"] = bool(fin)
            e["msg"] = var.exit_message
            rec.ev.append(e)
            return fin

        self._patch(solver, "multigrid", multigrid)
        self._patch(solver, "smoothing", smoothing)
        self._patch(solver, "_print_gs_info", _print_gs_info)
        self._patch(solver, "restriction", restriction)
        self._patch(solver, "prolongation", prolongation)
        self._patch(solver, "_terminate", _terminate)

        def kernel(axis, orig):
            def k(ex, ey, ez, *a):
                if rec.pending is not None:
                    rec.pending["k"].append(axis)
                    rec.pending["kshape"] = [int(ex.shape[0]),
                                             int(ey.shape[1]),
                                             int(ez.shape[2])]
                if not rec.stub:
                    return orig(ex, ey, ez, *a)
            return k

        self._patch(core, "gauss_seidel", kernel(0, core.gauss_seidel))
        self._patch(core, "gauss_seidel_x", kernel(1, core.gauss_seidel_x))
        self._patch(core, "gauss_seidel_y", kernel(2, core.gauss_seidel_y))
        self._patch(core, "gauss_seidel_z", kernel(3, core.gauss_seidel_z))

        if self.stub:
            def amat_x(rx, ry, rz, *a):
                f = 1.0/(1.0+rec.nsmooth)
                rx *= f
                ry *= f
                rz *= f

            def restrict(*a):
                return None

            self._patch(core, "amat_x", amat_x)
            self._patch(core, "restrict", restrict)

            # Stand-in for the SciPy solvers: calls the preconditioner (a
            # complete multigrid() run) a fixed number of times, so that the
            # hand-over of sc/lr positions between preconditioner calls is
            # exercised deterministically.
            import scipy.sparse.linalg as ssl

            def fake(A=None, b=None, x0=None, M=None, callback=None, **kw):
                x = np.array(x0, copy=True)
                for _ in range(rec.ncalls):
                    if M is not None:
                        M.matvec(b)
                    if callback is not None:
                        callback(x)
                return x, 1

            for name in ("bicgstab", "cgs", "gcrotmk"):
                self._patch(ssl, name, fake)
        return self

    def flush(self):
        """A smoothing call that was not followed by its log line."""
        if self.pending is not None:
            p = self.pending
            self.pending = None
            p.update({"e": "SmoothWithoutLog", "it": -1, "level": -1,
                      "cycmax": -1, "shape": [], "kshape": p["kshape"] or []})
            self.ev.append(p)

    def remove(self):
        for (mod, name), val in self._saved.items():
            setattr(mod, name, val)
        self._saved = {}


def parse_header(log):
    """Per-direction levels and coarsest shape printed in the solver header."""
    import re
    m1 = re.search(r"Coarsest grid\s*:\s*(\d+) x\s*(\d+) x\s*(\d+)", log)
    m2 = re.search(r"Coarsest level\s*:\s*(\d+) ;\s*(\d+)\s*;\s*(\d+)(.*)", log)
    if not (m1 and m2):
        return None
    return {"e": "Header", "cshape": [int(m1.group(i)) for i in (1, 2, 3)],
            "levels": [int(m2.group(i)) for i in (1, 2, 3)],
            "notoptimal": "not optimal" in m2.group(4)}


def widths(n, stretch, rng=None):
    if stretch == 0:
        return np.ones(n)
    h = 1.0 + 0.5*np.abs(np.arange(n) - (n-1)/2.0)*stretch
    return h


def run_config(c):
    """Run emg3d.solve for configuration c; return the trace (cfg, ev).

    c: dict(shape, cycle, sc, lr, cl, maxit, nu, ssl, tol, stub, stretch)
       sc / lr are the user inputs (True or an int).
    """
    shape = c["shape"]
    grid = emg3d.TensorMesh(
        [widths(shape[0], c.get("stretch", 0)),
         widths(shape[1], c.get("stretch", 0)),
         widths(shape[2], c.get("stretch", 0))], (0, 0, 0))
    model = emg3d.Model(grid, property_x=1.0 + 0.5*c.get("aniso", 0),
                        property_z=(2.0 if c.get("aniso", 0) else None))
    sfield = emg3d.Field(grid, frequency=c.get("freq", 1.0))
    # A source on interior edges (or anywhere if there are none).
    sfield.fx[shape[0]//2, min(1, shape[1]-1), min(1, shape[2]-1)] = 1.0
    sfield.fz[min(1, shape[0]-1), min(1, shape[1]-1), shape[2]//2] = -0.5
    rec = MGRecorder(stub=c.get("stub", False)).install()
    nu = c["nu"]
    err = None
    info = None
    try:
        _, info = emg3d.solve(
            model, sfield, sslsolver=c.get("ssl", False),
            semicoarsening=c["sc"], linerelaxation=c["lr"], cycle=c["cycle"],
            clevel=c["cl"], maxit=c["maxit"], tol=c.get("tol", 1e-6),
            nu_init=nu[0], nu_pre=nu[1], nu_coarse=nu[2], nu_post=nu[3],
            verb=5, log=-1, return_info=True)
    except Exception as e:  # noqa
        err = f"{type(e).__name__}: {e}"
    finally:
        rec.flush()
        rec.remove()
    sc = digits(c["sc"], (1, 2, 3))
    lr = digits(c["lr"], (4, 5, 6))
    maxit = c["maxit"] if not c.get("ssl") else max(len(sc), len(lr))
    ev = rec.ev
    hdr = parse_header(info["log"]) if info else None
    if hdr:
        ev = [hdr] + ev
    cfg = {"shape": list(shape), "cycle": c["cycle"], "sc": sc, "lr": lr,
           "cl": int(c["cl"]), "maxit": int(maxit), "nu": list(nu)}
    return {"cfg": cfg, "ev": ev, "err": err,
            "exit": None if info is None else info["exit"],
            "msg": None if info is None else info["exit_message"],
            "inp": {k: (v if not isinstance(v, tuple) else list(v))
                    for k, v in c.items()}}
